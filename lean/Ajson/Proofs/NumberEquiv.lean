/-
The table-driven number scanner of buffer.go (`numeric()`, states MI ZE IN DT FR E1 E2 E3 of the regenerated table) agrees
with the number grammar of RFC 8259 as written in `Spec.scanNumber`.
-/
import Ajson.Proofs.TableRows
namespace Ajson.Proofs
open Ajson Ajson.Spec

/-- what the decoder needs from `numeric()`: where it stopped -/
def numOut (r : Except PErr ScanPos) : Option (Bytes × Nat) :=
  match r with
  | .ok p => some (p.rest, p.idx)
  | .error _ => none

theorem numOut_cons (c : UInt8) (bs : Bytes) (i : Nat) (q x : Int) :
    numOut (numericLoop false (c :: bs) i q x) =
      if nextSt q c == -1 then none
      else if nextSt q c < Gen.sMI || nextSt q c > Gen.sE3 then some (c :: bs, i)
      else numOut (numericLoop false bs (i + 1) (nextSt q c) (nextSt q c)) := by
  rw [numericLoop]
  simp only [nextSt]
  by_cases h : (classOf false c == -1) = true
  · simp [h, numOut]
  · simp only [h, if_false, Bool.false_eq_true]
    by_cases h1 : (sttAt q (classOf false c) == -1) = true
    · simp [h1, numOut]
    · simp only [h1, if_false, Bool.false_eq_true]
      by_cases h2 : sttAt q (classOf false c) < -1
      · have : sttAt q (classOf false c) < Gen.sMI := by have : (Gen.sMI : Int) = 13 := rfl; omega
        simp [h2, this, numOut]
      · simp only [h2, if_false]
        by_cases h3 : (decide (sttAt q (classOf false c) < Gen.sMI) || decide (sttAt q (classOf false c) > Gen.sE3)) = true
        · simp [h3, numOut]
        · simp only [h3, if_false, Bool.false_eq_true]

theorem numOut_nil (i : Nat) (q x : Int) :
    numOut (numericLoop false [] i q x) =
      if q != Gen.sZE && q != Gen.sIN && q != Gen.sFR && q != Gen.sE3 then none else some ([], i) := by
  rw [numericLoop]
  split <;> simp [numOut]

/-- the outcome after a complete number when the following input is `r1` at index `j` -/
def afterNumber (r1 : Bytes) (j : Nat) : Option (Bytes × Nat) :=
  match r1 with
  | [] => some ([], j)
  | c :: _ => if afterNum c == -1 then none else some (r1, j)

theorem afterNum_stop (c : UInt8) (h : ¬ (afterNum c == -1) = true) :
    (decide (afterNum c < Gen.sMI) || decide (afterNum c > Gen.sE3)) = true := by
  unfold afterNum at h ⊢
  repeat' split
  all_goals first | decide | (exfalso; simp_all)

theorem numOut_indep (s : Bytes) (i : Nat) (q x y : Int) :
    numOut (numericLoop false s i q x) = numOut (numericLoop false s i q y) := by
  cases s with
  | nil => rw [numOut_nil, numOut_nil]
  | cons c bs => rw [numOut_cons, numOut_cons]

/-- `numeric()` continued from automaton state q -/
def NL (q : Int) (s : Bytes) (i : Nat) : Option (Bytes × Nat) := numOut (numericLoop false s i q q)

theorem NL_cons (q : Int) (c : UInt8) (bs : Bytes) (i : Nat) :
    NL q (c :: bs) i = if nextSt q c == -1 then none
      else if nextSt q c < Gen.sMI || nextSt q c > Gen.sE3 then some (c :: bs, i)
      else NL (nextSt q c) bs (i + 1) := by
  unfold NL; rw [numOut_cons]

theorem NL_nil (q : Int) (i : Nat) :
    NL q [] i = if q != Gen.sZE && q != Gen.sIN && q != Gen.sFR && q != Gen.sE3 then none else some ([], i) := numOut_nil i q q

def expPhase (s3 : Bytes) (i3 : Nat) : Except RefErr (Bytes × Nat) :=
  match s3 with
  | c :: r =>
    if c == 101 || c == 69 then
      let (r1, j) := match r with
        | 43 :: t => (t, i3 + 2)
        | 45 :: t => (t, i3 + 2)
        | _ => (r, i3 + 1)
      match r1 with
      | [] => .error .eof
      | b :: r' => if isDigit b then .ok (skipDigits r' (j + 1)) else .error (.at j)
    else .ok (s3, i3)
  | [] => .ok (s3, i3)

def fracPhase (s2 : Bytes) (i2 : Nat) : Except RefErr (Bytes × Nat) :=
  match s2 with
  | 46 :: r =>
    match r with
    | [] => .error .eof
    | b :: r' => if isDigit b then .ok (skipDigits r' (i2 + 2)) else .error (.at (i2 + 1))
  | _ => .ok (s2, i2)

def intPhase (s1 : Bytes) (i1 : Nat) : Except RefErr (Bytes × Nat) :=
  match s1 with
  | [] => .error .eof
  | 48 :: r => .ok (r, i1 + 1)
  | b :: r => if isDigit b then .ok (skipDigits r (i1 + 1)) else .error (.at i1)

def signPhase (s : Bytes) (i : Nat) : Bytes × Nat :=
  match s with
  | 45 :: r => (r, i + 1)
  | _ => (s, i)

theorem scanNumber_phases (s : Bytes) (i : Nat) :
    scanNumber s i =
      match intPhase (signPhase s i).1 (signPhase s i).2 with
      | .error e => .error e
      | .ok (s2, i2) =>
        match fracPhase s2 i2 with
        | .error e => .error e
        | .ok (s3, i3) => expPhase s3 i3 := by
  rfl

def expect (r : Except RefErr (Bytes × Nat)) : Option (Bytes × Nat) :=
  match r with
  | .ok (r1, j) => afterNumber r1 j
  | .error _ => none

theorem skipDigits_head : ∀ (s : Bytes) (i : Nat) (c : UInt8) (bs : Bytes), (skipDigits s i).1 = c :: bs → isDigit c = false
  | [], i, c, bs, h => by simp [skipDigits] at h
  | b :: r, i, c, bs, h => by
    unfold skipDigits at h
    split at h
    · exact skipDigits_head r (i + 1) c bs h
    · rename_i hb; simp at h; rw [← h.1]; simpa using hb

/-- a state that loops on digits: the scanner runs over them exactly like `skipDigits` -/
theorem NL_digits (q : Int) (hrow : ∀ c, isDigit c = true → nextSt q c = q) (h1 : Gen.sMI ≤ q) (h2 : q ≤ Gen.sE3) :
    ∀ (s : Bytes) (i : Nat), NL q s i = NL q (skipDigits s i).1 (skipDigits s i).2
  | [], i => by simp [skipDigits]
  | c :: bs, i => by
    unfold skipDigits
    by_cases hd : isDigit c = true
    · simp only [hd, if_true]
      rw [NL_cons, hrow c hd]
      have a : (q == -1) = false := by have : (Gen.sMI : Int) = 13 := rfl; simp; omega
      have b : (decide (q < Gen.sMI) || decide (q > Gen.sE3)) = false := by simp; omega
      simp only [a, b, Bool.false_eq_true, if_false]
      exact NL_digits q hrow h1 h2 bs (i + 1)
    · simp [hd]

/-- end of a number in a final state whose row treats every non-continuing byte like state OK does -/
theorem NL_end (q : Int) (hfinal : q = Gen.sZE ∨ q = Gen.sIN ∨ q = Gen.sFR ∨ q = Gen.sE3) (s : Bytes) (i : Nat)
    (hrow : ∀ c bs, s = c :: bs → nextSt q c = afterNum c) : NL q s i = afterNumber s i := by
  cases s with
  | nil =>
    rw [NL_nil]
    rcases hfinal with h | h | h | h <;> subst h <;> simp (decide := true) [afterNumber]
  | cons c bs =>
    rw [NL_cons, hrow c bs rfl]
    unfold afterNumber
    by_cases h : (afterNum c == -1) = true
    · simp [h]
    · simp only [h, if_false, Bool.false_eq_true, afterNum_stop c h, if_true]

theorem NL_E3 (s : Bytes) (i : Nat) : NL Gen.sE3 s i = afterNumber (skipDigits s i).1 (skipDigits s i).2 := by
  rw [NL_digits Gen.sE3 (fun c hc => by rw [next_E3]; simp [hc]) (by decide) (by decide)]
  apply NL_end _ (Or.inr (Or.inr (Or.inr rfl)))
  intro c bs h
  have := skipDigits_head s i c bs h
  rw [next_E3]; simp [this]

/-- the exponent part, entered from a state q whose row sends e/E to E1 and treats everything else like OK -/
theorem NL_exp (q : Int) (hfinal : q = Gen.sZE ∨ q = Gen.sIN ∨ q = Gen.sFR) (s3 : Bytes) (i3 : Nat)
    (hrow : ∀ c bs, s3 = c :: bs → nextSt q c = if c == 101 || c == 69 then Gen.sE1 else afterNum c) :
    NL q s3 i3 = expect (expPhase s3 i3) := by
  cases s3 with
  | nil =>
    simp only [expPhase, expect]
    exact NL_end q (by rcases hfinal with h | h | h <;> simp [h]) [] i3 (by intro c bs h; cases h)
  | cons c r =>
    by_cases he : (c == 101 || c == 69) = true
    · rw [NL_cons, hrow c r rfl]
      simp only [he, if_true, expPhase]
      simp only [show (Gen.sE1 == -1) = false by decide, show (decide (Gen.sE1 < Gen.sMI) || decide (Gen.sE1 > Gen.sE3)) = false by decide,
        Bool.false_eq_true, if_false]
      -- in E1
      have digitsFrom : ∀ (b : UInt8) (r' : Bytes) (j : Nat) (p : Int), (nextSt p b = if isDigit b then Gen.sE3 else -1) →
          NL p (b :: r') j = expect (if isDigit b then .ok (skipDigits r' (j + 1)) else .error (.at j)) := by
        intro b r' j p hp
        rw [NL_cons, hp]
        by_cases hd : isDigit b = true
        · simp only [hd, if_true, show (Gen.sE3 == -1) = false by decide,
            show (decide (Gen.sE3 < Gen.sMI) || decide (Gen.sE3 > Gen.sE3)) = false by decide, Bool.false_eq_true, if_false]
          rw [NL_E3]; rfl
        · simp [hd, expect]
      have signCase : ∀ (sg : UInt8) (t : Bytes), (sg == 43 || sg == 45) = true →
          NL Gen.sE1 (sg :: t) (i3 + 1) = expect (match t with
            | [] => .error .eof
            | b :: r' => if isDigit b then .ok (skipDigits r' (i3 + 2 + 1)) else .error (.at (i3 + 2))) := by
        intro sg t hsg
        rw [NL_cons, next_E1]
        simp only [hsg, if_true, show (Gen.sE2 == -1) = false by decide,
          show (decide (Gen.sE2 < Gen.sMI) || decide (Gen.sE2 > Gen.sE3)) = false by decide, Bool.false_eq_true, if_false]
        cases t with
        | nil => simp [NL_nil, expect]; decide
        | cons b r' => exact digitsFrom b r' (i3 + 2) Gen.sE2 (next_E2 b)
      cases r with
      | nil => simp [NL_nil, expect]; decide
      | cons b r' =>
        by_cases h43 : b = 43
        · subst h43; exact signCase 43 r' (by decide)
        by_cases h45 : b = 45
        · subst h45; exact signCase 45 r' (by decide)
        have hm : (match b :: r' with
            | 43 :: t => (t, i3 + 2)
            | 45 :: t => (t, i3 + 2)
            | _ => (b :: r', i3 + 1)) = (b :: r', i3 + 1) := by
          split
          · rename_i h; cases h; exact absurd rfl h43
          · rename_i h; cases h; exact absurd rfl h45
          · rfl
        simp only [hm]
        have hn : (b == 43 || b == 45) = false := by simp [h43, h45]
        have := digitsFrom b r' (i3 + 1) Gen.sE1 (by rw [next_E1]; simp only [hn, Bool.false_eq_true, if_false])
        exact this
    · rw [NL_cons, hrow c r rfl]
      simp only [he, Bool.false_eq_true, if_false, expPhase, expect, afterNumber]
      by_cases h : (afterNum c == -1) = true
      · simp [h]
      · simp only [h, if_false, Bool.false_eq_true, afterNum_stop c h, if_true]

def bindP (r : Except RefErr (Bytes × Nat)) (f : Bytes → Nat → Except RefErr (Bytes × Nat)) : Except RefErr (Bytes × Nat) :=
  match r with
  | .error e => .error e
  | .ok (s, i) => f s i

theorem NL_FR (s : Bytes) (i : Nat) : NL Gen.sFR s i = expect (expPhase (skipDigits s i).1 (skipDigits s i).2) := by
  rw [NL_digits Gen.sFR (fun c hc => by rw [next_FR]; simp [hc]) (by decide) (by decide)]
  apply NL_exp _ (Or.inr (Or.inr rfl))
  intro c bs h
  have := skipDigits_head s i c bs h
  rw [next_FR]; simp [this]

/-- the fraction part, entered from ZE or IN (for IN: after all digits) -/
theorem NL_frac (q : Int) (hq : q = Gen.sZE ∨ q = Gen.sIN) (s2 : Bytes) (i2 : Nat)
    (hrow : ∀ c bs, s2 = c :: bs → nextSt q c = if c == 46 then Gen.sDT else if c == 101 || c == 69 then Gen.sE1 else afterNum c) :
    NL q s2 i2 = expect (bindP (fracPhase s2 i2) expPhase) := by
  have hfin : q = Gen.sZE ∨ q = Gen.sIN ∨ q = Gen.sFR := by rcases hq with h | h <;> simp [h]
  cases s2 with
  | nil => simp only [fracPhase, bindP]; exact NL_exp q hfin [] i2 (by intro c bs h; cases h)
  | cons c r =>
    by_cases h46 : c = 46
    · subst h46
      rw [NL_cons, hrow 46 r rfl]
      simp only [show ((46 : UInt8) == 46) = true by decide, if_true, show (Gen.sDT == -1) = false by decide,
        show (decide (Gen.sDT < Gen.sMI) || decide (Gen.sDT > Gen.sE3)) = false by decide, Bool.false_eq_true, if_false, fracPhase]
      cases r with
      | nil => simp [NL_nil, bindP, expect]; decide
      | cons b r' =>
        simp only []
        rw [NL_cons, next_DT]
        by_cases hd : isDigit b = true
        · simp only [hd, if_true, show (Gen.sFR == -1) = false by decide,
            show (decide (Gen.sFR < Gen.sMI) || decide (Gen.sFR > Gen.sE3)) = false by decide, Bool.false_eq_true, if_false, bindP]
          rw [NL_FR]
        · simp [hd, bindP, expect]
    · have hf : fracPhase (c :: r) i2 = .ok (c :: r, i2) := by
        unfold fracPhase
        split
        · rename_i h; cases h; exact absurd rfl h46
        · rfl
      rw [hf]; simp only [bindP]
      apply NL_exp q hfin
      intro c' bs h; cases h
      rw [hrow c r rfl]; simp [h46]

def restPhases (s2 : Bytes) (i2 : Nat) : Except RefErr (Bytes × Nat) := bindP (fracPhase s2 i2) expPhase

theorem NL_IN (s : Bytes) (i : Nat) : NL Gen.sIN s i = expect (restPhases (skipDigits s i).1 (skipDigits s i).2) := by
  rw [NL_digits Gen.sIN (fun c hc => by rw [next_IN]; simp [hc]) (by decide) (by decide)]
  apply NL_frac _ (Or.inr rfl)
  intro c bs h
  have := skipDigits_head s i c bs h
  rw [next_IN]; simp [this]

theorem NL_ZE (s : Bytes) (i : Nat) : NL Gen.sZE s i = expect (restPhases s i) := by
  apply NL_frac _ (Or.inl rfl)
  intro c bs _
  rw [next_ZE]

/-- the integer part, entered from a state p whose row sends `0` to ZE, other digits to IN and rejects the rest -/
theorem NL_int (p : Int) (s1 : Bytes) (i1 : Nat) (hnil : s1 = [] → NL p [] i1 = none)
    (hrow : ∀ c bs, s1 = c :: bs → nextSt p c = if c == 48 then Gen.sZE else if isDigit c then Gen.sIN else -1) :
    NL p s1 i1 = expect (bindP (intPhase s1 i1) restPhases) := by
  cases s1 with
  | nil => rw [hnil rfl]; rfl
  | cons c r =>
    rw [NL_cons, hrow c r rfl]
    by_cases h48 : c = 48
    · subst h48
      simp only [show ((48 : UInt8) == 48) = true by decide, if_true, show (Gen.sZE == -1) = false by decide,
        show (decide (Gen.sZE < Gen.sMI) || decide (Gen.sZE > Gen.sE3)) = false by decide, Bool.false_eq_true, if_false, intPhase, bindP]
      exact NL_ZE r (i1 + 1)
    · have hi : intPhase (c :: r) i1 = if isDigit c then .ok (skipDigits r (i1 + 1)) else .error (.at i1) := by
        unfold intPhase
        split
        · rename_i h; cases h
        · rename_i h; cases h; exact absurd rfl h48
        · rename_i h; cases h; rfl
      rw [hi]
      have e48 : (c == 48) = false := by simpa using h48
      by_cases hd : isDigit c = true
      · simp only [e48, hd, if_true, Bool.false_eq_true, if_false, show (Gen.sIN == -1) = false by decide,
          show (decide (Gen.sIN < Gen.sMI) || decide (Gen.sIN > Gen.sE3)) = false by decide, bindP]
        exact NL_IN r (i1 + 1)
      · simp [e48, hd, bindP, expect]

/-- **the number scanner agrees with the grammar**: started in any state σ whose row treats the first byte (a minus sign or a
digit) as a value start, `numeric()` stops exactly where the longest RFC 8259 number ends — provided the next byte may follow
a value (whitespace, `,`, `]`, `}` or the end) — and fails otherwise, as it does when there is no number -/
theorem number_scanner_equiv (σ : Int) (c : UInt8) (bs : Bytes) (i : Nat) (hc : c == 45 || isDigit c)
    (hσ : nextSt σ c = valueStart c) :
    NL σ (c :: bs) i = expect (scanNumber (c :: bs) i) := by
  rw [scanNumber_phases]
  by_cases h45 : c = 45
  · subst h45
    rw [NL_cons, hσ]
    simp only [show valueStart 45 = Gen.sMI by decide, show (Gen.sMI == -1) = false by decide,
      show (decide (Gen.sMI < Gen.sMI) || decide (Gen.sMI > Gen.sE3)) = false by decide, Bool.false_eq_true, if_false]
    have := NL_int Gen.sMI bs (i + 1) (fun _ => by rw [NL_nil]; simp (decide := true)) (fun c' bs' _ => next_MI c')
    rw [this]
    rfl
  · have hd : isDigit c = true := by
      have : (c == 45) = false := by simpa using h45
      simpa [this] using hc
    have hm : signPhase (c :: bs) i = (c :: bs, i) := by
      unfold signPhase
      split
      · rename_i h; cases h; exact absurd rfl h45
      · rfl
    rw [hm]
    have := NL_int σ (c :: bs) i (fun h => by cases h) (fun c' bs' h => by
      cases h
      rw [hσ]
      unfold valueStart
      have d := hd
      unfold isDigit at d
      simp only [Bool.and_eq_true, decide_eq_true_eq] at d
      have n1 : (c == 123) = false := by apply beq_false_of_ne; intro h; subst h; simp at d
      have n2 : (c == 91) = false := by apply beq_false_of_ne; intro h; subst h; simp at d
      have n3 : (c == 34) = false := by apply beq_false_of_ne; intro h; subst h; simp at d
      have n4 : (c == 45) = false := by simpa using h45
      simp only [n1, n2, n3, n4, Bool.false_eq_true, if_false, hd, if_true])
    rw [this]
    rfl


/-! ### the reference number scanner only moves forward -/

theorem skipDigits_idx : ∀ (s : Bytes) (i : Nat), i ≤ (skipDigits s i).2
  | [], i => by simp [skipDigits]
  | b :: bs, i => by
    unfold skipDigits
    split
    · have := skipDigits_idx bs (i + 1); omega
    · simp

theorem skipDigits_idx' (s : Bytes) (i : Nat) (r : Bytes) (j : Nat) (h : skipDigits s i = (r, j)) : i ≤ j := by
  have := skipDigits_idx s i; rw [h] at this; exact this

theorem expPhase_idx (s : Bytes) (i : Nat) (r : Bytes) (j : Nat) (h : expPhase s i = .ok (r, j)) : i ≤ j := by
  unfold expPhase at h
  repeat' split at h
  all_goals first
    | (cases h; done)
    | (cases h; simp; done)
    | skip
  rename_i heq _
  have hl : ∀ {b : UInt8} {r' rr : Bytes} {jj : Nat}, (match rr with
      | 43 :: t => (t, i + 2)
      | 45 :: t => (t, i + 2)
      | _ => (rr, i + 1)) = (b :: r', jj) → i + 1 ≤ jj := by
    intro b r' rr jj heq
    split at heq <;> (simp only [Prod.mk.injEq] at heq; obtain ⟨_, e⟩ := heq; omega)
  have h1 := hl heq
  simp only [Except.ok.injEq] at h
  have h2 := skipDigits_idx' _ _ _ _ h
  omega

theorem fracPhase_idx (s : Bytes) (i : Nat) (r : Bytes) (j : Nat) (h : fracPhase s i = .ok (r, j)) : i ≤ j := by
  unfold fracPhase at h
  repeat' split at h
  all_goals first
    | (cases h; done)
    | (cases h; simp; done)
    | skip
  simp only [Except.ok.injEq] at h
  have h2 := skipDigits_idx' _ _ _ _ h
  omega

theorem intPhase_idx (s : Bytes) (i : Nat) (r : Bytes) (j : Nat) (h : intPhase s i = .ok (r, j)) : i < j := by
  unfold intPhase at h
  repeat' split at h
  all_goals first
    | (cases h; done)
    | (cases h; simp; done)
    | skip
  simp only [Except.ok.injEq] at h
  have h2 := skipDigits_idx' _ _ _ _ h
  omega

theorem signPhase_idx (s : Bytes) (i : Nat) : i ≤ (signPhase s i).2 := by
  unfold signPhase
  split <;> simp

theorem scanNumber_idx (s : Bytes) (i : Nat) (r : Bytes) (j : Nat) (h : scanNumber s i = .ok (r, j)) : i < j := by
  rw [scanNumber_phases] at h
  have h0 := signPhase_idx s i
  cases h1 : intPhase (signPhase s i).1 (signPhase s i).2 with
  | error e => rw [h1] at h; cases h
  | ok x =>
    obtain ⟨s2, i2⟩ := x
    rw [h1] at h
    simp only [] at h
    have l1 := intPhase_idx _ _ _ _ h1
    cases h2 : fracPhase s2 i2 with
    | error e => rw [h2] at h; cases h
    | ok y =>
      obtain ⟨s3, i3⟩ := y
      rw [h2] at h
      simp only [] at h
      have l2 := fracPhase_idx _ _ _ _ h2
      have l3 := expPhase_idx _ _ _ _ h
      omega

end Ajson.Proofs
