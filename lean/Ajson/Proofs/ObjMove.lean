/-
AppendObject in general: the key may exist (the member it names is replaced — detached — in the same call) and the value may be
attached anywhere (it is moved). The replacing call runs `remove` on an intermediate heap that does not satisfy the invariant (the
value already names its new parent, which does not list it yet); the proof shows that this `remove` commutes with the two pending
updates, so that the call is `remove` of the old member followed by the append of a new key, both of which are proved.
-/
import Ajson.Proofs.WFMove
namespace Ajson.Proofs
open Ajson Ajson.Heap

theorem heap_ext {h h' : Heap} (hsz : h.size = h'.size) (hd : h.datas = h'.datas) (hg : ∀ m : Nat, m < h.size → h.get m = h'.get m) :
    h = h' := by
  cases h with
  | mk n d =>
  cases h' with
  | mk n' d' =>
  simp only [Heap.size] at hsz
  simp only at hd
  have : n = n' := by
    apply List.ext_getElem hsz
    intro i h1 h2
    have := hg i h1
    simp only [Heap.get, List.getD_eq_getElem?_getD, List.getElem?_eq_getElem h1, List.getElem?_eq_getElem h2, Option.getD_some] at this
    exact this
  subst this; subst hd; rfl

theorem modify_comm (h : Heap) (a b : Id) (f g : NodeRec → NodeRec) (hab : a ≠ b) :
    (h.modify a f).modify b g = (h.modify b g).modify a f := by
  apply heap_ext (by simp) (by simp)
  intro m _
  simp only [get_modify, size_modify]
  by_cases hma : m = a
  · subst hma
    have : ¬ m = b := hab
    simp [this]
  · by_cases hmb : m = b
    · subst hmb; simp [hma]
    · simp [hma, hmb]

theorem modify_modify (h : Heap) (a : Id) (f g : NodeRec → NodeRec) :
    (h.modify a f).modify a g = h.modify a (fun r => g (f r)) := by
  apply heap_ext (by simp) (by simp)
  intro m _
  simp only [get_modify, size_modify]
  by_cases hma : m = a
  · subst hma; by_cases hlt : m < h.size <;> simp [hlt]
  · simp [hma]

theorem set_dirty_eq_modify (h : Heap) (c : Id) :
    h.set c { h.get c with dirty := true } = h.modify c (fun r => { r with dirty := true }) := by
  rw [modify_eq]
  split
  · rfl
  · rename_i hlt
    apply heap_ext (by simp) (by simp)
    intro m _
    rw [get_set]; simp [hlt]

theorem markAux_succ_some (fuel : Nat) (h : Heap) (c : Id) :
    markAux (fuel + 1) h (some c) =
      if (h.get c).dirty then h else markAux fuel (h.modify c (fun r => { r with dirty := true })) (h.get c).parent := by
  simp only [markAux]
  rw [set_dirty_eq_modify]

/-- an update that keeps the dirty flag and the parent pointer and commutes with setting the dirty flag -/
structure MarkSafe (g : NodeRec → NodeRec) : Prop where
  dirty : ∀ r, (g r).dirty = r.dirty
  parent : ∀ r, (g r).parent = r.parent
  comm : ∀ r, g { r with dirty := true } = { g r with dirty := true }

theorem markAux_comm_safe {g : NodeRec → NodeRec} (ms : MarkSafe g) (b : Id) : ∀ (fuel : Nat) (h : Heap) (o : Option Id),
    markAux fuel (h.modify b g) o = (markAux fuel h o).modify b g
  | 0, h, o => by simp [markAux]
  | fuel+1, h, none => by simp [markAux]
  | fuel+1, h, some c => by
    rw [markAux_succ_some, markAux_succ_some]
    have hd : ((h.modify b g).get c).dirty = (h.get c).dirty := by
      rw [get_modify]; split
      · rename_i hc; rw [hc.1]; exact ms.dirty _
      · rfl
    have hp : ((h.modify b g).get c).parent = (h.get c).parent := by
      rw [get_modify]; split
      · rename_i hc; rw [hc.1]; exact ms.parent _
      · rfl
    rw [hd, hp]
    by_cases hdc : (h.get c).dirty = true
    · simp [hdc]
    · simp only [hdc, Bool.false_eq_true, if_false]
      have : (h.modify b g).modify c (fun r => { r with dirty := true }) = (h.modify c (fun r => { r with dirty := true })).modify b g := by
        by_cases hcb : c = b
        · subst hcb
          rw [modify_modify, modify_modify]
          congr 1
          funext r
          exact (ms.comm r).symm
        · exact modify_comm h b c _ _ (Ne.symm hcb)
      rw [this]
      exact markAux_comm_safe ms b fuel _ _

theorem up_modify_dirty (h : Heap) (c : Id) (n : Id) (k : Nat) :
    up (h.modify c (fun r => { r with dirty := true })) n k = up h n k := by
  induction k with
  | zero => rfl
  | succ k ih =>
    simp only [up, ih]
    cases up h n k with
    | none => rfl
    | some m =>
      simp only []
      rw [get_modify]; split
      · rename_i hc; rw [hc.1]
      · rfl

/-- an update of a node that is neither the marked node nor one of its ancestors -/
theorem markAux_comm_off (b : Id) (g : NodeRec → NodeRec) : ∀ (fuel : Nat) (h : Heap) (o : Option Id),
    (∀ c, o = some c → ¬ Anc h b c) → markAux fuel (h.modify b g) o = (markAux fuel h o).modify b g
  | 0, h, o, _ => by simp [markAux]
  | fuel+1, h, none, _ => by simp [markAux]
  | fuel+1, h, some c, hoff => by
    rw [markAux_succ_some, markAux_succ_some]
    have hcb : c ≠ b := by intro e; subst e; exact hoff c rfl (Anc.refl' h c)
    rw [get_modify_other _ _ _ _ hcb]
    by_cases hdc : (h.get c).dirty = true
    · simp [hdc]
    · simp only [hdc, Bool.false_eq_true, if_false]
      rw [modify_comm h b c _ _ (Ne.symm hcb)]
      apply markAux_comm_off b g fuel
      intro p hp ⟨k, hk⟩
      rw [up_modify_dirty] at hk
      apply hoff c rfl
      exact ⟨k + 1, by rw [up_succ_of_parent hp]; exact hk⟩

theorem mark_comm_safe {g : NodeRec → NodeRec} (ms : MarkSafe g) (h : Heap) (b n : Id) : (h.modify b g).mark n = (h.mark n).modify b g := by
  unfold Heap.mark; rw [size_modify]; exact markAux_comm_safe ms b _ _ _

theorem mark_comm_off (h : Heap) (b n : Id) (g : NodeRec → NodeRec) (hoff : ¬ Anc h b n) : (h.modify b g).mark n = (h.mark n).modify b g := by
  unfold Heap.mark; rw [size_modify]; exact markAux_comm_off b g _ _ _ (fun c hc => by cases hc; exact hoff)

/-! ### `remove` of a member of an object commutes with the pending updates of `appendNode` -/

theorem stable_key : Stable (fun r : NodeRec => r.key) := ⟨fun _ _ => rfl, fun _ _ => rfl, fun _ _ => rfl, fun _ _ => rfl, fun _ _ => rfl⟩

/-- `remove` of a member of an object, as an equation (no invariant needed) -/
theorem remove_object_eq (h : Heap) (n value : Id) (k : Bytes) (hobj : (h.get n).type = .object)
    (hp : (h.get value).parent = some n) (hk : (h.get value).key = some k) :
    h.remove n value = (detachObj ((h.mark n).modify n (fun r => { r with cache := none })) n value k, .ok ()) := by
  have hic : h.isContainer n = true := by simp [isContainer, typeOf, hobj, NType.isContainer]
  have hpe : ((h.get value).parent != some n) = false := by simp [hp]
  have ty : (((h.mark n).modify n (fun r => { r with cache := none })).get n).type = .object := by
    have e1 := modify_proj (fun r => r.type) (h.mark n) n n (fun r => { r with cache := none }) (fun _ => rfl)
    have e2 := mark_proj stable_type h n n
    rw [e1, e2]; exact hobj
  have hia : ((h.mark n).modify n (fun r => { r with cache := none })).isArray n = false := by simp [isArray, typeOf, ty]
  have key : (((h.mark n).modify n (fun r => { r with cache := none })).get value).key = some k := by
    have e1 := modify_proj (fun r => r.key) (h.mark n) n value (fun r => { r with cache := none }) (fun _ => rfl)
    have e2 := mark_proj stable_key h n value
    rw [e1, e2]; exact hk
  unfold Heap.remove
  simp only [hic, Bool.not_true, Bool.false_eq_true, if_false, hpe, hia, key]
  rfl

theorem markSafe_cacheNone : MarkSafe (fun r : NodeRec => { r with cache := none }) := ⟨fun _ => rfl, fun _ => rfl, fun _ => rfl⟩

/-- the `remove` that `appendNode` runs on its intermediate heap is the `remove` on the original heap, with the two pending updates
(the value's new parent and key, the receiver's cache reset) applied afterwards -/
theorem remove_object_comm (h : Heap) (n old value : Id) (k : Bytes) (f : NodeRec → NodeRec) (hobj : (h.get n).type = .object)
    (hpo : (h.get old).parent = some n) (hko : (h.get old).key = some k) (hon : old ≠ n) (hvo : value ≠ old) (hvn : value ≠ n)
    (hoff : ¬ Anc h value n) :
    ((h.modify value f).modify n (fun r => { r with cache := none })).remove n old =
      ((((h.remove n old).1).modify value f).modify n (fun r => { r with cache := none }), .ok ()) := by
  have g : ∀ m : Id, m ≠ value → m ≠ n → ((h.modify value f).modify n (fun r => { r with cache := none })).get m = h.get m := by
    intro m h1 h2; rw [get_modify_other _ _ _ _ h2, get_modify_other _ _ _ _ h1]
  have hty : (((h.modify value f).modify n (fun r => { r with cache := none })).get n).type = .object := by
    have e1 := modify_proj (fun r => r.type) (h.modify value f) n n (fun r => { r with cache := none }) (fun _ => rfl)
    rw [e1, get_modify_other _ _ _ _ (Ne.symm hvn)]; exact hobj
  rw [remove_object_eq _ n old k hty (by rw [g old (Ne.symm hvo) hon]; exact hpo) (by rw [g old (Ne.symm hvo) hon]; exact hko),
    remove_object_eq h n old k hobj hpo hko]
  simp only []
  congr 1
  rw [mark_comm_safe markSafe_cacheNone, mark_comm_off h value n f hoff]
  unfold detachObj
  apply heap_ext (by simp) (by simp)
  intro m _
  simp only [get_modify, size_modify]
  by_cases hmn : m = n
  · subst hmn
    have h1 : ¬ m = old := fun e => hon e.symm
    have h2 : ¬ m = value := fun e => hvn e.symm
    by_cases hlt : m < h.size <;> simp [h1, h2, hlt, size_mark]
  · by_cases hmo : m = old
    · subst hmo
      have h2 : ¬ m = value := fun e => hvo e.symm
      simp [hmn, h2]
    · by_cases hmv : m = value
      · subst hmv; simp [hmn, hmo]
      · simp [hmn, hmo, hmv]

/-! ### appendNode(key, value) on an object -/

theorem erase_getD (c : Option ChildMap) (k : Bytes) : (c.map (·.erase k)).getD [] = (c.getD []).erase k := by
  cases c with
  | none => rfl
  | some m => rfl

/-- the receiver's children after `remove` of a member of an object -/
theorem childMap_remove_object (h : Heap) (n old : Id) (k : Bytes) (hn : n < h.size) (hobj : (h.get n).type = .object)
    (hpo : (h.get old).parent = some n) (hko : (h.get old).key = some k) (hon : old ≠ n) :
    ((h.remove n old).1).childMap n = (h.childMap n).erase k := by
  rw [remove_object_eq h n old k hobj hpo hko]
  simp only []
  unfold detachObj childMap
  rw [get_modify_other _ _ _ _ (Ne.symm hon), get_modify]
  simp only [size_modify, size_mark, hn, and_self, if_true]
  rw [get_modify]
  simp only [size_mark, hn, and_self, if_true]
  have : ((h.mark n).get n).children = (h.get n).children := by
    rcases mark_get h n n with e | e <;> rw [e]
  rw [erase_getD, this]

/-- a detached node appended under a key the object does not have -/
theorem appendNode_object_fresh {h : Heap} (hs : Struct h) (ha : Acyc h) (n value : Nat) (hn : n < h.size) (hv : value < h.size)
    (hobj : (h.get n).type = .object) (hloop : h.isParentOrSelfNode n value = false) (hroot : (h.get value).parent = none)
    (k : Bytes) (hfresh : (h.childMap n).lookup k = none) :
    (h.appendNode n (some k) value).2 = .ok () ∧ StructBut (h.appendNode n (some k) value).1 n ∧ Acyc (h.appendNode n (some k) value).1 ∧
    (h.appendNode n (some k) value).1.size = h.size ∧ (∀ m : Id, ((h.appendNode n (some k) value).1.get m).type = (h.get m).type) := by
  have hno : ¬ Anc h value n := by
    intro hc
    have := (loop_guard_exact hs.pir ha n hn value).mpr hc
    rw [hloop] at this; cases this
  have hvn : value ≠ n := by intro e; subst e; exact hno (Anc.refl' h _)
  obtain ⟨m, hm⟩ := Option.isSome_iff_exists.mp (by have := (hs n hn).shape; rw [hobj] at this; simpa [NType.isContainer] using this)
  have e : h.appendNode n (some k) value = (attachObj h n value k, .ok ()) := by
    unfold Heap.appendNode
    simp only [hloop, Bool.false_eq_true, if_false, hroot]
    have hcm3 : ((h.modify value (fun r => { r with parent := some n, key := some k })).modify n (fun r => { r with cache := none })).childMap n
        = h.childMap n := by
      unfold childMap
      rw [get_modify]; simp only [size_modify, hn, and_self, if_true]
      rw [get_modify_other _ _ _ _ (Ne.symm hvn)]
    have hch3 : (((h.modify value (fun r => { r with parent := some n, key := some k })).modify n (fun r => { r with cache := none })).get n).children
        = some m := by
      rw [get_modify]; simp only [size_modify, hn, and_self, if_true]
      rw [get_modify_other _ _ _ _ (Ne.symm hvn)]; exact hm
    simp only [hcm3, hfresh, hch3]
    unfold attachObj
    congr 1
    apply modify_congr
    simp only [hch3, Option.getD_some]
  rw [e]
  refine ⟨rfl, struct_attachObj hs n value hn hv hvn hroot hobj k hfresh, ?_, by simp [attachObj], ?_⟩
  · apply acyc_add_edge ha value n hno
    · intro x hx
      unfold attachObj
      refine (modify_parent_same _ _ _ _ ?_).trans ?_
      · exact fun _ => rfl
      refine (modify_parent_same _ _ _ _ ?_).trans ?_
      · exact fun _ => rfl
      rw [get_modify_other _ _ _ _ hx]
    · unfold attachObj
      refine (modify_parent_same _ _ _ _ ?_).trans ?_
      · exact fun _ => rfl
      refine (modify_parent_same _ _ _ _ ?_).trans ?_
      · exact fun _ => rfl
      rw [get_modify]; simp [hv]
  · intro x
    unfold attachObj
    refine (modify_proj (fun r => r.type) _ _ _ _ ?_).trans ?_
    · exact fun _ => rfl
    refine (modify_proj (fun r => r.type) _ _ _ _ ?_).trans ?_
    · exact fun _ => rfl
    refine (modify_proj (fun r => r.type) _ _ _ _ ?_).trans ?_
    · exact fun _ => rfl
    rfl

/-- a detached node appended under a key the object HAS: the call is `remove` of the member under that key followed by the append
under a key that is new by then -/
theorem appendNode_object_replace {h : Heap} (hs : Struct h) (ha : Acyc h) (n value old : Nat) (hn : n < h.size) (hv : value < h.size)
    (hobj : (h.get n).type = .object) (hloop : h.isParentOrSelfNode n value = false) (hroot : (h.get value).parent = none)
    (k : Bytes) (hold : (h.childMap n).lookup k = some old) :
    h.appendNode n (some k) value = (h.remove n old).1.appendNode n (some k) value ∧
    Struct (h.remove n old).1 ∧ Acyc (h.remove n old).1 ∧ (h.remove n old).1.size = h.size ∧
    (∀ m : Id, ((h.remove n old).1.get m).type = (h.get m).type) ∧ ((h.remove n old).1.get value).parent = none ∧
    (h.remove n old).1.isParentOrSelfNode n value = false ∧ ((h.remove n old).1.childMap n).lookup k = none := by
  have okn := hs n hn
  obtain ⟨ho, hon, hpo, hpos⟩ := okn.kids (k, old) (mem_of_lookup hold)
  have hko : (h.get old).key = some k := by
    unfold PosOK at hpos
    rw [hobj] at hpos
    simpa using hpos
  have hvo : value ≠ old := by intro e; rw [e, hpo] at hroot; cases hroot
  have hno : ¬ Anc h value n := by
    intro hc
    have := (loop_guard_exact hs.pir ha n hn value).mpr hc
    rw [hloop] at this; cases this
  have hvn : value ≠ n := by intro e; subst e; exact hno (Anc.refl' h _)
  obtain ⟨r1, r2⟩ := struct_remove hs n old ho hpo
  have ha1 := acyc_remove ha n old
  have hsz := (remove_proj stable_type h n old 0).2
  have hroot1 : ((h.remove n old).1.get value).parent = none := by
    cases hq : ((h.remove n old).1.get value).parent with
    | none => rfl
    | some q => have := remove_parent_sub h n old value q hq; rw [hroot] at this; cases this
  have hno1 : ¬ Anc (h.remove n old).1 value n := by
    rintro ⟨j, hj⟩
    exact hno ⟨j, up_of_parent_sub (remove_parent_sub h n old) n j value hj⟩
  have hloop1 : (h.remove n old).1.isParentOrSelfNode n value = false := by
    cases hl : (h.remove n old).1.isParentOrSelfNode n value with
    | false => rfl
    | true => exact absurd ((loop_guard_exact r1.pir ha1 n (by rw [hsz]; exact hn) value).mp hl) hno1
  have hcmA := childMap_remove_object h n old k hn hobj hpo hko hon
  have hfresh1 : ((h.remove n old).1.childMap n).lookup k = none := by rw [hcmA, lookup_erase]; simp
  have htyA : ∀ m : Id, ((h.remove n old).1.get m).type = (h.get m).type := fun m => (remove_proj stable_type h n old m).1
  refine ⟨?_, r1, ha1, hsz, htyA, hroot1, hloop1, hfresh1⟩
  -- the receiver's children in the heap after `remove`
  obtain ⟨mA, hmA⟩ := Option.isSome_iff_exists.mp (by
    have := (r1 n (by rw [hsz]; exact hn)).shape; rw [htyA n, hobj] at this; simpa [NType.isContainer] using this)
  have hnA : n < (h.remove n old).1.size := by rw [hsz]; exact hn
  have hch4 : (((((h.remove n old).1).modify value (fun r => { r with parent := some n, key := some k })).modify n
      (fun r => { r with cache := none })).get n).children = some mA := by
    rw [get_modify]; simp only [size_modify, hnA, and_self, if_true]
    rw [get_modify_other _ _ _ _ (Ne.symm hvn)]; exact hmA
  have hcm4 : ((((h.remove n old).1).modify value (fun r => { r with parent := some n, key := some k })).modify n
      (fun r => { r with cache := none })).childMap n = (h.remove n old).1.childMap n := by
    unfold childMap
    rw [get_modify]; simp only [size_modify, hnA, and_self, if_true]
    rw [get_modify_other _ _ _ _ (Ne.symm hvn)]
  have hcm3 : ((h.modify value (fun r => { r with parent := some n, key := some k })).modify n (fun r => { r with cache := none })).childMap n
      = h.childMap n := by
    unfold childMap
    rw [get_modify]; simp only [size_modify, hn, and_self, if_true]
    rw [get_modify_other _ _ _ _ (Ne.symm hvn)]
  have hov : (old != value) = true := by
    have : ¬ old = value := fun e => hvo e.symm
    simp [this]
  have hcomm := remove_object_comm h n old value k (fun r => { r with parent := some n, key := some k }) hobj hpo hko hon hvo hvn hno
  have lhs : h.appendNode n (some k) value =
      (((((h.remove n old).1).modify value (fun r => { r with parent := some n, key := some k })).modify n (fun r => { r with cache := none })).modify n
        (fun r => { r with children := some (mA.insert k value) }), .ok ()) := by
    unfold Heap.appendNode
    simp only [hloop, Bool.false_eq_true, if_false, hroot, hcm3, hold, hov, if_true, hcomm, hch4]
  have rhs : (h.remove n old).1.appendNode n (some k) value =
      (((((h.remove n old).1).modify value (fun r => { r with parent := some n, key := some k })).modify n (fun r => { r with cache := none })).modify n
        (fun r => { r with children := some (mA.insert k value) }), .ok ()) := by
    unfold Heap.appendNode
    simp only [hloop1, Bool.false_eq_true, if_false, hroot1, hcm4, hfresh1, hch4]
  rw [lhs, rhs]

/-- appendNode(key, value) on an object for a detached value, whether the key is new or names a member (which is replaced) -/
theorem appendNode_object_detached {h : Heap} (hs : Struct h) (ha : Acyc h) (n value : Nat) (hn : n < h.size) (hv : value < h.size)
    (hobj : (h.get n).type = .object) (hloop : h.isParentOrSelfNode n value = false) (hroot : (h.get value).parent = none) (k : Bytes) :
    (h.appendNode n (some k) value).2 = .ok () ∧ StructBut (h.appendNode n (some k) value).1 n ∧ Acyc (h.appendNode n (some k) value).1 ∧
    (h.appendNode n (some k) value).1.size = h.size ∧ (∀ m : Id, ((h.appendNode n (some k) value).1.get m).type = (h.get m).type) := by
  cases hl : (h.childMap n).lookup k with
  | none => exact appendNode_object_fresh hs ha n value hn hv hobj hloop hroot k hl
  | some old =>
    obtain ⟨e, r1, ha1, hsz, hty, hroot1, hloop1, hfresh1⟩ := appendNode_object_replace hs ha n value old hn hv hobj hloop hroot k hl
    rw [e]
    obtain ⟨a, b, c, d, f⟩ := appendNode_object_fresh r1 ha1 n value (by rw [hsz]; exact hn) (by rw [hsz]; exact hv)
      (by rw [hty]; exact hobj) hloop1 hroot1 k hfresh1
    exact ⟨a, b, c, by rw [d, hsz], fun m => by rw [f, hty]⟩

/-- … and for any value: attached anywhere — also to the receiver itself, under this or another key — it is moved -/
theorem appendNode_object_step {h : Heap} (hs : Struct h) (ha : Acyc h) (n value : Nat) (hn : n < h.size) (hv : value < h.size)
    (hobj : (h.get n).type = .object) (hloop : h.isParentOrSelfNode n value = false) (k : Bytes) :
    (h.appendNode n (some k) value).2 = .ok () ∧ StructBut (h.appendNode n (some k) value).1 n ∧ Acyc (h.appendNode n (some k) value).1 ∧
    (h.appendNode n (some k) value).1.size = h.size ∧ (∀ m : Id, ((h.appendNode n (some k) value).1.get m).type = (h.get m).type) := by
  cases hp : (h.get value).parent with
  | none => exact appendNode_object_detached hs ha n value hn hv hobj hloop hp k
  | some p =>
    obtain ⟨e, r1, ha1, hsz, hty, hroot1, hloop1⟩ := appendNode_of_attached hs ha n value p hn hv hp (some k) hloop
    rw [e]
    obtain ⟨a, b, c, d, f⟩ := appendNode_object_detached r1 ha1 n value (by rw [hsz]; exact hn) (by rw [hsz]; exact hv)
      (by rw [hty]; exact hobj) hloop1 hroot1 k
    exact ⟨a, b, c, by rw [d, hsz], fun m => by rw [f, hty]⟩

/-- **AppendObject of any node under any key** — new key or existing key (the member it names is replaced), value detached or
attached anywhere (then it is moved) — keeps the invariant and acyclicity, whenever the loop guard lets it pass -/
theorem struct_appendObject_any {h : Heap} (hs : Struct h) (ha : Acyc h) (n value : Nat) (hn : n < h.size) (hv : value < h.size)
    (hobj : (h.get n).type = .object) (hloop : h.isParentOrSelfNode n value = false) (k : Bytes) :
    (h.appendObject n k value).2 = .ok () ∧ Struct (h.appendObject n k value).1 ∧ Acyc (h.appendObject n k value).1 ∧
    (h.appendObject n k value).1.size = h.size := by
  obtain ⟨r1, r2, r3, r4, _⟩ := appendNode_object_step hs ha n value hn hv hobj hloop k
  have hio : h.isObject n = true := by simp [isObject, typeOf, hobj]
  unfold Heap.appendObject
  simp only [hio, Bool.not_true, Bool.false_eq_true, if_false]
  generalize h.appendNode n (some k) value = res at r1 r2 r3 r4
  obtain ⟨h1, o⟩ := res
  simp only [] at r1; subst r1
  simp only []
  exact ⟨trivial, r2.mark (by rw [r4]; exact hn), acyc_mark r3 n, by rw [size_mark]; exact r4⟩

/-- AppendObject: sound and acyclic afterwards, whether the request is accepted or rejected (wrong receiver type, loop) -/
theorem appendObject_sound {h : Heap} (hs : Struct h) (ha : Acyc h) (n v : Nat) (hn : n < h.size) (hv : v < h.size) (k : Bytes) :
    Struct (h.appendObject n k v).1 ∧ Acyc (h.appendObject n k v).1 ∧ (h.appendObject n k v).1.size = h.size := by
  by_cases hobj : h.isObject n = true
  · by_cases hloop : h.isParentOrSelfNode n v = true
    · have e : h.appendObject n k v = (h, .err (errT .wrongRequest)) := by
        unfold Heap.appendObject Heap.appendNode; simp [hobj, hloop]
      rw [e]; exact ⟨hs, ha, rfl⟩
    · have hl : h.isParentOrSelfNode n v = false := by cases hx : h.isParentOrSelfNode n v <;> simp_all
      have ht : (h.get n).type = .object := by
        unfold Heap.isObject Heap.typeOf at hobj; simpa using hobj
      obtain ⟨_, r2, r3, r4⟩ := struct_appendObject_any hs ha n v hn hv ht hl k
      exact ⟨r2, r3, r4⟩
  · have e : h.appendObject n k v = (h, .err (errT .wrongType)) := by
      unfold Heap.appendObject; simp [hobj]
    rw [e]; exact ⟨hs, ha, rfl⟩

end Ajson.Proofs
