/-
Every successful call of the reference parser consumes input: what remains is strictly shorter (needed to show that its fuel
is never what makes it fail).
-/
import Ajson.Proofs.DecodeComplete
namespace Ajson.Proofs
open Ajson Ajson.Heap Ajson.Spec

theorem skipDigits_len : ∀ (s : Bytes) (i : Nat), (skipDigits s i).1.length ≤ s.length
  | [], i => by simp [skipDigits]
  | b :: bs, i => by
    unfold skipDigits
    split
    · have := skipDigits_len bs (i + 1); simp only [List.length_cons]; omega
    · simp

theorem skipDigits_len' (s : Bytes) (i : Nat) (r : Bytes) (j : Nat) (h : skipDigits s i = (r, j)) : r.length ≤ s.length := by
  have := skipDigits_len s i; rw [h] at this; exact this

theorem expPhase_len (s : Bytes) (i : Nat) (r : Bytes) (j : Nat) (h : expPhase s i = .ok (r, j)) : r.length ≤ s.length := by
  unfold expPhase at h
  repeat' split at h
  all_goals first
    | (cases h; done)
    | (cases h; simp; done)
    | skip
  rename_i heq _
  have hl : ∀ {b : UInt8} {r' rr : Bytes} {jj : Nat}, (match rr with
      | 43 :: t => (t, i + 2)
      | 45 :: t => (t, i + 2)
      | _ => (rr, i + 1)) = (b :: r', jj) → (b :: r').length ≤ rr.length := by
    intro b r' rr jj heq
    split at heq <;> (simp only [Prod.mk.injEq] at heq; obtain ⟨e, _⟩ := heq; subst e; simp)
  have h1 := hl heq
  simp only [Except.ok.injEq] at h
  have h2 := skipDigits_len' _ _ _ _ h
  simp only [List.length_cons] at h1 ⊢
  omega

theorem fracPhase_len (s : Bytes) (i : Nat) (r : Bytes) (j : Nat) (h : fracPhase s i = .ok (r, j)) : r.length ≤ s.length := by
  unfold fracPhase at h
  repeat' split at h
  all_goals first
    | (cases h; done)
    | (cases h; simp; done)
    | skip
  simp only [Except.ok.injEq] at h
  have h2 := skipDigits_len' _ _ _ _ h
  simp only [List.length_cons]
  omega

theorem intPhase_len (s : Bytes) (i : Nat) (r : Bytes) (j : Nat) (h : intPhase s i = .ok (r, j)) : r.length < s.length := by
  unfold intPhase at h
  repeat' split at h
  all_goals first
    | (cases h; done)
    | (cases h; simp; done)
    | skip
  simp only [Except.ok.injEq] at h
  have h2 := skipDigits_len' _ _ _ _ h
  simp only [List.length_cons]
  omega

theorem signPhase_len (s : Bytes) (i : Nat) : (signPhase s i).1.length ≤ s.length := by
  unfold signPhase
  split <;> simp

theorem scanNumber_len (s : Bytes) (i : Nat) (r : Bytes) (j : Nat) (h : scanNumber s i = .ok (r, j)) : r.length < s.length := by
  rw [scanNumber_phases] at h
  have h0 := signPhase_len s i
  cases h1 : intPhase (signPhase s i).1 (signPhase s i).2 with
  | error e => rw [h1] at h; cases h
  | ok x =>
    obtain ⟨s2, i2⟩ := x
    rw [h1] at h
    simp only [] at h
    have l1 := intPhase_len _ _ _ _ h1
    cases h2 : fracPhase s2 i2 with
    | error e => rw [h2] at h; cases h
    | ok y =>
      obtain ⟨s3, i3⟩ := y
      rw [h2] at h
      simp only [] at h
      have l2 := fracPhase_len _ _ _ _ h2
      have l3 := expPhase_len _ _ _ _ h
      omega

theorem expectWord_len : ∀ (w s : Bytes) (i : Nat) (r : Bytes) (j : Nat), w ≠ [] → expectWord w s i = .ok (r, j) → r.length < s.length
  | [], _, _, _, _, h, _ => absurd rfl h
  | [w], [], i, r, j, _, h => by simp [expectWord] at h
  | [w], b :: bs, i, r, j, _, h => by
    simp only [expectWord] at h
    split at h
    · simp only [expectWord, Except.ok.injEq, Prod.mk.injEq] at h; rw [← h.1]; simp
    · cases h
  | w :: w2 :: ws, [], i, r, j, _, h => by simp [expectWord] at h
  | w :: w2 :: ws, b :: bs, i, r, j, _, h => by
    simp only [expectWord] at h
    split at h
    · have := expectWord_len (w2 :: ws) bs (i + 1) r j (by simp) h
      simp only [List.length_cons]; omega
    · cases h

theorem scanString_len (r : Bytes) (i : Nat) (r1 : Bytes) (j : Nat) (h : scanStringBody r i = .ok (r1, j)) : r1.length < r.length := by
  obtain ⟨body, hb, _, _⟩ := scan_body r.length r i r1 j (Nat.le_refl _) h
  rw [hb]; simp; omega

def LV (fuel : Nat) : Prop := ∀ s i v r j, parseValue fuel s i = .ok (v, r, j) → r.length < s.length
def LE (fuel : Nat) : Prop := ∀ s i start acc v r j, parseValue.elements fuel s i start acc = .ok (v, r, j) → r.length < s.length
def LM (fuel : Nat) : Prop := ∀ s i start acc v r j, parseValue.members fuel s i start acc = .ok (v, r, j) → r.length < s.length

theorem skipWs_len1 (r : Bytes) (j : Nat) (r2 : Bytes) (j2 : Nat) (h : skipWs r j = (r2, j2)) : r2.length ≤ r.length := by
  have := skipWs_len r j; rw [h] at this; exact this

theorem lv_step (fuel : Nat) (he : LE fuel) (hm : LM fuel) : LV (fuel + 1) := by
  intro s i v r j hp
  unfold parseValue at hp
  cases s with
  | nil => simp at hp
  | cons c rest =>
    simp only [] at hp
    have cont : ∀ (r1 : Bytes) (i1 : Nat) (cl : UInt8) (f : Bytes → Except RefErr (STree × Bytes × Nat)) (mk : Bytes → STree × Bytes × Nat),
        skipWs rest (i + 1) = (r1, i1) → (∀ r2, (mk r2).2.1 = r2) →
        (∀ x r2 v r j, f (x :: r2) = .ok (v, r, j) → r.length < (x :: r2).length) →
        (match r1 with
          | [] => Except.error RefErr.eof
          | x :: r2 => if x = cl then .ok (mk r2) else f (x :: r2)) = .ok (v, r, j) → r.length < (c :: rest).length := by
      intro r1 i1 cl f mk hsk hmk hf hm
      have := skipWs_len1 _ _ _ _ hsk
      cases r1 with
      | nil => cases hm
      | cons x r2 =>
        simp only [] at hm
        split at hm
        · simp only [Except.ok.injEq] at hm
          have := hmk r2; rw [hm] at this; simp only [] at this; subst this
          simp only [List.length_cons] at *; omega
        · have := hf x r2 v r j hm
          simp only [List.length_cons] at *; omega
    by_cases h123 : (c == 123) = true
    · rw [if_pos h123] at hp
      cases hsk : skipWs rest (i + 1) with
      | mk r1 i1 =>
        rw [hsk] at hp
        simp only [] at hp
        apply cont r1 i1 125 (fun s => parseValue.members fuel s i1 i []) (fun r2 => (.obj i (i1 + 1) [], r2, i1 + 1)) hsk (fun _ => rfl)
          (fun x r2 v r j h => hm _ _ _ _ _ _ _ h)
        cases r1 with
        | nil => exact hp
        | cons x r2 =>
          simp only []
          by_cases hx : x = 125
          · subst hx; simpa using hp
          · rw [if_neg hx]
            split at hp
            · rename_i heq; cases heq
            · rename_i heq; cases heq; exact absurd rfl hx
            · exact hp
    rw [if_neg h123] at hp
    by_cases h91 : (c == 91) = true
    · rw [if_pos h91] at hp
      cases hsk : skipWs rest (i + 1) with
      | mk r1 i1 =>
        rw [hsk] at hp
        simp only [] at hp
        apply cont r1 i1 93 (fun s => parseValue.elements fuel s i1 i []) (fun r2 => (.arr i (i1 + 1) [], r2, i1 + 1)) hsk (fun _ => rfl)
          (fun x r2 v r j h => he _ _ _ _ _ _ _ h)
        cases r1 with
        | nil => exact hp
        | cons x r2 =>
          simp only []
          by_cases hx : x = 93
          · subst hx; simpa using hp
          · rw [if_neg hx]
            split at hp
            · rename_i heq; cases heq
            · rename_i heq; cases heq; exact absurd rfl hx
            · exact hp
    rw [if_neg h91] at hp
    by_cases h34 : (c == 34) = true
    · rw [if_pos h34] at hp
      cases hsc : scanStringBody rest (i + 1) with
      | error e => rw [hsc] at hp; cases hp
      | ok x =>
        obtain ⟨r1, j1⟩ := x
        rw [hsc] at hp
        simp only [Except.ok.injEq, Prod.mk.injEq] at hp
        have := scanString_len _ _ _ _ hsc
        rw [← hp.2.1]; simp only [List.length_cons]; omega
    rw [if_neg h34] at hp
    have wordCase : ∀ (w : Bytes) (f : Bytes × Nat → STree × Bytes × Nat), (∀ x, (f x).2 = x) → w ≠ [] →
        Except.map f (expectWord w (c :: rest) i) = .ok (v, r, j) → r.length < (c :: rest).length := by
      intro w f hf hw hmap
      cases hew : expectWord w (c :: rest) i with
      | error e => rw [hew] at hmap; cases hmap
      | ok x =>
        obtain ⟨r1, j1⟩ := x
        rw [hew] at hmap
        simp only [Except.map, Except.ok.injEq] at hmap
        have := hf (r1, j1)
        rw [hmap] at this
        simp only [Prod.mk.injEq] at this
        rw [this.1]
        exact expectWord_len _ _ _ _ _ hw hew
    by_cases h116 : (c == 116) = true
    · rw [if_pos h116] at hp; exact wordCase wTrue _ (fun x => rfl) (by simp [wTrue]) hp
    rw [if_neg h116] at hp
    by_cases h102 : (c == 102) = true
    · rw [if_pos h102] at hp; exact wordCase wFalse _ (fun x => rfl) (by simp [wFalse]) hp
    rw [if_neg h102] at hp
    by_cases h110 : (c == 110) = true
    · rw [if_pos h110] at hp; exact wordCase wNull _ (fun x => rfl) (by simp [wNull]) hp
    rw [if_neg h110] at hp
    by_cases hnum : (c == 45 || isDigit c) = true
    · rw [if_pos hnum] at hp
      cases hsn : scanNumber (c :: rest) i with
      | error e => rw [hsn] at hp; cases hp
      | ok x =>
        obtain ⟨r1, j1⟩ := x
        rw [hsn] at hp
        simp only [Except.map, Except.ok.injEq, Prod.mk.injEq] at hp
        rw [← hp.2.1]
        exact scanNumber_len _ _ _ _ hsn
    · rw [if_neg hnum] at hp; cases hp

theorem le_step (fuel : Nat) (hv : LV fuel) (he : LE fuel) : LE (fuel + 1) := by
  intro s i start acc v r j hp
  unfold parseValue.elements at hp
  cases hpv : parseValue fuel s i with
  | error e => rw [hpv] at hp; cases hp
  | ok x =>
    obtain ⟨v1, r1, j1⟩ := x
    rw [hpv] at hp
    simp only [] at hp
    have l1 := hv _ _ _ _ _ hpv
    cases hsk : skipWs r1 j1 with
    | mk r2 j2 =>
      rw [hsk] at hp
      simp only [] at hp
      have l2 := skipWs_len1 _ _ _ _ hsk
      split at hp
      · cases hp
      · simp only [Except.ok.injEq, Prod.mk.injEq] at hp
        rw [← hp.2.1]; simp only [List.length_cons] at l2; omega
      · rename_i r3
        have l3 := skipWs_len r3 (j2 + 1)
        have := he _ _ _ _ _ _ _ hp
        simp only [List.length_cons] at l2; omega
      · cases hp

theorem lm_step (fuel : Nat) (hv : LV fuel) (hm : LM fuel) : LM (fuel + 1) := by
  intro s i start acc v r j hp
  unfold parseValue.members at hp
  split at hp
  · cases hp
  · rename_i rest
    cases hsc : scanStringBody rest (i + 1) with
    | error e => rw [hsc] at hp; cases hp
    | ok x =>
      obtain ⟨r1, j1⟩ := x
      rw [hsc] at hp
      simp only [] at hp
      have l0 := scanString_len _ _ _ _ hsc
      cases hsk : skipWs r1 j1 with
      | mk r2 j2 =>
        rw [hsk] at hp
        simp only [] at hp
        have l1 := skipWs_len1 _ _ _ _ hsk
        split at hp
        · cases hp
        · rename_i r3
          have l2 := skipWs_len r3 (j2 + 1)
          cases hpv : parseValue fuel (skipWs r3 (j2 + 1)).1 (skipWs r3 (j2 + 1)).2 with
          | error e => rw [hpv] at hp; cases hp
          | ok y =>
            obtain ⟨v1, r5, j5⟩ := y
            rw [hpv] at hp
            simp only [] at hp
            have l3 := hv _ _ _ _ _ hpv
            cases hsk6 : skipWs r5 j5 with
            | mk r6 j6 =>
              rw [hsk6] at hp
              simp only [] at hp
              have l4 := skipWs_len1 _ _ _ _ hsk6
              split at hp
              · cases hp
              · simp only [Except.ok.injEq, Prod.mk.injEq] at hp
                rw [← hp.2.1]; simp only [List.length_cons] at *; omega
              · rename_i r7
                have l5 := skipWs_len r7 (j6 + 1)
                have := hm _ _ _ _ _ _ _ hp
                simp only [List.length_cons] at *; omega
              · cases hp
        · cases hp
  · cases hp

theorem len_all : ∀ fuel, LV fuel ∧ LE fuel ∧ LM fuel
  | 0 => by
    refine ⟨?_, ?_, ?_⟩
    · intro s i v r j hp; simp [parseValue] at hp
    · intro s i start acc v r j hp; simp [parseValue.elements] at hp
    · intro s i start acc v r j hp; simp [parseValue.members] at hp
  | fuel+1 => by
    obtain ⟨a, b, c⟩ := len_all fuel
    exact ⟨lv_step fuel b c, le_step fuel a b, lm_step fuel a c⟩

end Ajson.Proofs
