/-
The span tree the reference parser returns is consistent with the input: every span is non-empty and holds the text of its
value (number literal, string literal that unquotes, true/false/null), the root spans the text without the outer whitespace.
-/
import Ajson.Proofs.Rep
import Ajson.Proofs.DecodeComplete
namespace Ajson.Proofs
open Ajson Ajson.Heap Ajson.Spec

/-- a scanner result that is the input with a prefix removed, the index advanced by its length -/
def Suf (s : Bytes) (i : Nat) (r : Bytes) (j : Nat) : Prop := i ≤ j ∧ r = s.drop (j - i)

theorem Suf.refl' (s : Bytes) (i : Nat) : Suf s i s i := ⟨Nat.le_refl _, by simp⟩
theorem Suf.trans {s : Bytes} {i : Nat} {r : Bytes} {j : Nat} {t : Bytes} {k : Nat} (h1 : Suf s i r j) (h2 : Suf r j t k) : Suf s i t k := by
  obtain ⟨a, b⟩ := h1; obtain ⟨c, e⟩ := h2
  refine ⟨by omega, ?_⟩
  rw [e, b, List.drop_drop]; congr 1; omega
theorem Suf.cons (c : UInt8) (s : Bytes) (i : Nat) : Suf (c :: s) i s (i + 1) := ⟨by omega, by simp⟩
theorem Suf.cons2 (c e : UInt8) (s : Bytes) (i : Nat) : Suf (c :: e :: s) i s (i + 2) := ⟨by omega, by simp⟩

theorem skipDigits_suf : ∀ (s : Bytes) (i : Nat), Suf s i (skipDigits s i).1 (skipDigits s i).2
  | [], i => by simp [skipDigits, Suf]
  | b :: bs, i => by
    unfold skipDigits
    split
    · exact (Suf.cons b bs i).trans (skipDigits_suf bs (i + 1))
    · exact Suf.refl' _ _

theorem skipDigits_suf' (s : Bytes) (i : Nat) (r : Bytes) (j : Nat) (h : skipDigits s i = (r, j)) : Suf s i r j := by
  have := skipDigits_suf s i; rw [h] at this; exact this

theorem expPhase_suf (s : Bytes) (i : Nat) (r : Bytes) (j : Nat) (h : expPhase s i = .ok (r, j)) : Suf s i r j := by
  unfold expPhase at h
  repeat' split at h
  all_goals first
    | (cases h; done)
    | (cases h; exact Suf.refl' _ _)
    | skip
  rename_i _ c rr hce _ jj _ b r' heq hdig
  have hl : Suf rr (i + 1) (b :: r') jj := by
    split at heq <;> (simp only [Prod.mk.injEq] at heq; obtain ⟨e1, e2⟩ := heq; subst e1; subst e2)
    · exact Suf.cons _ _ _
    · exact Suf.cons _ _ _
    · exact Suf.refl' _ _
  simp only [Except.ok.injEq] at h
  exact (Suf.cons c rr i).trans (hl.trans ((Suf.cons b r' _).trans (skipDigits_suf' _ _ _ _ h)))

theorem fracPhase_suf (s : Bytes) (i : Nat) (r : Bytes) (j : Nat) (h : fracPhase s i = .ok (r, j)) : Suf s i r j := by
  unfold fracPhase at h
  repeat' split at h
  all_goals first
    | (cases h; done)
    | (cases h; exact Suf.refl' _ _)
    | skip
  simp only [Except.ok.injEq] at h
  exact (Suf.cons2 _ _ _ _).trans (skipDigits_suf' _ _ _ _ h)

theorem intPhase_suf (s : Bytes) (i : Nat) (r : Bytes) (j : Nat) (h : intPhase s i = .ok (r, j)) : Suf s i r j := by
  unfold intPhase at h
  repeat' split at h
  all_goals first
    | (cases h; done)
    | (cases h; exact Suf.cons _ _ _)
    | skip
  simp only [Except.ok.injEq] at h
  exact (Suf.cons _ _ _).trans (skipDigits_suf' _ _ _ _ h)

theorem signPhase_suf (s : Bytes) (i : Nat) : Suf s i (signPhase s i).1 (signPhase s i).2 := by
  unfold signPhase
  split
  · exact Suf.cons _ _ _
  · exact Suf.refl' _ _

theorem scanNumber_suf (s : Bytes) (i : Nat) (r : Bytes) (j : Nat) (h : scanNumber s i = .ok (r, j)) : Suf s i r j := by
  rw [scanNumber_phases] at h
  have h0 := signPhase_suf s i
  cases h1 : intPhase (signPhase s i).1 (signPhase s i).2 with
  | error e => rw [h1] at h; cases h
  | ok x =>
    obtain ⟨s2, i2⟩ := x
    rw [h1] at h
    simp only [] at h
    cases h2 : fracPhase s2 i2 with
    | error e => rw [h2] at h; cases h
    | ok y =>
      obtain ⟨s3, i3⟩ := y
      rw [h2] at h
      simp only [] at h
      exact h0.trans ((intPhase_suf _ _ _ _ h1).trans ((fracPhase_suf _ _ _ _ h2).trans (expPhase_suf _ _ _ _ h)))

theorem expectWord_suf : ∀ (w s : Bytes) (i : Nat) (r : Bytes) (j : Nat), expectWord w s i = .ok (r, j) → s = w ++ r ∧ j = i + w.length
  | [], s, i, r, j, h => by simp [expectWord] at h; exact ⟨by simp [h.1], by simp [h.2]⟩
  | w :: ws, [], i, r, j, h => by simp [expectWord] at h
  | w :: ws, b :: bs, i, r, j, h => by
    simp only [expectWord] at h
    split at h
    · rename_i hb
      have hb' : b = w := by simpa using hb
      obtain ⟨h1, h2⟩ := expectWord_suf ws bs (i + 1) r j h
      exact ⟨by rw [hb', h1]; rfl, by simp only [List.length_cons]; omega⟩
    · cases h

theorem scanString_suf (r : Bytes) (i : Nat) (r1 : Bytes) (j : Nat) (h : scanStringBody r i = .ok (r1, j)) : Suf r i r1 j := by
  obtain ⟨body, hb, _, hj⟩ := scan_body r.length r i r1 j (Nat.le_refl _) h
  refine ⟨by omega, ?_⟩
  rw [hb, hj, show i + body.length + 1 - i = body.length + 1 by omega]
  rw [show body ++ 34 :: r1 = (body ++ [34]) ++ r1 by simp, List.drop_left' (by simp)]

theorem skipWs_suf (r : Bytes) (j : Nat) : Suf r j (skipWs r j).1 (skipWs r j).2 := by
  obtain ⟨h1, h2⟩ := skipWs_spec r j
  exact ⟨h1, h2⟩

theorem skipWs_suf' (r : Bytes) (j : Nat) (r2 : Bytes) (j2 : Nat) (h : skipWs r j = (r2, j2)) : Suf r j r2 j2 := by
  have := skipWs_suf r j; rw [h] at this; exact this

/-- the span [a, b) of the input -/
def slice (data : Bytes) (a b : Nat) : Bytes := (data.drop a).take (b - a)

mutual
/-- the span tree is consistent with the input: every span is non-empty and holds the text of its value -/
def WfT (data : Bytes) : STree → Prop
  | .null a b => a < b ∧ slice data a b = wNull
  | .num a b lit => a < b ∧ lit = slice data a b
  | .str a b raw => a + 2 ≤ b ∧ raw = slice data a b ∧ ∃ s, unquoteBytes raw 34 = some s
  | .bool a b v => a < b ∧ slice data a b = (if v then wTrue else wFalse)
  | .arr a b xs => a < b ∧ WfL data xs
  | .obj a b kvs => a < b ∧ WfM data kvs
def WfL (data : Bytes) : List STree → Prop
  | [] => True
  | x :: xs => WfT data x ∧ WfL data xs
def WfM (data : Bytes) : List (Bytes × STree) → Prop
  | [] => True
  | (_, v) :: rest => WfT data v ∧ WfM data rest
end

def _root_.Ajson.Spec.STree.start : STree → Nat
  | .null a _ | .num a _ _ | .str a _ _ | .bool a _ _ | .arr a _ _ | .obj a _ _ => a
def _root_.Ajson.Spec.STree.stop : STree → Nat
  | .null _ b | .num _ b _ | .str _ b _ | .bool _ b _ | .arr _ b _ | .obj _ b _ => b

theorem WfL_append (data : Bytes) : ∀ (xs ys : List STree), WfL data (xs ++ ys) ↔ WfL data xs ∧ WfL data ys
  | [], ys => by simp [WfL]
  | x :: xs, ys => by simp only [List.cons_append, WfL, WfL_append data xs ys, and_assoc]

theorem WfM_append (data : Bytes) : ∀ (xs ys : List (Bytes × STree)), WfM data (xs ++ ys) ↔ WfM data xs ∧ WfM data ys
  | [], ys => by simp [WfM]
  | (k, v) :: xs, ys => by simp only [List.cons_append, WfM, WfM_append data xs ys, and_assoc]

theorem Suf.at_data {data s r : Bytes} {i j : Nat} (h : Suf s i r j) (hs : s = data.drop i) : r = data.drop j := by
  rw [h.2, hs, List.drop_drop]; congr 1; have := h.1; omega

theorem slice_of_take {data s : Bytes} {i j : Nat} (hs : s = data.drop i) : s.take (j - i) = slice data i j := by
  rw [hs]; rfl

def WV (data : Bytes) (fuel : Nat) : Prop := ∀ s i v r j, parseValue fuel s i = .ok (v, r, j) → s = data.drop i →
  WfT data v ∧ v.start = i ∧ v.stop = j ∧ Suf s i r j
def WE (data : Bytes) (fuel : Nat) : Prop := ∀ s i start acc v r j, parseValue.elements fuel s i start acc = .ok (v, r, j) →
  s = data.drop i → WfL data acc → start < i → ∃ xs, v = .arr start j xs ∧ WfL data xs ∧ start < j ∧ Suf s i r j
def WM (data : Bytes) (fuel : Nat) : Prop := ∀ s i start acc v r j, parseValue.members fuel s i start acc = .ok (v, r, j) →
  s = data.drop i → WfM data acc → start < i → ∃ kvs, v = .obj start j kvs ∧ WfM data kvs ∧ start < j ∧ Suf s i r j

theorem wv_step (data : Bytes) (fuel : Nat) (he : WE data fuel) (hm : WM data fuel) : WV data (fuel + 1) := by
  intro s i v r j hp hs
  unfold parseValue at hp
  cases s with
  | nil => simp at hp
  | cons c rest =>
    simp only [] at hp
    have hrest : rest = data.drop (i + 1) := (Suf.cons c rest i).at_data hs
    by_cases h123 : (c == 123) = true
    · rw [if_pos h123] at hp
      cases hsk : skipWs rest (i + 1) with
      | mk r1 i1 =>
        rw [hsk] at hp
        simp only [] at hp
        have hsuf1 := skipWs_suf' _ _ _ _ hsk
        match r1, hsuf1, hp with
        | [], _, hp => cases hp
        | x :: r2, hsuf1, hp =>
          by_cases hx : x = 125
          · subst hx
            simp only [Except.ok.injEq, Prod.mk.injEq] at hp
            obtain ⟨hvv, hr, hj⟩ := hp
            subst hr; subst hj; subst hvv
            have := hsuf1.1
            exact ⟨⟨by omega, trivial⟩, rfl, rfl, (Suf.cons c rest i).trans (hsuf1.trans (Suf.cons _ _ _))⟩
          · have hp' : parseValue.members fuel (x :: r2) i1 i [] = .ok (v, r, j) := by
              split at hp
              · cases hp
              · rename_i heq; cases heq; exact absurd rfl hx
              · exact hp
            obtain ⟨kvs, hvv, hw, hlt, hsuf⟩ := hm _ _ _ _ _ _ _ hp' (hsuf1.at_data hrest) trivial (by have := hsuf1.1; omega)
            subst hvv
            exact ⟨⟨hlt, hw⟩, rfl, rfl, (Suf.cons c rest i).trans (hsuf1.trans hsuf)⟩
    rw [if_neg h123] at hp
    by_cases h91 : (c == 91) = true
    · rw [if_pos h91] at hp
      cases hsk : skipWs rest (i + 1) with
      | mk r1 i1 =>
        rw [hsk] at hp
        simp only [] at hp
        have hsuf1 := skipWs_suf' _ _ _ _ hsk
        match r1, hsuf1, hp with
        | [], _, hp => cases hp
        | x :: r2, hsuf1, hp =>
          by_cases hx : x = 93
          · subst hx
            simp only [Except.ok.injEq, Prod.mk.injEq] at hp
            obtain ⟨hvv, hr, hj⟩ := hp
            subst hr; subst hj; subst hvv
            have := hsuf1.1
            exact ⟨⟨by omega, trivial⟩, rfl, rfl, (Suf.cons c rest i).trans (hsuf1.trans (Suf.cons _ _ _))⟩
          · have hp' : parseValue.elements fuel (x :: r2) i1 i [] = .ok (v, r, j) := by
              split at hp
              · cases hp
              · rename_i heq; cases heq; exact absurd rfl hx
              · exact hp
            obtain ⟨xs, hvv, hw, hlt, hsuf⟩ := he _ _ _ _ _ _ _ hp' (hsuf1.at_data hrest) trivial (by have := hsuf1.1; omega)
            subst hvv
            exact ⟨⟨hlt, hw⟩, rfl, rfl, (Suf.cons c rest i).trans (hsuf1.trans hsuf)⟩
    rw [if_neg h91] at hp
    by_cases h34 : (c == 34) = true
    · rw [if_pos h34] at hp
      have hc : c = 34 := by simpa using h34
      subst hc
      cases hsc : scanStringBody rest (i + 1) with
      | error e => rw [hsc] at hp; cases hp
      | ok v1 =>
        obtain ⟨r1, j1⟩ := v1
        rw [hsc] at hp
        simp only [Except.ok.injEq, Prod.mk.injEq] at hp
        obtain ⟨hvv, hr, hj⟩ := hp
        subst hr; subst hj; subst hvv
        have hsuf := scanString_suf _ _ _ _ hsc
        obtain ⟨body, _, _, hjj⟩ := scan_body rest.length rest (i + 1) r1 j1 (Nat.le_refl _) hsc
        exact ⟨⟨by omega, slice_of_take hs, unquoteBytes_valid rest i r1 j1 hsc⟩, rfl, rfl, (Suf.cons 34 rest i).trans hsuf⟩
    rw [if_neg h34] at hp
    have wordCase : ∀ (w : Bytes) (f : Bytes × Nat → STree × Bytes × Nat), (∀ x, (f x).2 = x) → w ≠ [] →
        (∀ x, i < x.2 → slice data i x.2 = w → WfT data (f x).1 ∧ (f x).1.start = i ∧ (f x).1.stop = x.2) →
        Except.map f (expectWord w (c :: rest) i) = .ok (v, r, j) → WfT data v ∧ v.start = i ∧ v.stop = j ∧ Suf (c :: rest) i r j := by
      intro w f hf hwne hw hmap
      cases hew : expectWord w (c :: rest) i with
      | error e => rw [hew] at hmap; cases hmap
      | ok x =>
        obtain ⟨r1, j1⟩ := x
        rw [hew] at hmap
        simp only [Except.map, Except.ok.injEq] at hmap
        obtain ⟨hsw, hjw⟩ := expectWord_suf _ _ _ _ _ hew
        have hwl : 0 < w.length := List.length_pos_iff.mpr hwne
        have h2 := hf (r1, j1)
        have h3 := hw (r1, j1) (by simp only []; omega) (by
          unfold slice; rw [← hs, hsw, hjw, show i + w.length - i = w.length by omega]; simp)
        rw [hmap] at h2 h3
        simp only [Prod.mk.injEq] at h2
        obtain ⟨hr, hj⟩ := h2
        subst hr; subst hj
        refine ⟨h3.1, h3.2.1, h3.2.2, by omega, ?_⟩
        rw [hsw, hjw, show i + w.length - i = w.length by omega]; simp
    by_cases h116 : (c == 116) = true
    · rw [if_pos h116] at hp
      exact wordCase wTrue (fun x => (STree.bool i x.snd true, x.fst, x.snd)) (fun x => rfl) (by simp [wTrue])
        (fun x hx hsl => ⟨by simp only [WfT]; exact ⟨hx, by simp [hsl]⟩, rfl, rfl⟩) hp
    rw [if_neg h116] at hp
    by_cases h102 : (c == 102) = true
    · rw [if_pos h102] at hp
      exact wordCase wFalse (fun x => (STree.bool i x.snd false, x.fst, x.snd)) (fun x => rfl) (by simp [wFalse])
        (fun x hx hsl => ⟨by simp only [WfT]; exact ⟨hx, by simp [hsl]⟩, rfl, rfl⟩) hp
    rw [if_neg h102] at hp
    by_cases h110 : (c == 110) = true
    · rw [if_pos h110] at hp
      exact wordCase wNull (fun x => (STree.null i x.snd, x.fst, x.snd)) (fun x => rfl) (by simp [wNull])
        (fun x hx hsl => ⟨by simp only [WfT]; exact ⟨hx, hsl⟩, rfl, rfl⟩) hp
    rw [if_neg h110] at hp
    by_cases hnum : (c == 45 || isDigit c) = true
    · rw [if_pos hnum] at hp
      cases hsn : scanNumber (c :: rest) i with
      | error e => rw [hsn] at hp; cases hp
      | ok x =>
        obtain ⟨r1, j1⟩ := x
        rw [hsn] at hp
        simp only [Except.map, Except.ok.injEq, Prod.mk.injEq] at hp
        obtain ⟨hvv, hr, hj⟩ := hp
        subst hr; subst hj; subst hvv
        exact ⟨⟨scanNumber_idx _ _ _ _ hsn, slice_of_take hs⟩, rfl, rfl, scanNumber_suf _ _ _ _ hsn⟩
    · rw [if_neg hnum] at hp; cases hp

theorem we_step (data : Bytes) (fuel : Nat) (hv : WV data fuel) (he : WE data fuel) : WE data (fuel + 1) := by
  intro s i start acc v r j hp hs hacc hst
  unfold parseValue.elements at hp
  cases hpv : parseValue fuel s i with
  | error e => rw [hpv] at hp; cases hp
  | ok x =>
    obtain ⟨v1, r1, j1⟩ := x
    rw [hpv] at hp
    simp only [] at hp
    obtain ⟨hw1, _, _, hsuf1⟩ := hv _ _ _ _ _ hpv hs
    have hr1 := hsuf1.at_data hs
    cases hsk : skipWs r1 j1 with
    | mk r2 j2 =>
      rw [hsk] at hp
      simp only [] at hp
      have hsuf2 := skipWs_suf' _ _ _ _ hsk
      have hr2 := hsuf2.at_data hr1
      have hacc' : WfL data (acc ++ [v1]) := (WfL_append data acc [v1]).mpr ⟨hacc, hw1, trivial⟩
      have := hsuf1.1; have := hsuf2.1
      split at hp
      · cases hp
      · simp only [Except.ok.injEq, Prod.mk.injEq] at hp
        obtain ⟨hvv, hr, hj⟩ := hp
        subst hr; subst hj
        exact ⟨_, hvv.symm, hacc', by omega, hsuf1.trans (hsuf2.trans (Suf.cons _ _ _))⟩
      · rename_i r3
        have hsuf3 := skipWs_suf r3 (j2 + 1)
        have hsc : Suf s i r3 (j2 + 1) := hsuf1.trans (hsuf2.trans (Suf.cons _ _ _))
        obtain ⟨xs, hvv, hw, hlt, hsuf⟩ := he _ _ _ _ _ _ _ hp ((hsc.trans hsuf3).at_data hs) hacc' (by have := hsuf3.1; omega)
        exact ⟨xs, hvv, hw, hlt, hsc.trans (hsuf3.trans hsuf)⟩
      · cases hp

theorem wm_step (data : Bytes) (fuel : Nat) (hv : WV data fuel) (hm : WM data fuel) : WM data (fuel + 1) := by
  intro s i start acc v r j hp hs hacc hst
  unfold parseValue.members at hp
  split at hp
  · cases hp
  · rename_i rest
    cases hsc : scanStringBody rest (i + 1) with
    | error e => rw [hsc] at hp; cases hp
    | ok x =>
      obtain ⟨r1, j1⟩ := x
      rw [hsc] at hp
      simp only [] at hp
      have hsuf0 : Suf (34 :: rest) i r1 j1 := (Suf.cons 34 rest i).trans (scanString_suf _ _ _ _ hsc)
      cases hsk : skipWs r1 j1 with
      | mk r2 j2 =>
        rw [hsk] at hp
        simp only [] at hp
        have hsuf2 := skipWs_suf' _ _ _ _ hsk
        split at hp
        · cases hp
        · rename_i r3
          have hsuf3 := skipWs_suf r3 (j2 + 1)
          have hsc4 : Suf (34 :: rest) i (skipWs r3 (j2 + 1)).1 (skipWs r3 (j2 + 1)).2 :=
            hsuf0.trans (hsuf2.trans ((Suf.cons _ _ _).trans hsuf3))
          cases hpv : parseValue fuel (skipWs r3 (j2 + 1)).1 (skipWs r3 (j2 + 1)).2 with
          | error e => rw [hpv] at hp; cases hp
          | ok y =>
            obtain ⟨v1, r5, j5⟩ := y
            rw [hpv] at hp
            simp only [] at hp
            obtain ⟨hw1, _, _, hsuf5⟩ := hv _ _ _ _ _ hpv (hsc4.at_data hs)
            have hacc' : WfM data (acc ++ [((unquoteBytes (List.take (j1 - i) (34 :: rest)) 34).getD [], v1)]) :=
              (WfM_append data acc _).mpr ⟨hacc, hw1, trivial⟩
            cases hsk6 : skipWs r5 j5 with
            | mk r6 j6 =>
              rw [hsk6] at hp
              simp only [] at hp
              have hsuf6 := skipWs_suf' _ _ _ _ hsk6
              have hsc6 : Suf (34 :: rest) i r6 j6 := hsc4.trans (hsuf5.trans hsuf6)
              have := hsc6.1
              split at hp
              · cases hp
              · simp only [Except.ok.injEq, Prod.mk.injEq] at hp
                obtain ⟨hvv, hr, hj⟩ := hp
                subst hr; subst hj
                exact ⟨_, hvv.symm, hacc', by omega, hsc6.trans (Suf.cons _ _ _)⟩
              · rename_i r7
                have hsuf7 := skipWs_suf r7 (j6 + 1)
                have hsc8 := hsc6.trans ((Suf.cons 44 r7 j6).trans hsuf7)
                obtain ⟨kvs, hvv, hw, hlt, hsuf⟩ := hm _ _ _ _ _ _ _ hp (hsc8.at_data hs) hacc' (by have := hsc8.1; omega)
                exact ⟨kvs, hvv, hw, hlt, hsc8.trans hsuf⟩
              · cases hp
        · cases hp
  · cases hp

theorem w_all (data : Bytes) : ∀ fuel, WV data fuel ∧ WE data fuel ∧ WM data fuel
  | 0 => by
    refine ⟨?_, ?_, ?_⟩
    · intro s i v r j hp; simp [parseValue] at hp
    · intro s i start acc v r j hp; simp [parseValue.elements] at hp
    · intro s i start acc v r j hp; simp [parseValue.members] at hp
  | fuel+1 => by
    obtain ⟨a, b, c⟩ := w_all data fuel
    exact ⟨wv_step data fuel b c, we_step data fuel a b, wm_step data fuel a c⟩

/-- the tree the reference parser returns is consistent with the input, its root spans the text without the outer whitespace -/
theorem parseRef_wf (data : Bytes) (v : STree) (h : parseRef data = .ok v) :
    WfT data v ∧ v.start = (skipWs data 0).2 ∧ (skipWs (data.drop v.stop) v.stop).1 = [] := by
  unfold parseRef at h
  cases hsk : skipWs data 0 with
  | mk s i =>
    rw [hsk] at h
    simp only [] at h
    cases hpv : parseValue (2 * data.length + 4) s i with
    | error e => rw [hpv] at h; cases h
    | ok x =>
      obtain ⟨v1, r, j⟩ := x
      rw [hpv] at h
      simp only [] at h
      have hs : s = data.drop i := by
        have := (skipWs_suf' _ _ _ _ hsk).at_data (show data = data.drop 0 by simp)
        exact this
      obtain ⟨hw, h1, h2, hsuf⟩ := (w_all data _).1 _ _ _ _ _ hpv hs
      cases hsk2 : skipWs r j with
      | mk r2 j2 =>
        rw [hsk2] at h
        cases r2 with
        | cons y ys => simp at h
        | nil =>
          simp only [Except.ok.injEq] at h
          subst h
          refine ⟨hw, h1, ?_⟩
          rw [h2, ← hsuf.at_data hs, hsk2]

end Ajson.Proofs
