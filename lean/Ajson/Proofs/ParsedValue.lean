/-
C02 on plain data: for a parsed document, what `absVal` (Proofs/Refine) says at every position. Scalars denote what their literal
denotes; an array denotes the list of what the nodes of its elements denote, in source order.
-/
import Ajson.Proofs.Refine
import Ajson.Proofs.TreeFacts
namespace Ajson.Proofs
open Ajson Ajson.Heap Ajson.Spec

/-- the nodes of the elements of an array whose first element is node `cid` (ids are positions in document order) -/
def elemIds : Nat → List STree → List Nat
  | _, [] => []
  | cid, x :: xs => cid :: elemIds (cid + nodes x) xs

theorem range'_filterMap_elems {h : Heap} {d : Nat} : ∀ (xs : List STree) (k cid : Nat) (m : ChildMap), RepElems h d xs k cid m →
    (List.range' k xs.length).filterMap (fun i => m.lookup (itoa i)) = elemIds cid xs
  | [], _, _, _, _ => rfl
  | x :: xs, k, cid, m, hr => by
    simp only [RepElems] at hr
    simp only [List.length_cons, List.range'_succ, List.filterMap_cons, hr.1, elemIds]
    rw [range'_filterMap_elems xs (k + 1) (cid + nodes x) m hr.2.2.2]

/-- **the elements `absVal` lists for a parsed array are the nodes of its elements, in source order** -/
theorem arrayIds_of_rep {h : Heap} {d : Nat} {a b : Nat} {xs : List STree} {id : Nat} (hr : Rep h d (.arr a b xs) id) :
    arrayIds (h.childMap id) = elemIds (id + 1) xs := by
  simp only [Rep] at hr
  obtain ⟨_, hk, he⟩ := hr
  have hlen : (h.childMap id).length = xs.length := by
    have := congrArg List.length hk
    simpa [ChildMap.keys] using this
  unfold arrayIds
  rw [hlen, List.range_eq_range']
  exact range'_filterMap_elems xs 0 (id + 1) (h.childMap id) he

end Ajson.Proofs
