/-
What each selector command of ApplyJSONPath computes, as closed forms over the children maps of the working set.
-/
import Ajson.Model.Path

namespace Ajson.Proofs
open Ajson Ajson.Heap

theorem foldH_pure_append {α γ : Type} (f : Heap → α → List γ → Heap × Outcome (List γ)) (h : Heap) (g : α → List γ)
    (xs : List α) (hf : ∀ x ∈ xs, ∀ acc, f h x acc = (h, .ok (acc ++ g x))) (acc : List γ) :
    foldH f h xs acc = (h, .ok (acc ++ xs.flatMap g)) := by
  induction xs generalizing acc with
  | nil => simp [foldH]
  | cons x xs ih =>
    have ih' := ih (fun y hy => hf y (List.mem_cons_of_mem _ hy))
    simp [foldH, hf x (List.mem_cons_self), ih', List.flatMap_cons, List.append_assoc]

/-- the shape of a command that reaches the key/index/union branch -/
structure PlainCmd (tbl : OpTable) (cmd : Bytes) (tokens : List Bytes) : Prop where
  tok : Cur.tokenize tbl cmd = .ok tokens
  notRoot : cmd ≠ [36]
  notCur : cmd ≠ [64]
  notDesc : cmd ≠ [46, 46]
  notWild : cmd ≠ [42]
  noColon : tokens.contains [58] = false
  notFilter : (hasPrefix cmd [63, 40] && hasSuffix cmd [41]) = false
  notScript : (hasPrefix cmd [40] && hasSuffix cmd [41]) = false

/-- what one key of a union selects below one node -/
def selectKey (h : Heap) (ukey : Bytes) (e : Id) : List Id :=
  if h.isArray e then
    match atoi (strKey ukey).1 with
    | none => []
    | some num => if h.nchildren e == 0 then [] else ((h.childMap e).lookup (itoaInt (getPositiveIndex num (h.nchildren e)))).toList
  else if h.isObject e then ((h.childMap e).lookup (strKey ukey).1).toList
  else []

/-- a key that is not the `length` idiom and not a parenthesised script -/
def OrdinaryKey (ukey : Bytes) : Prop :=
  ukey ≠ sBytes "length" ∧ ukey ≠ sBytes "'length'" ∧ ukey ≠ sBytes "\"length\"" ∧ (hasPrefix ukey [40] && hasSuffix ukey [41]) = false

theorem C07_union (env : Env) (fuel : Nat) (start : Id) (h : Heap) (i : Nat) (cmd : Bytes) (tokens : List Bytes)
    (hp : PlainCmd env.tbl cmd tokens) (result : List Id)
    (hkeys : ∀ k ∈ (if tokens.contains [44] then tokensSlice tokens [44] else [cmd]), OrdinaryKey k) :
    applyCmd env (fuel + 1) start h i cmd result =
      (h, .ok ((if tokens.contains [44] then tokensSlice tokens [44] else [cmd]).flatMap (fun k => result.flatMap (selectKey h k)))) := by
  rw [applyCmd.eq_def]
  simp only [hp.tok, hp.notRoot, hp.notCur, hp.notDesc, hp.notWild, hp.noColon, hp.notFilter, hp.notScript, if_false, beq_iff_eq, Bool.false_eq_true]
  generalize (if tokens.contains [44] then tokensSlice tokens [44] else [cmd]) = keys at hkeys ⊢
  rw [foldH_pure_append (g := fun k => result.flatMap (selectKey h k))]
  · simp
  · intro ukey hk acc
    obtain ⟨k1, k2, k3, k4⟩ := hkeys ukey hk
    rw [foldH_pure_append (g := selectKey h ukey)]
    intro e _ acc
    unfold selectKey
    by_cases ha : h.isArray e = true
    · have hl : (ukey == sBytes "length" || ukey == sBytes "'length'" || ukey == sBytes "\"length\"") = false := by
        simp [k1, k2, k3]
      simp only [ha, if_true, hl, k4, Bool.false_eq_true, if_false]
      cases hat : atoi (strKey ukey).1 with
      | none => simp
      | some num =>
        by_cases hz : h.nchildren e = 0
        · simp [hz]
        · simp [hz]
    · by_cases ho : h.isObject e = true <;> simp [ha, ho]

theorem getNumberIndex_empty (env : Env) (fuel : Nat) (h : Heap) (e : Id) (d : UInt64) :
    getNumberIndex env (fuel + 1) h e [] d = (h, .ok d) := by
  rw [getNumberIndex.eq_def]; simp

theorem getNumberIndex_plain (env : Env) (fuel : Nat) (h : Heap) (e : Id) (k : Bytes) (d : UInt64) (v : Int)
    (hne : k ≠ []) (hlen : k ≠ sBytes "(@.length)") (hpar : (hasPrefix k [40] && hasSuffix k [41]) = false)
    (hv : atoi k = some v) :
    getNumberIndex env (fuel + 1) h e k d = (h, .ok (F64.ofInt v)) := by
  rw [getNumberIndex.eq_def]
  have : k.isEmpty = false := by cases k <;> simp_all
  simp [this, hlen, hpar, hv]

/-- the bound a slice key denotes once it has been evaluated to a float: NaN (absent) or a truncated integer -/
def boundOfF (f : UInt64) : Option Int := if F64.isNaN f then none else some (F64.toInt f)

structure SliceCmd (tbl : OpTable) (cmd : Bytes) (tokens : List Bytes) : Prop where
  tok : Cur.tokenize tbl cmd = .ok tokens
  notRoot : cmd ≠ [36]
  notCur : cmd ≠ [64]
  notDesc : cmd ≠ [46, 46]
  notWild : cmd ≠ [42]
  colon : tokens.contains [58] = true
  fewColons : ¬ (tokens.filter (· == [58])).length > 3

/-- what a slice with evaluated bounds selects below one node: nothing unless it is a non-empty array -/
def sliceSelect (h : Heap) (f0 f1 f2 : UInt64) (e : Id) : List Id :=
  if h.isArray e && h.nchildren e > 0 then
    let size := h.nchildren e
    let step := F64.toInt f2
    let i0 : Int := if F64.isNaN f0 then (if step > 0 then 0 else Int.ofNat size - 1) else getPositiveIndex (F64.toInt f0) size
    let i1 : Int := if F64.isNaN f1 then (if step > 0 then Int.ofNat size else -1) else getPositiveIndex (F64.toInt f1) size
    (sliceIndexes size i0 i1 step).filterMap (fun k => (h.childMap e).lookup (itoa k))
  else []

theorem C07_slice_cmd (env : Env) (fuel : Nat) (start : Id) (h : Heap) (i : Nat) (cmd : Bytes) (tokens : List Bytes)
    (hp : SliceCmd env.tbl cmd tokens) (result : List Id) (k0 k1 : Bytes) (rest : List Bytes) (f0 f1 f2 : UInt64)
    (hkeys : tokensSlice tokens [58] = k0 :: k1 :: rest)
    (h0 : ∀ e ∈ result, getNumberIndex env fuel h e k0 nanBits = (h, .ok f0))
    (h1 : ∀ e ∈ result, getNumberIndex env fuel h e k1 nanBits = (h, .ok f1))
    (h2 : ∀ e ∈ result, (if (k0 :: k1 :: rest).length < 3 then (h, Outcome.ok (F64.ofInt 1))
            else getNumberIndex env fuel h e ((k0 :: k1 :: rest).getD 2 []) (F64.ofInt 1)) = (h, .ok f2))
    (hstep : F64.toInt f2 ≠ 0) :
    applyCmd env (fuel + 1) start h i cmd result = (h, .ok (result.flatMap (sliceSelect h f0 f1 f2))) := by
  rw [applyCmd.eq_def]
  simp only [hp.tok, hp.notRoot, hp.notCur, hp.notDesc, hp.notWild, hp.colon, hp.fewColons, if_false, if_true, beq_iff_eq, hkeys]
  rw [foldH_pure_append (g := sliceSelect h f0 f1 f2)]
  · simp
  · intro e he acc
    unfold sliceSelect
    by_cases hc : (h.isArray e && h.nchildren e > 0) = true
    · have a0 := h0 e he
      have a1 := h1 e he
      have a2 := h2 e he
      simp only [hc, if_true, List.getD_cons_zero, a0]
      simp only [List.getElem?_cons_succ, List.getElem?_cons_zero, a1]
      simp only [a2]
      simp [hstep]
    · simp [hc]

theorem C07_root_cmd (env : Env) (fuel : Nat) (start : Id) (h : Heap) (toks : List Bytes)
    (ht : Cur.tokenize env.tbl [36] = .ok toks) :
    applyCmd env (fuel + 1) start h 0 [36] [] = (h, .ok [h.root start]) := by
  rw [applyCmd.eq_def]; simp [ht]

theorem C07_current_cmd (env : Env) (fuel : Nat) (start : Id) (h : Heap) (toks : List Bytes)
    (ht : Cur.tokenize env.tbl [64] = .ok toks) :
    applyCmd env (fuel + 1) start h 0 [64] [] = (h, .ok [start]) := by
  rw [applyCmd.eq_def]; simp [ht]

theorem foldO_append {α γ : Type} (f : α → List γ → Outcome (List γ)) (g : α → List γ) (xs : List α)
    (hf : ∀ x ∈ xs, ∀ acc, f x acc = .ok (acc ++ g x)) (acc : List γ) :
    foldO f xs acc = .ok (acc ++ xs.flatMap g) := by
  induction xs generalizing acc with
  | nil => simp [foldO]
  | cons x xs ih =>
    have ih' := ih (fun y hy => hf y (List.mem_cons_of_mem _ hy))
    simp [foldO, hf x (List.mem_cons_self), ih', List.flatMap_cons, List.append_assoc]

/-- `*`: the working set is replaced by the children of its members, in member order, each member's children in
`Inheritors` order -/
theorem C07_wildcard (env : Env) (fuel : Nat) (start : Id) (h : Heap) (i : Nat) (toks : List Bytes)
    (ht : Cur.tokenize env.tbl [42] = .ok toks) (result : List Id) (kids : Id → List Id)
    (hk : ∀ e ∈ result, h.inheritors e = .ok (kids e)) :
    applyCmd env (fuel + 1) start h i [42] result = (h, .ok (result.flatMap kids)) := by
  rw [applyCmd.eq_def]
  simp only [ht]; simp
  rw [foldO_append (g := kids)]
  · simp
  · intro e he acc; simp [hk e he]

/-- `..`: the working set is extended by all container descendants of its members -/
theorem C07_descendant (env : Env) (fuel : Nat) (start : Id) (h : Heap) (i : Nat) (toks : List Bytes)
    (ht : Cur.tokenize env.tbl [46, 46] = .ok toks) (result : List Id) (desc : Id → List Id)
    (hk : ∀ e ∈ result, h.recursiveChildren (h.size + 1) e = .ok (desc e)) :
    applyCmd env (fuel + 1) start h i [46, 46] result = (h, .ok (result ++ result.flatMap desc)) := by
  rw [applyCmd.eq_def]
  simp only [ht]; simp
  rw [foldO_append (g := desc)]
  · simp
  · intro e he acc; simp [hk e he]

end Ajson.Proofs
