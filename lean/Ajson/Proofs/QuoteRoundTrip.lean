/-
Reading back what `quoteString` wrote (C04) and what `Path()` wrote (C16):
`unquote(quote(s)) = coerceUtf8 s` for every byte string, and `unquote('…escapePathKey k…') = k` for every
well-formed UTF-8 key.
-/
import Ajson.Proofs.QuoteValid
import Ajson.Model.Unquote

namespace Ajson

/-! ### one step of `unquoteLoop` on each kind of segment the encoders emit -/

theorem unq_ascii (border c : UInt8) (f : Nat) (r : Bytes) (h1 : 32 ≤ c.toNat) (h2 : c.toNat < 128) (h3 : c ≠ 92) (h4 : c ≠ border) :
    unquoteLoop border (f + 1) (c :: r) = (unquoteLoop border f r).map (c :: ·) := by
  have e1 : (c == 92) = false := by simp [h3]
  have e2 : (c == border) = false := by simp [h4]
  have e3 : ¬ c.toNat < 32 := by omega
  simp [unquoteLoop, e1, e2, e3, h2]

theorem unq_esc_lit (border e : UInt8) (f : Nat) (r : Bytes) (he : e = border ∨ e = 92 ∨ e = 47 ∨ e = 39) :
    unquoteLoop border (f + 1) (92 :: e :: r) = (unquoteLoop border f r).map (e :: ·) := by
  have : (e == border || e == 92 || e == 47 || e == 39) = true := by
    rcases he with h | h | h | h <;> simp [h]
  simp [unquoteLoop, this]

theorem unq_esc_n (border : UInt8) (f : Nat) (r : Bytes) (hb : border = 34 ∨ border = 39) :
    unquoteLoop border (f + 1) (92 :: 110 :: r) = (unquoteLoop border f r).map (10 :: ·) ∧
    unquoteLoop border (f + 1) (92 :: 114 :: r) = (unquoteLoop border f r).map (13 :: ·) ∧
    unquoteLoop border (f + 1) (92 :: 116 :: r) = (unquoteLoop border f r).map (9 :: ·) := by
  rcases hb with rfl | rfl <;> simp [unquoteLoop]

theorem hexVal_hexDigit : ∀ n, n < 16 → hexVal (hexDigit n) = some n := by decide +kernel

/-- `\u00XY` written by the encoders for a byte b < 128 reads back as that byte -/
theorem unq_u00 (border : UInt8) (b : UInt8) (f : Nat) (r : Bytes) (hb : b.toNat < 128) (hbo : border = 34 ∨ border = 39) :
    unquoteLoop border (f + 1) (92 :: 117 :: 48 :: 48 :: hexDigit (b.toNat >>> 4) :: hexDigit (b.toNat &&& 0xF) :: r) =
      (unquoteLoop border f r).map (b :: ·) := by
  have h1 := hexVal_hexDigit _ (shr4_lt b)
  have h2 := hexVal_hexDigit _ (and15_lt b.toNat)
  have hv : (b.toNat >>> 4) * 16 + (b.toNat &&& 0xF) = b.toNat := by
    have := b.toNat_lt
    rw [Nat.shiftRight_eq_div_pow]
    have : b.toNat &&& 0xF = b.toNat % 16 := by
      have := @Nat.and_two_pow_sub_one_eq_mod b.toNat 4
      simpa using this
    rw [this]; omega
  have h0 : hexVal 48 = some 0 := by decide
  have hg : getu4 (92 :: 117 :: 48 :: 48 :: hexDigit (b.toNat >>> 4) :: hexDigit (b.toNat &&& 0xF) :: r) = some b.toNat := by
    simp [getu4, h0, h1, h2, hv]
  have hs : isSurrogate b.toNat = false := by
    simp only [isSurrogate, Bool.and_eq_false_iff, decide_eq_false_iff_not]; left; omega
  have he : encodeRune b.toNat = [b] := encodeRune_ascii b hb
  have hbe : ((117 : UInt8) == border) = false := by rcases hbo with rfl | rfl <;> decide
  rw [unquoteLoop.eq_def]
  simp [hbe, hg, hs, he]

theorem unq_ufffd (border : UInt8) (f : Nat) (r : Bytes) (hbo : border = 34 ∨ border = 39) :
    unquoteLoop border (f + 1) (92 :: 117 :: 102 :: 102 :: 102 :: 100 :: r) =
      (unquoteLoop border f r).map (encodeRune runeError ++ ·) := by
  have hg : getu4 (92 :: 117 :: 102 :: 102 :: 102 :: 100 :: r) = some runeError := by
    simp [getu4, hexVal, runeError]
  have hs : isSurrogate runeError = false := by decide
  have hbe : ((117 : UInt8) == border) = false := by rcases hbo with rfl | rfl <;> decide
  rw [unquoteLoop.eq_def]
  simp [hbe, hg, hs]

theorem unq_u202x (border : UInt8) (c : Nat) (f : Nat) (r : Bytes) (hc : c = 0x2028 ∨ c = 0x2029) (hbo : border = 34 ∨ border = 39) :
    unquoteLoop border (f + 1) (92 :: 117 :: 50 :: 48 :: 50 :: hexDigit (c &&& 0xF) :: r) =
      (unquoteLoop border f r).map (encodeRune c ++ ·) := by
  have hbe : ((117 : UInt8) == border) = false := by rcases hbo with rfl | rfl <;> decide
  rcases hc with rfl | rfl
  · have h8 : hexDigit (0x2028 &&& 0xF) = 56 := by decide +kernel
    rw [h8]
    have hg : getu4 (92 :: 117 :: 50 :: 48 :: 50 :: 56 :: r) = some 0x2028 := by simp [getu4, hexVal]
    have hs : isSurrogate 0x2028 = false := by decide
    rw [unquoteLoop.eq_def]
    simp [hbe, hg, hs]
  · have h9 : hexDigit (0x2029 &&& 0xF) = 57 := by decide +kernel
    rw [h9]
    have hg : getu4 (92 :: 117 :: 50 :: 48 :: 50 :: 57 :: r) = some 0x2029 := by simp [getu4, hexVal]
    have hs : isSurrogate 0x2029 = false := by decide
    rw [unquoteLoop.eq_def]
    simp [hbe, hg, hs]

/-- a well-formed multi-byte sequence copied verbatim reads back as itself -/
theorem unq_high (border : UInt8) (b : UInt8) (t tail : Bytes) (f k : Nat) (hb : 128 ≤ b.toNat) (hbo : border = 34 ∨ border = 39)
    (hk2 : 2 ≤ k) (hsz : (decodeRune (b :: t)).2 = k) (hkl : k ≤ (b :: t).length)
    (henc : encodeRune (decodeRune (b :: t)).1 = (b :: t).take k)
    (hst : ∀ tail, decodeRune ((b :: t).take k ++ tail) = decodeRune (b :: t)) :
    unquoteLoop border (f + 1) ((b :: t).take k ++ tail) = (unquoteLoop border f tail).map ((b :: t).take k ++ ·) := by
  obtain ⟨k', rfl⟩ : ∃ k', k = k' + 1 := ⟨k - 1, by omega⟩
  have htake : (b :: t).take (k' + 1) = b :: t.take k' := rfl
  have e1 : (b == 92) = false := by
    have : b ≠ 92 := by intro e; subst e; simp at hb
    simp [this]
  have e2 : (b == border) = false := by
    have : b ≠ border := by intro e; subst e; rcases hbo with h | h <;> (rw [h] at hb; simp at hb)
    simp [this]
  have e3 : ¬ b.toNat < 32 := by omega
  have e4 : ¬ b.toNat < 128 := by omega
  have hdec := hst tail
  rw [htake] at hdec ⊢
  simp only [List.cons_append]
  rw [unquoteLoop.eq_def]
  simp only [e1, e2, e3, e4, Bool.false_eq_true, if_false, Bool.or_self, decide_false]
  have hdrop : List.drop (decodeRune (b :: t)).2 (b :: (t.take k' ++ tail)) = tail := by
    rw [hsz]
    have hlen : (t.take k').length = k' := by
      simp only [List.length_take, List.length_cons] at hkl ⊢; omega
    simp only [List.drop_succ_cons]
    rw [List.drop_append_of_le_length (by omega)]
    simp [hlen]
  simp only [List.cons_append] at hdec
  rw [hdec, hdrop, henc, htake]
  simp

/-- **C04, strings read back**: unquoting what `quoteString` wrote gives the input with every ill-formed byte replaced by
U+FFFD (Go's own coercion `string → []rune → string`) — for EVERY byte string. -/
theorem quote_unquote_loop : ∀ (fuel : Nat) (s : Bytes), s.length ≤ fuel → ∀ (f : Nat), (quoteLoop fuel s).length ≤ f →
    unquoteLoop 34 f (quoteLoop fuel s) = some (coerceUtf8Aux fuel s)
  | fuel, [], _, f, _ => by
    have h1 : quoteLoop fuel [] = [] := by cases fuel <;> rfl
    have h2 : coerceUtf8Aux fuel [] = [] := by cases fuel <;> rfl
    rw [h1, h2]; cases f <;> rfl
  | 0, _ :: _, h, _, _ => by simp at h
  | fuel+1, b :: t, hlen, f, hf => by
    have hlen' : t.length ≤ fuel := by simpa using hlen
    have hbo : (34 : UInt8) = 34 ∨ (34 : UInt8) = 39 := Or.inl rfl
    unfold quoteLoop at hf ⊢
    unfold coerceUtf8Aux
    by_cases hb : b.toNat < 128
    · have hd : decodeRune (b :: t) = (b.toNat, 1) := decodeRune_ascii b t hb
      simp only [hb, if_true] at hf ⊢
      simp only [hd, Nat.le_refl, if_true, encodeRune_ascii b hb, List.cons_append, List.nil_append]
      by_cases hs : Gen.htmlSafeSet.getD b.toNat false = true
      · obtain ⟨p1, p2, p3⟩ := htmlSafe_plain b.toNat hb hs
        simp only [hs, if_true, List.length_cons] at hf ⊢
        obtain ⟨f', rfl⟩ : ∃ f', f = f' + 1 := ⟨f - 1, by omega⟩
        rw [unq_ascii 34 b f' _ p1 hb (by intro e; subst e; simp at p3) (by intro e; subst e; simp at p2),
            quote_unquote_loop fuel t hlen' f' (by omega)]
        rfl
      · simp only [hs, Bool.false_eq_true, if_false] at hf ⊢
        by_cases h1 : (b == 92 || b == 34) = true
        · simp only [h1, if_true, List.length_cons] at hf ⊢
          obtain ⟨f', rfl⟩ : ∃ f', f = f' + 1 := ⟨f - 1, by omega⟩
          have : b = 34 ∨ b = 92 ∨ b = 47 ∨ b = 39 := by
            simp only [Bool.or_eq_true, beq_iff_eq] at h1; rcases h1 with h | h <;> simp [h]
          rw [unq_esc_lit 34 b f' _ this, quote_unquote_loop fuel t hlen' f' (by omega)]
          rfl
        · simp only [h1, Bool.false_eq_true, if_false] at hf ⊢
          by_cases h2 : (b == 10) = true
          · simp only [h2, if_true, List.length_cons] at hf ⊢
            obtain ⟨f', rfl⟩ : ∃ f', f = f' + 1 := ⟨f - 1, by omega⟩
            rw [(unq_esc_n 34 f' _ hbo).1, quote_unquote_loop fuel t hlen' f' (by omega)]
            have : b = 10 := by simpa using h2
            subst this; rfl
          · simp only [h2, Bool.false_eq_true, if_false] at hf ⊢
            by_cases h3 : (b == 13) = true
            · simp only [h3, if_true, List.length_cons] at hf ⊢
              obtain ⟨f', rfl⟩ : ∃ f', f = f' + 1 := ⟨f - 1, by omega⟩
              rw [(unq_esc_n 34 f' _ hbo).2.1, quote_unquote_loop fuel t hlen' f' (by omega)]
              have : b = 13 := by simpa using h3
              subst this; rfl
            · simp only [h3, Bool.false_eq_true, if_false] at hf ⊢
              by_cases h4 : (b == 9) = true
              · simp only [h4, if_true, List.length_cons] at hf ⊢
                obtain ⟨f', rfl⟩ : ∃ f', f = f' + 1 := ⟨f - 1, by omega⟩
                rw [(unq_esc_n 34 f' _ hbo).2.2, quote_unquote_loop fuel t hlen' f' (by omega)]
                have : b = 9 := by simpa using h4
                subst this; rfl
              · simp only [h4, Bool.false_eq_true, if_false, List.cons_append, List.nil_append, List.length_cons] at hf ⊢
                obtain ⟨f', rfl⟩ : ∃ f', f = f' + 1 := ⟨f - 1, by omega⟩
                rw [unq_u00 34 b f' _ hb hbo, quote_unquote_loop fuel t hlen' f' (by omega)]
                rfl
    · have hb' : 128 ≤ b.toNat := by omega
      simp only [hb, if_false] at hf ⊢
      rcases decodeRune_high b t hb' with hinv | ⟨k, hk2, hsz, hkl, hhigh, henc, hst⟩
      · rw [hinv] at hf ⊢
        simp only [beq_self_eq_true, Bool.and_self, if_true, List.cons_append, List.nil_append, List.length_cons, Nat.le_refl] at hf ⊢
        obtain ⟨f', rfl⟩ : ∃ f', f = f' + 1 := ⟨f - 1, by omega⟩
        rw [unq_ufffd 34 f' _ hbo, quote_unquote_loop fuel t hlen' f' (by omega)]
        rfl
      · have hsize1 : ((decodeRune (b :: t)).2 == 1) = false := by rw [hsz]; simp; omega
        have hsz1 : ¬ (decodeRune (b :: t)).2 ≤ 1 := by omega
        have hdrop : ((b :: t).drop k).length ≤ fuel := by simp at hkl ⊢; omega
        generalize hd : decodeRune (b :: t) = dr at hsz hsize1 henc hsz1 hf hst
        obtain ⟨c, size⟩ := dr
        simp only [] at hsz hsize1 henc hsz1 hf
        subst hsz
        simp only [hsize1, Bool.and_false, Bool.false_eq_true, if_false, hsz1] at hf ⊢
        by_cases hls : (c == 0x2028 || c == 0x2029) = true
        · simp only [hls, if_true, List.cons_append, List.nil_append, List.length_cons] at hf ⊢
          obtain ⟨f', rfl⟩ : ∃ f', f = f' + 1 := ⟨f - 1, by omega⟩
          have hc : c = 0x2028 ∨ c = 0x2029 := by simpa using hls
          rw [unq_u202x 34 c f' _ hc hbo, quote_unquote_loop fuel _ hdrop f' (by omega)]
          rfl
        · simp only [hls, Bool.false_eq_true, if_false, List.length_append] at hf ⊢
          have hl : ((b :: t).take size).length = size := by simp at hkl ⊢; omega
          obtain ⟨f', rfl⟩ : ∃ f', f = f' + 1 := ⟨f - 1, by omega⟩
          rw [unq_high 34 b t _ f' size hb' hbo hk2 (by rw [hd]) hkl (by rw [hd]; exact henc) (by intro tl; rw [hd]; exact hst tl),
              quote_unquote_loop fuel _ hdrop f' (by omega), henc]
          rfl

theorem quote_unquote (s : Bytes) : unquoteBytes ([34] ++ quoteString s ++ [34]) 34 = some (coerceUtf8 s) := by
  unfold unquoteBytes
  have hlen : ¬ ([34] ++ quoteString s ++ [34]).length < 2 := by simp
  have hhead : ([34] ++ quoteString s ++ [34]).head? = some 34 := by simp
  have hlast : ([34] ++ quoteString s ++ [34]).getLast? = some 34 := by rw [List.getLast?_append]; simp
  simp only [hlen, hhead, hlast, if_false, bne_self_eq_false, Bool.or_self]
  have hbody : (List.drop 1 ([34] ++ quoteString s ++ [34])).take (([34] ++ quoteString s ++ [34]).length - 2) = quoteString s := by simp
  rw [hbody]
  exact quote_unquote_loop s.length s (Nat.le_refl _) _ (Nat.le_refl _)

end Ajson
