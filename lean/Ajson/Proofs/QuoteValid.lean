/-
`quoteString` produces the body of a JSON string (C04): the table-free reference scanner of the
specification (`Spec.scanStringBody`) accepts it, up to the closing quote, for EVERY input byte string.
-/
import Ajson.Proofs.Utf8Lemmas
import Ajson.Model.Encode
import Ajson.Spec.Ref

namespace Ajson
open Ajson.Spec

/-- a byte that may stand raw inside a JSON string -/
def plainByte (c : UInt8) : Prop := 32 ≤ c.toNat ∧ c ≠ 34 ∧ c ≠ 92

theorem scan_plain (c : UInt8) (r : Bytes) (i : Nat) (h : plainByte c) :
    scanStringBody (c :: r) i = scanStringBody r (i + 1) := by
  obtain ⟨h1, h2, h3⟩ := h
  have : ¬ c.toNat < 32 := by omega
  rw [scanStringBody.eq_def]
  split
  · rename_i heq; simp at heq
  · rename_i heq; simp at heq; exact absurd heq.1 h2
  · rename_i heq; simp at heq; exact absurd heq.1 h3
  · rename_i heq; simp at heq; obtain ⟨rfl, rfl⟩ := heq; simp [this]

theorem scan_plain_list : ∀ (seg : Bytes) (r : Bytes) (i : Nat), (∀ c ∈ seg, plainByte c) →
    scanStringBody (seg ++ r) i = scanStringBody r (i + seg.length)
  | [], r, i, _ => by simp
  | c :: cs, r, i, h => by
    have hc := h c (by simp)
    have hcs : ∀ x ∈ cs, plainByte x := fun x hx => h x (by simp [hx])
    simp only [List.cons_append, List.length_cons]
    rw [scan_plain c _ i hc, scan_plain_list cs r (i + 1) hcs]
    congr 1; omega

theorem scan_esc2 (e : UInt8) (r : Bytes) (i : Nat) (he : e = 34 ∨ e = 92 ∨ e = 110 ∨ e = 114 ∨ e = 116) :
    scanStringBody (92 :: e :: r) i = scanStringBody r (i + 2) := by
  rcases he with rfl | rfl | rfl | rfl | rfl <;> (rw [scanStringBody.eq_def]; simp)

theorem scan_u (a b c d : UInt8) (r : Bytes) (i : Nat) (ha : isHex a = true) (hb : isHex b = true) (hc : isHex c = true) (hd : isHex d = true) :
    scanStringBody (92 :: 117 :: a :: b :: c :: d :: r) i = scanStringBody r (i + 6) := by
  rw [scanStringBody.eq_def]; simp [ha, hb, hc, hd]

theorem hexDigit_isHex : ∀ n, n < 16 → isHex (hexDigit n) = true := by decide +kernel

/-- every byte the encoder copies verbatim from the ASCII range is plain (regenerated `htmlSafeSet`) -/
theorem htmlSafe_plain : ∀ n, n < 128 → Gen.htmlSafeSet.getD n false = true → 32 ≤ n ∧ n ≠ 34 ∧ n ≠ 92 := by decide +kernel

theorem plain_of_high (c : UInt8) (h : 128 ≤ c.toNat) : plainByte c := by
  refine ⟨by omega, ?_, ?_⟩ <;> intro e <;> subst e <;> simp at h

theorem isCont_high (c : UInt8) (h : isCont c = true) : 128 ≤ c.toNat := by
  simp only [isCont, Bool.and_eq_true, decide_eq_true_eq] at h; exact h.1

/-- what `decodeRune` says about a sequence that starts with a byte ≥ 0x80: ill-formed (U+FFFD, 1), or a well-formed
sequence of 2, 3 or 4 bytes all of which are ≥ 0x80, whose re-encoding is the sequence itself -/
theorem decodeRune_high (b : UInt8) (rest : Bytes) (hb : 128 ≤ b.toNat) :
    decodeRune (b :: rest) = (runeError, 1) ∨
    (∃ k, 2 ≤ k ∧ (decodeRune (b :: rest)).2 = k ∧ k ≤ (b :: rest).length ∧
      (∀ c ∈ (b :: rest).take k, 128 ≤ c.toNat) ∧ encodeRune (decodeRune (b :: rest)).1 = (b :: rest).take k ∧
      (∀ tail, decodeRune ((b :: rest).take k ++ tail) = decodeRune (b :: rest))) := by
  have hbl := b.toNat_lt
  by_cases h1 : b.toNat < 0xC2
  · left; have : ¬ b.toNat < 0x80 := by omega
    simp [decodeRune, this, h1]
  by_cases h2 : b.toNat < 0xE0
  · cases rest with
    | nil => left; have : ¬ b.toNat < 0x80 := by omega
             simp [decodeRune, this, h1, h2]
    | cons b1 r =>
      by_cases hc : isCont b1 = true
      · right
        obtain ⟨hd, he⟩ := encode_decode2 b b1 r (by omega) h2 hc
        refine ⟨2, by omega, by rw [hd], by simp, ?_, by rw [hd]; simpa using he, ?_⟩
        rotate_left
        · intro tail; rw [hd]; simpa using (encode_decode2 b b1 tail (by omega) h2 hc).1
        intro c hcm
        simp only [List.take, List.mem_cons, List.not_mem_nil, or_false] at hcm
        rcases hcm with rfl | rfl
        · exact hb
        · exact isCont_high _ hc
      · left; have : ¬ b.toNat < 0x80 := by omega
        simp [decodeRune, this, h1, h2, hc]
  by_cases h3 : b.toNat < 0xF0
  · match rest with
    | [] => left; have : ¬ b.toNat < 0x80 := by omega
            simp [decodeRune, this, h1, h2, h3]
    | [_] => left; have : ¬ b.toNat < 0x80 := by omega
             simp [decodeRune, this, h1, h2, h3]
    | b1 :: b2 :: r =>
      by_cases hok : ((if b.toNat == 0xE0 then 0xA0 else 0x80) ≤ b1.toNat && b1.toNat ≤ (if b.toNat == 0xED then 0x9F else 0xBF) && isCont b2) = true
      · right
        simp only [Bool.and_eq_true, decide_eq_true_eq] at hok
        obtain ⟨⟨hlo, hhi⟩, hc2⟩ := hok
        have hE0 : b.toNat = 0xE0 → 0xA0 ≤ b1.toNat := by intro q; simpa [q] using hlo
        have h80 : 0x80 ≤ b1.toNat := by by_cases q : b.toNat = 0xE0 <;> simp [q] at hlo <;> omega
        have hED : b.toNat = 0xED → b1.toNat ≤ 0x9F := by intro q; simpa [q] using hhi
        have hBF : b1.toNat ≤ 0xBF := by by_cases q : b.toNat = 0xED <;> simp [q] at hhi <;> omega
        obtain ⟨hd, he⟩ := encode_decode3 b b1 b2 r (by omega) h3 hE0 h80 hED hBF hc2
        refine ⟨3, by omega, by rw [hd], by simp, ?_, by rw [hd]; simpa using he, ?_⟩
        rotate_left
        · intro tail; rw [hd]; simpa using (encode_decode3 b b1 b2 tail (by omega) h3 hE0 h80 hED hBF hc2).1
        intro c hcm
        simp only [List.take, List.mem_cons, List.not_mem_nil, or_false] at hcm
        rcases hcm with rfl | rfl | rfl
        · exact hb
        · exact h80
        · exact isCont_high _ hc2
      · left; have : ¬ b.toNat < 0x80 := by omega
        simp only [decodeRune, this, h1, h2, h3, if_false, if_true]
        simp only [Bool.not_eq_true] at hok
        rw [hok]; simp
  by_cases h4 : b.toNat < 0xF5
  · match rest with
    | [] => left; have : ¬ b.toNat < 0x80 := by omega
            simp [decodeRune, this, h1, h2, h3, h4]
    | [_] => left; have : ¬ b.toNat < 0x80 := by omega
             simp [decodeRune, this, h1, h2, h3, h4]
    | [_, _] => left; have : ¬ b.toNat < 0x80 := by omega
                simp [decodeRune, this, h1, h2, h3, h4]
    | b1 :: b2 :: b3 :: r =>
      by_cases hok : ((if b.toNat == 0xF0 then 0x90 else 0x80) ≤ b1.toNat && b1.toNat ≤ (if b.toNat == 0xF4 then 0x8F else 0xBF) && isCont b2 && isCont b3) = true
      · right
        simp only [Bool.and_eq_true, decide_eq_true_eq] at hok
        obtain ⟨⟨⟨hlo, hhi⟩, hc2⟩, hc3⟩ := hok
        have hF0 : b.toNat = 0xF0 → 0x90 ≤ b1.toNat := by intro q; simpa [q] using hlo
        have h80 : 0x80 ≤ b1.toNat := by by_cases q : b.toNat = 0xF0 <;> simp [q] at hlo <;> omega
        have hF4 : b.toNat = 0xF4 → b1.toNat ≤ 0x8F := by intro q; simpa [q] using hhi
        have hBF : b1.toNat ≤ 0xBF := by by_cases q : b.toNat = 0xF4 <;> simp [q] at hhi <;> omega
        obtain ⟨hd, he⟩ := encode_decode4 b b1 b2 b3 r (by omega) h4 hF0 h80 hF4 hBF hc2 hc3
        refine ⟨4, by omega, by rw [hd], by simp, ?_, by rw [hd]; simpa using he, ?_⟩
        rotate_left
        · intro tail; rw [hd]; simpa using (encode_decode4 b b1 b2 b3 tail (by omega) h4 hF0 h80 hF4 hBF hc2 hc3).1
        intro c hcm
        simp only [List.take, List.mem_cons, List.not_mem_nil, or_false] at hcm
        rcases hcm with rfl | rfl | rfl | rfl
        · exact hb
        · exact h80
        · exact isCont_high _ hc2
        · exact isCont_high _ hc3
      · left; have : ¬ b.toNat < 0x80 := by omega
        simp only [decodeRune, this, h1, h2, h3, h4, if_false, if_true]
        simp only [Bool.not_eq_true] at hok
        rw [hok]; simp
  · left; have : ¬ b.toNat < 0x80 := by omega
    simp [decodeRune, this, h1, h2, h3, h4]

end Ajson

namespace Ajson
open Ajson.Spec

theorem and15_lt (n : Nat) : n &&& 0xF < 16 := by
  have := @Nat.and_le_right n 0xF
  omega

theorem shr4_lt (b : UInt8) : b.toNat >>> 4 < 16 := by
  have := b.toNat_lt
  rw [Nat.shiftRight_eq_div_pow]
  omega

/-- **C04, validity of strings**: for every byte string `s`, the output of `quoteString` followed by the closing quote is
accepted by the reference scanner of JSON strings, which stops exactly after that quote. -/
theorem quoteLoop_scans : ∀ (fuel : Nat) (s : Bytes), s.length ≤ fuel → ∀ (rest : Bytes) (i : Nat),
    scanStringBody (quoteLoop fuel s ++ 34 :: rest) i = .ok (rest, i + (quoteLoop fuel s).length + 1)
  | fuel, [], _, rest, i => by
    have : quoteLoop fuel [] = [] := by cases fuel <;> rfl
    rw [this]
    simp only [List.nil_append, List.length_nil, Nat.add_zero]
    rw [scanStringBody.eq_def]; simp
  | 0, _ :: _, h, _, _ => by simp at h
  | fuel+1, b :: t, hlen, rest, i => by
    have hlen' : t.length ≤ fuel := by simpa using hlen
    have ih := quoteLoop_scans fuel t hlen' rest
    unfold quoteLoop
    by_cases hb : b.toNat < 128
    · simp only [hb, if_true]
      by_cases hs : Gen.htmlSafeSet.getD b.toNat false = true
      · have hp : plainByte b := by
          obtain ⟨p1, p2, p3⟩ := htmlSafe_plain b.toNat hb hs
          refine ⟨p1, ?_, ?_⟩ <;> intro e <;> subst e <;> simp at p2 p3
        simp only [hs, if_true, List.cons_append, List.length_cons]
        rw [scan_plain b _ i hp, ih (i + 1)]
        congr 2; omega
      · simp only [hs, Bool.false_eq_true, if_false]
        by_cases h1 : (b == 92 || b == 34) = true
        · simp only [h1, if_true, List.cons_append, List.length_cons]
          have : b = 34 ∨ b = 92 ∨ b = 110 ∨ b = 114 ∨ b = 116 := by
            simp only [Bool.or_eq_true, beq_iff_eq] at h1; rcases h1 with h | h <;> simp [h]
          rw [scan_esc2 b _ i this, ih (i + 2)]
          congr 2; omega
        · simp only [h1, Bool.false_eq_true, if_false]
          by_cases h2 : (b == 10) = true
          · simp only [h2, if_true, List.cons_append, List.length_cons]
            rw [scan_esc2 110 _ i (by simp), ih (i + 2)]; congr 2; omega
          · simp only [h2, Bool.false_eq_true, if_false]
            by_cases h3 : (b == 13) = true
            · simp only [h3, if_true, List.cons_append, List.length_cons]
              rw [scan_esc2 114 _ i (by simp), ih (i + 2)]; congr 2; omega
            · simp only [h3, Bool.false_eq_true, if_false]
              by_cases h4 : (b == 9) = true
              · simp only [h4, if_true, List.cons_append, List.length_cons]
                rw [scan_esc2 116 _ i (by simp), ih (i + 2)]; congr 2; omega
              · simp only [h4, Bool.false_eq_true, if_false, List.cons_append, List.nil_append, List.length_cons]
                rw [scan_u 48 48 _ _ _ i (by decide) (by decide) (hexDigit_isHex _ (shr4_lt b)) (hexDigit_isHex _ (and15_lt _)), ih (i + 6)]
                congr 2; omega
    · simp only [hb, if_false]
      have hb' : 128 ≤ b.toNat := by omega
      rcases decodeRune_high b t hb' with hinv | ⟨k, hk2, hsz, hkl, hhigh, henc, _⟩
      · rw [hinv]
        simp only [beq_self_eq_true, Bool.and_self, if_true, List.cons_append, List.nil_append, List.length_cons]
        rw [scan_u 102 102 102 100 _ i (by decide) (by decide) (by decide) (by decide), ih (i + 6)]
        congr 2; omega
      · have hsize1 : ((decodeRune (b :: t)).2 == 1) = false := by rw [hsz]; simp; omega
        have hdrop : ((b :: t).drop k).length ≤ fuel := by simp at hkl ⊢; omega
        have ihd := quoteLoop_scans fuel ((b :: t).drop k) hdrop rest
        generalize hd : decodeRune (b :: t) = dr at hsz hsize1 henc
        obtain ⟨c, size⟩ := dr
        simp only [] at hsz hsize1 henc
        subst hsz
        simp only [hsize1, Bool.and_false, Bool.false_eq_true, if_false]
        by_cases hls : (c == 0x2028 || c == 0x2029) = true
        · simp only [hls, if_true, List.cons_append, List.nil_append, List.length_cons]
          rw [scan_u 50 48 50 _ _ i (by decide) (by decide) (by decide) (hexDigit_isHex _ (and15_lt _)), ihd (i + 6)]
          congr 2; omega
        · simp only [hls, Bool.false_eq_true, if_false, List.append_assoc, List.length_append]
          rw [scan_plain_list _ _ i (fun x hx => plain_of_high x (hhigh x hx)), ihd]
          congr 2; omega

/-- `quoteString` as a whole -/
theorem quoteString_is_json_string_body (s rest : Bytes) (i : Nat) :
    scanStringBody (quoteString s ++ 34 :: rest) i = .ok (rest, i + (quoteString s).length + 1) :=
  quoteLoop_scans s.length s (Nat.le_refl _) rest i

end Ajson
