/-
Reads change nothing but cache cells: frame lemmas for `getValue` and the typed getters.
-/
import Ajson.Proofs.HeapBasics
import Ajson.Model.Read

namespace Ajson

/-- a node record with its cache cell blanked: what reads must leave untouched -/
def NodeRec.noCache (r : NodeRec) : NodeRec := { r with cache := none }

namespace Heap

/-- `h'` differs from `h` at most in cache cells -/
def SameButCaches (h h' : Heap) : Prop :=
  h'.datas = h.datas ∧ h'.size = h.size ∧ ∀ m, (h'.get m).noCache = (h.get m).noCache

theorem SameButCaches.refl (h : Heap) : SameButCaches h h := ⟨rfl, rfl, fun _ => rfl⟩

theorem SameButCaches.trans {a b c : Heap} (h1 : SameButCaches a b) (h2 : SameButCaches b c) : SameButCaches a c :=
  ⟨h2.1.trans h1.1, h2.2.1.trans h1.2.1, fun m => (h2.2.2 m).trans (h1.2.2 m)⟩

theorem set_cache_same (h : Heap) (n : Id) (v : Option CacheVal) :
    SameButCaches h (h.set n { h.get n with cache := v }) := by
  refine ⟨by simp, by simp, fun m => ?_⟩
  rw [get_set]
  split
  · rename_i hc; rw [hc.1]; rfl
  · rfl

theorem getValue_frame (h : Heap) (n : Id) : SameButCaches h (h.getValue n).1 := by
  unfold Heap.getValue
  simp only []
  repeat' split
  all_goals first
    | exact SameButCaches.refl h
    | exact set_cache_same h n _

theorem getNumeric_frame (h : Heap) (n : Option Id) : SameButCaches h (h.getNumeric n).1 := by
  unfold Heap.getNumeric
  cases n with
  | none => exact SameButCaches.refl h
  | some n =>
    simp only []
    split
    · exact SameButCaches.refl h
    · have := getValue_frame h n
      repeat' split
      all_goals (rename_i heq; rw [heq] at this; exact this)

theorem getString_frame (h : Heap) (n : Option Id) : SameButCaches h (h.getString n).1 := by
  unfold Heap.getString
  cases n with
  | none => exact SameButCaches.refl h
  | some n =>
    simp only []
    split
    · exact SameButCaches.refl h
    · have := getValue_frame h n
      repeat' split
      all_goals (rename_i heq; rw [heq] at this; exact this)

theorem getBool_frame (h : Heap) (n : Option Id) : SameButCaches h (h.getBool n).1 := by
  unfold Heap.getBool
  cases n with
  | none => exact SameButCaches.refl h
  | some n =>
    simp only []
    split
    · exact SameButCaches.refl h
    · have := getValue_frame h n
      repeat' split
      all_goals (rename_i heq; rw [heq] at this; exact this)

theorem getArray_frame (h : Heap) (n : Option Id) : SameButCaches h (h.getArray n).1 := by
  unfold Heap.getArray
  cases n with
  | none => exact SameButCaches.refl h
  | some n =>
    simp only []
    split
    · exact SameButCaches.refl h
    · have := getValue_frame h n
      repeat' split
      all_goals (rename_i heq; rw [heq] at this; exact this)

theorem getObject_frame (h : Heap) (n : Option Id) : SameButCaches h (h.getObject n).1 := by
  unfold Heap.getObject
  cases n with
  | none => exact SameButCaches.refl h
  | some n =>
    simp only []
    split
    · exact SameButCaches.refl h
    · have := getValue_frame h n
      repeat' split
      all_goals (rename_i heq; rw [heq] at this; exact this)

end Heap
end Ajson
