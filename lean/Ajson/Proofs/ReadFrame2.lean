/-
Frame lemmas for the recursive reads: `Unpack`, `Marshal`, `String`, `Eq`, the ordering comparisons.
-/
import Ajson.Proofs.ReadFrame
import Ajson.Model.Encode
import Ajson.Model.Cmp

namespace Ajson
namespace Heap

theorem foldH_same {α β : Type} (f : Heap → α → β → Heap × Outcome β)
    (hf : ∀ h x acc, SameButCaches h (f h x acc).1) :
    ∀ (xs : List α) (h : Heap) (acc : β), SameButCaches h (foldH f h xs acc).1 := by
  intro xs
  induction xs with
  | nil => intro h acc; exact SameButCaches.refl h
  | cons x xs ih =>
    intro h acc
    unfold foldH
    have h1 := hf h x acc
    split
    · rename_i heq; rw [heq] at h1; exact h1.trans (ih _ _)
    · rename_i heq; rw [heq] at h1; exact h1
    · rename_i heq; rw [heq] at h1; exact h1

/-- `.1` of a three-way outcome match that keeps the heap of the scrutinee -/
theorem same_of_match {α β : Type} (h : Heap) (e : Heap × Outcome α) (k : Heap → α → Heap × Outcome β)
    (he : SameButCaches h e.1) (hk : ∀ h1 a, SameButCaches h1 (k h1 a).1) :
    SameButCaches h (match e with
      | (h1, .ok a) => k h1 a
      | (h1, .err x) => (h1, .err x)
      | (h1, .panic s) => (h1, .panic s)).1 := by
  obtain ⟨h1, o⟩ := e
  cases o with
  | ok a => exact he.trans (hk h1 a)
  | err x => exact he
  | panic s => exact he

theorem foldH_same' {α β : Type} (f : Heap → α → β → Heap × Outcome β)
    (xs : List α) (h : Heap) (acc : β) (r : Heap × Outcome β) (heq : foldH f h xs acc = r)
    (hf : ∀ h x acc, SameButCaches h (f h x acc).1) : SameButCaches h r.1 :=
  heq ▸ foldH_same f hf xs h acc

theorem unpack_frame : ∀ (fuel : Nat) (h : Heap) (n : Id), SameButCaches h (h.unpack fuel n).1
  | 0, h, n => by unfold Heap.unpack; exact SameButCaches.refl h
  | fuel+1, h, n => by
    unfold Heap.unpack
    split
    · exact SameButCaches.refl h
    · have := getNumeric_frame h (some n)
      split <;> (rename_i heq; rw [heq] at this; exact this)
    · have := getString_frame h (some n)
      split <;> (rename_i heq; rw [heq] at this; exact this)
    · have := getBool_frame h (some n)
      split <;> (rename_i heq; rw [heq] at this; exact this)
    · split
      · exact SameButCaches.refl h
      · exact SameButCaches.refl h
      · split <;> (rename_i heq; have key := foldH_same' _ _ _ _ _ heq; exact key (by intro h' c acc; have ih := unpack_frame fuel h' c; split <;> (rename_i heq'; rw [heq'] at ih; exact ih)))
    · split <;> (rename_i heq; have key := foldH_same' _ _ _ _ _ heq; exact key (by intro h' p acc; have ih := unpack_frame fuel h' p.2; split <;> (rename_i heq'; rw [heq'] at ih; exact ih)))

theorem marshal_frame (fmtF : UInt64 → Option Bytes) : ∀ (fuel : Nat) (h : Heap) (n : Id), SameButCaches h (h.marshal fmtF fuel n).1
  | 0, h, n => by unfold Heap.marshal; exact SameButCaches.refl h
  | fuel+1, h, n => by
    unfold Heap.marshal
    simp only []
    split
    · split
      · exact SameButCaches.refl h
      · have := getNumeric_frame h (some n)
        split
        · rename_i heq; rw [heq] at this
          split
          · exact this
          · split <;> exact this
        · rename_i heq; rw [heq] at this; exact this
        · rename_i heq; rw [heq] at this; exact this
      · have := getString_frame h (some n)
        split <;> (rename_i heq; rw [heq] at this; exact this)
      · have := getBool_frame h (some n)
        split <;> (rename_i heq; rw [heq] at this; exact this)
      · split <;> (rename_i heq; have key := foldH_same' _ _ _ _ _ heq; exact key (by
          intro h' i acc
          split
          · exact SameButCaches.refl h'
          · rename_i c _
            have ih := marshal_frame fmtF fuel h' c
            split <;> (rename_i heq'; rw [heq'] at ih; exact ih)))
      · split <;> (rename_i heq; have key := foldH_same' _ _ _ _ _ heq; exact key (by
          intro h' p acc
          have ih := marshal_frame fmtF fuel h' p.2
          split <;> (rename_i heq'; rw [heq'] at ih; exact ih)))
    · split <;> exact SameButCaches.refl h

theorem toStringN_frame (fmtF : UInt64 → Option Bytes) (h : Heap) (n : Id) : SameButCaches h (h.toStringN fmtF n).1 := by
  unfold Heap.toStringN
  simp only []
  split
  · exact SameButCaches.refl h
  · have := marshal_frame fmtF h.size h n
    split <;> (rename_i heq; rw [heq] at this; exact this)

theorem eqList_same (f : Heap → Id → Id → Heap × Outcome Bool) (hf : ∀ h x y, SameButCaches h (f h x y).1) :
    ∀ (xs ys : List Id) (h : Heap), SameButCaches h (eqList f h xs ys).1 := by
  intro xs
  induction xs with
  | nil => intro ys h; unfold eqList; exact SameButCaches.refl h
  | cons x xs ih =>
    intro ys h
    cases ys with
    | nil => unfold eqList; exact SameButCaches.refl h
    | cons y ys =>
      unfold eqList
      have h1 := hf h x y
      split
      · rename_i heq; rw [heq] at h1; exact h1.trans (ih _ _)
      · rename_i heq _; exact h1

theorem eqMembers_same (f : Heap → Id → Id → Heap × Outcome Bool) (ys : ChildMap) (hf : ∀ h x y, SameButCaches h (f h x y).1) :
    ∀ (xs : List (Bytes × Id)) (h : Heap), SameButCaches h (eqMembers f ys h xs).1 := by
  intro xs
  induction xs with
  | nil => intro h; unfold eqMembers; exact SameButCaches.refl h
  | cons p xs ih =>
    intro h
    obtain ⟨k, x⟩ := p
    unfold eqMembers
    split
    · exact SameButCaches.refl h
    · rename_i y _
      have h1 := hf h x y
      split
      · rename_i heq; rw [heq] at h1; exact h1.trans (ih _)
      · exact h1

theorem liftErr_same {α β : Type} (h : Heap) (e : Heap × Outcome α) (k : Heap → α → Heap × Outcome β)
    (he : SameButCaches h e.1) (hk : ∀ h1 a, SameButCaches h1 (k h1 a).1) : SameButCaches h (liftErr e k).1 := by
  obtain ⟨h1, o⟩ := e
  cases o with
  | ok a => exact he.trans (hk h1 a)
  | err x => exact he
  | panic s => exact he

theorem eqN_frame : ∀ (fuel : Nat) (h : Heap) (a b : Option Id), SameButCaches h (h.eqN fuel a b).1
  | 0, h, a, b => by unfold Heap.eqN; exact SameButCaches.refl h
  | fuel+1, h, a, b => by
    unfold Heap.eqN
    split
    · rename_i a b
      split
      · exact SameButCaches.refl h
      · split
        · exact liftErr_same _ _ _ (getBool_frame h _) (fun h1 x => liftErr_same _ _ _ (getBool_frame h1 _) (fun h2 y => SameButCaches.refl h2))
        · exact liftErr_same _ _ _ (getNumeric_frame h _) (fun h1 x => liftErr_same _ _ _ (getNumeric_frame h1 _) (fun h2 y => SameButCaches.refl h2))
        · exact liftErr_same _ _ _ (getString_frame h _) (fun h1 x => liftErr_same _ _ _ (getString_frame h1 _) (fun h2 y => SameButCaches.refl h2))
        · exact SameButCaches.refl h
        · refine liftErr_same _ _ _ (getArray_frame h _) (fun h1 xs => liftErr_same _ _ _ (getArray_frame h1 _) (fun h2 ys => ?_))
          split
          · exact SameButCaches.refl h2
          · exact eqList_same _ (fun h' x y => eqN_frame fuel h' (some x) (some y)) _ _ _
        · refine liftErr_same _ _ _ (getObject_frame h _) (fun h1 xs => liftErr_same _ _ _ (getObject_frame h1 _) (fun h2 ys => ?_))
          split
          · exact SameButCaches.refl h2
          · exact eqMembers_same _ _ (fun h' x y => eqN_frame fuel h' (some x) (some y)) _ _
    · exact SameButCaches.refl h

theorem eq_frame (h : Heap) (a b : Option Id) : SameButCaches h (h.eq a b).1 := eqN_frame _ h a b

theorem neq_frame (h : Heap) (a b : Option Id) : SameButCaches h (h.neq a b).1 := by
  unfold Heap.neq
  have := eq_frame h a b
  split
  · rename_i heq; rw [heq] at this; exact this
  · exact this

theorem cmp_frame (o : Ord4) (h : Heap) (a b : Option Id) : SameButCaches h (h.cmp o a b).1 := by
  unfold Heap.cmp
  split
  · split
    · exact SameButCaches.refl h
    · split
      · exact liftErr_same _ _ _ (getNumeric_frame h _) (fun h1 x => liftErr_same _ _ _ (getNumeric_frame h1 _) (fun h2 y => SameButCaches.refl h2))
      · exact liftErr_same _ _ _ (getString_frame h _) (fun h1 x => liftErr_same _ _ _ (getString_frame h1 _) (fun h2 y => SameButCaches.refl h2))
      · exact SameButCaches.refl h
  · exact SameButCaches.refl h

end Heap
end Ajson
