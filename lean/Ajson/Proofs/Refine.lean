/-
Refinement to plain data (C05, main clause): `absVal` is the JSON value a node denotes, read off the fields of its subtree (types,
scalar payloads, children maps — nothing else). Mutations are then statements about plain data: after `AppendArray(v)` the receiver
denotes its old elements followed by the value of `v`; after `AppendObject(k, v)` under a new key its old members followed by (k, value
of v); after a scalar setter the new scalar — and every node that is neither the receiver nor one of its ancestors denotes what it
denoted before.
-/
import Ajson.Proofs.ObjMove
import Ajson.Proofs.Frame
import Ajson.Proofs.CloneIso
import Ajson.Proofs.Datas
namespace Ajson.Proofs
open Ajson Ajson.Heap

/-- the payload of a scalar node: the cell when it is filled, else what the source span says -/
def scalarVal (h : Heap) (n : Id) : Option CacheVal :=
  match (h.getValue n).2 with
  | .ok (some v) => some v
  | _ => none

/-- the elements of an array node in index order (children are stored under their decimal index) -/
def arrayIds (m : ChildMap) : List Id := (List.range m.length).filterMap (fun i => m.lookup (itoa i))

/-- the plain data a node denotes; `none` when a number literal is out of range (the one permitted read error) or the fuel runs out -/
def absVal : Nat → Heap → Id → Option JVal
  | 0, _, _ => none
  | fuel+1, h, n =>
    match h.typeOf n with
    | .null => some .null
    | .numeric => match scalarVal h n with | some (.num b) => some (.num b) | _ => none
    | .string => match scalarVal h n with | some (.str s) => some (.str s) | _ => none
    | .bool => match scalarVal h n with | some (.bool b) => some (.bool b) | _ => none
    | .array => ((arrayIds (h.childMap n)).mapM (fun c => absVal fuel h c)).map JVal.arr
    | .object => ((h.childMap n).mapM (fun p => (absVal fuel h p.2).map (fun v => (p.1, v)))).map JVal.obj

theorem mapM_congr {α β : Type} (f g : α → Option β) : ∀ (l : List α), (∀ x ∈ l, f x = g x) → l.mapM f = l.mapM g
  | [], _ => rfl
  | x :: xs, h => by
    simp only [List.mapM_cons]
    rw [h x (by simp), mapM_congr f g xs (fun y hy => h y (by simp [hy]))]

theorem mem_arrayIds {m : ChildMap} {c : Id} (h : c ∈ arrayIds m) : c ∈ m.vals := by
  unfold arrayIds at h
  obtain ⟨i, _, hi⟩ := List.mem_filterMap.mp h
  exact List.mem_map.mpr ⟨(itoa i, c), mem_of_lookup hi, rfl⟩

/-- **what a node denotes depends only on the types, scalar payloads and children maps of its subtree**: two heaps that agree on
those for a set of nodes closed under children give every node of the set the same value -/
theorem absVal_congr (h h' : Heap) (P : Id → Prop)
    (hP : ∀ m, P m → h'.typeOf m = h.typeOf m ∧ ((h.typeOf m).isContainer = false → scalarVal h' m = scalarVal h m) ∧
      h'.childMap m = h.childMap m ∧ ∀ c ∈ (h.childMap m).vals, P c) :
    ∀ (fuel : Nat) (n : Id), P n → absVal fuel h' n = absVal fuel h n
  | 0, _, _ => rfl
  | fuel+1, n, hn => by
    obtain ⟨t, s, c, k⟩ := hP n hn
    unfold absVal
    rw [t]
    cases ht : h.typeOf n with
    | null => rfl
    | numeric => simp only []; rw [s (by rw [ht]; rfl)]
    | string => simp only []; rw [s (by rw [ht]; rfl)]
    | bool => simp only []; rw [s (by rw [ht]; rfl)]
    | array =>
      simp only []
      rw [c, mapM_congr _ (fun c => absVal fuel h c) _ (fun x hx => absVal_congr h h' P hP fuel x (k x (mem_arrayIds hx)))]
    | object =>
      simp only []
      rw [c, mapM_congr _ (fun p => (absVal fuel h p.2).map (fun v => (p.1, v))) _ (fun p hp => by
        rw [absVal_congr h h' P hP fuel p.2 (k p.2 (List.mem_map.mpr ⟨p, hp, rfl⟩))])]

/-- the payload of a scalar is a function of its own record (without the links) and the buffers -/
theorem scalarVal_congr (h h' : Heap) (n : Id) (hd : h'.datas = h.datas) (hr : EqModLinks (h'.get n) (h.get n))
    (hsc : (h.get n).type.isContainer = false) : scalarVal h' n = scalarVal h n := by
  obtain ⟨e1, e2, e3, e4, e5, e6, e7⟩ := hr
  have hsrc : h'.source n = h.source n := by unfold Heap.source; simp only [e2, e3, e4, e5, hd]
  unfold scalarVal Heap.getValue
  simp only [e7, e1, hsrc, e6, e2, e3, hd]
  cases (h.get n).cache with
  | some v => rfl
  | none =>
    simp only []
    cases ht : (h.get n).type with
    | null => rfl
    | numeric => cases parseFloat64 ((h.source n).getD []) <;> rfl
    | string =>
      cases unquoteBytes ((h.source n).getD []) (UInt8.ofNat Gen.b_quotes) with
      | some s => rfl
      | none =>
        simp only []
        cases (h.get n).data with
        | none => rfl
        | some d => simp only []; cases (h.datas.getD d [])[(h.get n).b0]? <;> rfl
    | bool => cases (h.source n).getD [] <;> rfl
    | array => simp [ht, NType.isContainer] at hsc
    | object => simp [ht, NType.isContainer] at hsc

/-! ### AppendArray of a detached node -/

/-- the heap after an accepted AppendArray of a detached node, explicitly -/
theorem appendArray_detached_eq {h : Heap} (hs : Struct h) (n value : Nat) (hn : n < h.size)
    (harr : (h.get n).type = .array) (hloop : h.isParentOrSelfNode n value = false) (hroot : (h.get value).parent = none) :
    h.appendArray n [value] = ((attachArr h n value).mark n, .ok ()) := by
  have hvn : value ≠ n := by
    intro e; subst e
    simp [isParentOrSelfNode] at hloop
  have hia : h.isArray n = true := by simp [isArray, typeOf, harr]
  obtain ⟨m, hm⟩ := Option.isSome_iff_exists.mp (by have := (hs n hn).shape; rw [harr] at this; simpa [NType.isContainer] using this)
  have hlen : m.length = (h.childMap n).length := by unfold childMap; rw [hm]; rfl
  have e : h.appendNode n none value = (attachArr h n value, .ok ()) := by
    unfold Heap.appendNode
    simp only [hloop, Bool.false_eq_true, if_false, hroot]
    have hch3 : (((h.modify value (fun r => { r with parent := some n, key := none })).modify n (fun r => { r with cache := none })).get n).children
        = some m := by
      rw [get_modify]; simp only [size_modify, hn, and_self, if_true]
      rw [get_modify_other _ _ _ _ (Ne.symm hvn)]; exact hm
    simp only [hch3]
    unfold attachArr
    rw [hlen]
    congr 1
    apply modify_congr
    have : (((((h.modify value (fun r => { r with parent := some n, key := none })).modify n (fun r => { r with cache := none })).modify value
        (fun r => { r with index := some (h.childMap n).length })).get n).children) = some m := by
      rw [get_modify_other _ _ _ _ (Ne.symm hvn)]; exact hch3
    simp only [this, Option.getD_some]
  have hany : ([value].any (fun c => h.isParentOrSelfNode n c)) = false := by simp [hloop]
  unfold Heap.appendArray
  simp only [hia, Bool.not_true, Bool.false_eq_true, if_false, hany, List.map_cons, List.map_nil, Heap.appendAll, e]

/-- a child of a node that is off the ancestor chain of `n` is off that chain -/
theorem offChain_kids {h : Heap} (hs : Struct h) (n m : Id) (hoff : ¬ Anc h m n) : ∀ c ∈ (h.childMap m).vals, ¬ Anc h c n := by
  intro c hc
  by_cases hm : (m : Nat) < h.size
  · obtain ⟨kc, hkc, he⟩ := List.mem_map.mp hc
    have hp := ((hs m hm).kids kc hkc).2.2.1
    rw [he] at hp
    rintro ⟨k, hk⟩
    exact hoff ⟨k + 1, by simp only [up, hk]; exact hp⟩
  · have : h.childMap m = [] := by unfold childMap; rw [get_default h m (Nat.le_of_not_lt hm)]; rfl
    rw [this] at hc; cases hc

theorem filterMap_congr' {α β : Type} (f g : α → Option β) : ∀ (l : List α), (∀ x ∈ l, f x = g x) → l.filterMap f = l.filterMap g
  | [], _ => rfl
  | x :: xs, h => by
    simp only [List.filterMap_cons]
    rw [h x (by simp), filterMap_congr' f g xs (fun y hy => h y (by simp [hy]))]

/-- the elements of an array after one more is stored under the next index -/
theorem arrayIds_append_next (m : ChildMap) (v : Id) (hdense : ∀ i : Nat, i < m.length → (m.lookup (itoa i)).isSome = true) :
    arrayIds (m ++ [(itoa m.length, v)]) = arrayIds m ++ [v] := by
  unfold arrayIds
  have hfresh := array_next_fresh m hdense
  simp only [List.length_append, List.length_cons, List.length_nil, List.range_succ, List.filterMap_append, List.filterMap_cons, List.filterMap_nil]
  have h1 : (List.range m.length).filterMap (fun i => ChildMap.lookup (m ++ [(itoa m.length, v)]) (itoa i)) =
      (List.range m.length).filterMap (fun i => m.lookup (itoa i)) := by
    apply filterMap_congr'
    intro i hi
    have hi' : i < m.length := List.mem_range.mp hi
    rw [lookup_append_single]
    obtain ⟨x, hx⟩ := Option.isSome_iff_exists.mp (hdense i hi')
    rw [hx]
  have h2 : ChildMap.lookup (m ++ [(itoa m.length, v)]) (itoa m.length) = some v := by
    rw [lookup_append_single, hfresh]; simp
  rw [h1, h2]

theorem mapM_append_single {α β : Type} (f : α → Option β) (l : List α) (a : α) (ys : List β) (y : β)
    (hl : l.mapM f = some ys) (ha : f a = some y) : (l ++ [a]).mapM f = some (ys ++ [y]) := by
  induction l generalizing ys with
  | nil =>
    simp only [List.mapM_nil] at hl
    cases hl
    simp [List.mapM_cons, ha]
  | cons x xs ih =>
    simp only [List.cons_append, List.mapM_cons] at hl ⊢
    cases hx : f x with
    | none => rw [hx] at hl; simp at hl
    | some z =>
      rw [hx] at hl
      cases hxs : xs.mapM f with
      | none => rw [hxs] at hl; simp at hl
      | some zs =>
        rw [hxs] at hl
        simp at hl
        subst hl
        rw [ih zs hxs]
        simp

/-- **AppendArray is "append" on plain data**: after an accepted `AppendArray(v)` of a detached node, the receiver denotes its old
elements followed by the value of `v`, and every node that is neither the receiver nor one of its ancestors (all other documents,
detached subtrees, the siblings, `v` itself and everything below them) denotes exactly what it denoted before -/
theorem appendArray_refines {h : Heap} (hs : Struct h) (ha : Acyc h) (n v : Nat) (hn : n < h.size) (hv : v < h.size)
    (harr : (h.get n).type = .array) (hloop : h.isParentOrSelfNode n v = false) (hroot : (h.get v).parent = none) (fuel : Nat) :
    (∀ m : Id, ¬ Anc h m n → absVal fuel (h.appendArray n [v]).1 m = absVal fuel h m) ∧
    (∀ xs x, absVal (fuel + 1) h n = some (.arr xs) → absVal fuel h v = some x →
      absVal (fuel + 1) (h.appendArray n [v]).1 n = some (.arr (xs ++ [x]))) := by
  have hno : ¬ Anc h v n := by
    intro hc
    have := (loop_guard_exact hs.pir ha n hn v).mpr hc
    rw [hloop] at this; cases this
  have hvn : (v : Id) ≠ n := by intro e; exact hno (e ▸ Anc.refl' h _)
  rw [appendArray_detached_eq hs n v hn harr hloop hroot]
  simp only []
  -- the ancestor chain of n is the same in the intermediate heap
  have hupA : ∀ k, up (attachArr h n v) n k = up h n k := by
    intro k
    induction k with
    | zero => rfl
    | succ k ih =>
      simp only [up, ih]
      cases hx : up h n k with
      | none => rfl
      | some x =>
        simp only []
        have hxv : x ≠ v := by intro e; exact hno ⟨k, e ▸ hx⟩
        unfold attachArr
        refine (modify_parent_same _ _ _ _ ?_).trans ?_
        · exact fun _ => rfl
        rw [get_modify_other _ _ _ _ hxv]
        refine (modify_parent_same _ _ _ _ ?_).trans ?_
        · exact fun _ => rfl
        rw [get_modify_other _ _ _ _ hxv]
  have hancA : ∀ m : Id, Anc (attachArr h n v) m n → Anc h m n := fun m ⟨k, hk⟩ => ⟨k, by rw [← hupA k]; exact hk⟩
  -- records off the chain
  have hrec : ∀ m : Id, ¬ Anc h m n → EqModLinks (((attachArr h n v).mark n).get m) (h.get m) := by
    intro m hm
    rw [mark_frame _ n m (fun hc => hm (hancA m hc))]
    have hmn : m ≠ n := by intro e; exact hm (e ▸ Anc.refl' h _)
    unfold attachArr
    rw [get_modify_other _ _ _ _ hmn]
    by_cases hmv : m = v
    · subst hmv
      rw [get_modify]
      split
      · rw [get_modify_other _ _ _ _ hmn, get_modify]
        split
        · exact ⟨rfl, rfl, rfl, rfl, rfl, rfl, rfl⟩
        · exact ⟨rfl, rfl, rfl, rfl, rfl, rfl, rfl⟩
      · rw [get_modify_other _ _ _ _ hmn, get_modify]
        split
        · exact ⟨rfl, rfl, rfl, rfl, rfl, rfl, rfl⟩
        · exact ⟨rfl, rfl, rfl, rfl, rfl, rfl, rfl⟩
    · rw [get_modify_other _ _ _ _ hmv, get_modify_other _ _ _ _ hmn, get_modify_other _ _ _ _ hmv]
      exact ⟨rfl, rfl, rfl, rfl, rfl, rfl, rfl⟩
  have hdat : ((attachArr h n v).mark n).datas = h.datas := by simp [attachArr]
  have frame : ∀ m : Id, ¬ Anc h m n → absVal fuel ((attachArr h n v).mark n) m = absVal fuel h m := by
    intro m hm
    apply absVal_congr h _ (fun m => ¬ Anc h m n) _ fuel m hm
    intro x hx
    have r := hrec x hx
    refine ⟨by unfold Heap.typeOf; rw [r.1], fun hsc => scalarVal_congr h _ x hdat r (by unfold Heap.typeOf at hsc; exact hsc), ?_, offChain_kids hs n x hx⟩
    unfold childMap; rw [r.2.2.2.2.2.1]
  refine ⟨frame, ?_⟩
  intro xs x hxs hx
  -- the receiver
  have okn := hs n hn
  have htyn : ((attachArr h n v).mark n).typeOf n = .array := by
    unfold Heap.typeOf
    have e2 := mark_proj stable_type (attachArr h n v) n n
    rw [e2]
    unfold attachArr
    rw [get_modify]; simp only [size_modify, hn, and_self, if_true]
    rw [get_modify_other _ _ _ _ (Ne.symm hvn), get_modify]
    simp only [size_modify, hn, and_self, if_true]
    rw [get_modify_other _ _ _ _ (Ne.symm hvn)]
    exact harr
  have hcmn : ((attachArr h n v).mark n).childMap n = h.childMap n ++ [(itoa (h.childMap n).length, v)] := by
    have e1 : ((attachArr h n v).mark n).childMap n = (attachArr h n v).childMap n := by
      unfold childMap
      rcases mark_get (attachArr h n v) n n with e | e <;> rw [e]
    rw [e1]
    unfold childMap attachArr
    rw [get_modify]; simp only [size_modify, hn, and_self, if_true, Option.getD_some]
    rw [get_modify_other _ _ _ _ (Ne.symm hvn), get_modify]
    simp only [size_modify, hn, and_self, if_true]
    rw [get_modify_other _ _ _ _ (Ne.symm hvn)]
    exact insert_fresh _ _ _ (array_next_fresh _ (okn.dense harr))
  have hold : (arrayIds (h.childMap n)).mapM (fun c => absVal fuel h c) = some xs := by
    unfold absVal at hxs
    have : h.typeOf n = .array := harr
    rw [this] at hxs
    simp only [] at hxs
    cases hm : (arrayIds (h.childMap n)).mapM (fun c => absVal fuel h c) with
    | none => rw [hm] at hxs; simp at hxs
    | some ys => rw [hm] at hxs; simp at hxs; rw [hxs]
  unfold absVal
  rw [htyn]
  simp only []
  rw [hcmn, arrayIds_append_next _ _ (okn.dense harr)]
  have hkids : (arrayIds (h.childMap n)).mapM (fun c => absVal fuel ((attachArr h n v).mark n) c) = some xs := by
    rw [mapM_congr _ (fun c => absVal fuel h c) _ (fun c hc => ?_)]
    · exact hold
    · apply frame
      -- a child of n is not above n
      obtain ⟨kc, hkc, he⟩ := List.mem_map.mp (mem_arrayIds hc)
      obtain ⟨_, _, hp, _⟩ := okn.kids kc hkc
      rw [he] at hp
      rintro ⟨k, hk⟩
      exact ha c k (by rw [up_succ_of_parent hp]; exact hk)
  rw [mapM_append_single _ _ _ xs x hkids (by rw [frame v hno]; exact hx)]
  rfl

/-! ### the scalar setters -/

/-- the cell a scalar request fills, and the plain value it stores -/
def cellOf : SetVal → Option CacheVal
  | .num b => some (.num b)
  | .str s => some (.str s)
  | .bool b => some (.bool b)
  | _ => none

def plainOf : SetVal → Option JVal
  | .null => some .null
  | .num b => some (.num b)
  | .str s => some (.str s)
  | .bool b => some (.bool b)
  | _ => none

/-- the heap after a scalar setter, explicitly -/
theorem update_scalar_eq (h : Heap) (n : Nat) (hn : n < h.size) (v : SetVal) (hv : v.type.isContainer = false) :
    (h.update (some n) v).1 = setScalar (h.mark n) n v.type (cellOf v) := by
  cases v with
  | null =>
    have e : h.update (some n) .null = (setScalar (h.mark n) n .null none, .ok ()) := by
      simp only [Heap.update, Heap.validate, setScalar, SetVal.type]
      congr 1
      symm
      apply modify_same
      rw [get_modify]; simp
      split <;> rfl
    rw [e]; rfl
  | num b => simp only [Heap.update, Heap.validate, setScalar, SetVal.type, cellOf]
  | str s => simp only [Heap.update, Heap.validate, setScalar, SetVal.type, cellOf]
  | bool b => simp only [Heap.update, Heap.validate, setScalar, SetVal.type, cellOf]
  | arr ids => simp [SetVal.type, NType.isContainer] at hv
  | obj kv => simp [SetVal.type, NType.isContainer] at hv

/-- **SetNull / SetNumeric / SetString / SetBool are assignments on plain data**: afterwards the receiver denotes the new scalar, and
every node that is neither the receiver nor one of its ancestors — its former children included, which are detached — denotes what it
denoted before -/
theorem update_scalar_refines {h : Heap} (hs : Struct h) (n : Nat) (hn : n < h.size) (v : SetVal) (hv : v.type.isContainer = false)
    (fuel : Nat) :
    (∀ m : Id, ¬ Anc h m n → absVal fuel (h.update (some n) v).1 m = absVal fuel h m) ∧
    absVal (fuel + 1) (h.update (some n) v).1 n = plainOf v := by
  rw [update_scalar_eq h n hn v hv]
  generalize hc : cellOf v = c
  have hm := hs.mark n hn
  have hszm : n < (h.mark n).size := by rw [hm.2.1]; exact hn
  have hnk : (n : Id) ∉ ((h.mark n).childMap n).vals := by
    intro hx
    obtain ⟨kc, hkc, he⟩ := List.mem_map.mp hx
    exact ((hm.1 n hszm).kids kc hkc).2.1 he
  obtain ⟨s1, s2, _, _, _, _, _⟩ := setScalar_self (h.mark n) n v.type c hszm hnk
  have hrec : ∀ m : Id, ¬ Anc h m n → EqModLinks ((setScalar (h.mark n) n v.type c).get m) (h.get m) := by
    intro m hmo
    have hmn : m ≠ n := by intro e'; exact hmo (e' ▸ Anc.refl' h _)
    rw [setScalar_other _ _ _ _ m hmn, mark_frame h n m hmo]
    split
    · exact ⟨rfl, rfl, rfl, rfl, rfl, rfl, rfl⟩
    · exact ⟨rfl, rfl, rfl, rfl, rfl, rfl, rfl⟩
  have hdat : (setScalar (h.mark n) n v.type c).datas = h.datas := by simp [setScalar]
  refine ⟨?_, ?_⟩
  · intro m hmo
    apply absVal_congr h _ (fun m => ¬ Anc h m n) _ fuel m hmo
    intro x hx
    have r := hrec x hx
    refine ⟨by unfold Heap.typeOf; rw [r.1], fun hsc => scalarVal_congr h _ x hdat r (by unfold Heap.typeOf at hsc; exact hsc), ?_, offChain_kids hs n x hx⟩
    unfold childMap; rw [r.2.2.2.2.2.1]
  · have hsv : scalarVal (setScalar (h.mark n) n v.type c) n = c := by
      unfold scalarVal Heap.getValue
      simp only [s2, s1]
      cases v with
      | null => simp only [cellOf] at hc; subst hc; rfl
      | num b => simp only [cellOf] at hc; subst hc; rfl
      | str s => simp only [cellOf] at hc; subst hc; rfl
      | bool b => simp only [cellOf] at hc; subst hc; rfl
      | arr ids => simp [SetVal.type, NType.isContainer] at hv
      | obj kv => simp [SetVal.type, NType.isContainer] at hv
    unfold absVal
    have hty : (setScalar (h.mark n) n v.type c).typeOf n = v.type := s1
    rw [hty]
    cases v with
    | null => rfl
    | num b => simp only [cellOf] at hc; subst hc; simp only [SetVal.type] at hsv ⊢; rw [hsv]; rfl
    | str s => simp only [cellOf] at hc; subst hc; simp only [SetVal.type] at hsv ⊢; rw [hsv]; rfl
    | bool b => simp only [cellOf] at hc; subst hc; simp only [SetVal.type] at hsv ⊢; rw [hsv]; rfl
    | arr ids => simp [SetVal.type, NType.isContainer] at hv
    | obj kv => simp [SetVal.type, NType.isContainer] at hv

/-! ### AppendObject of a detached node under a new key -/

theorem appendObject_fresh_eq {h : Heap} (hs : Struct h) (n value : Nat) (hn : n < h.size)
    (hobj : (h.get n).type = .object) (hloop : h.isParentOrSelfNode n value = false) (hroot : (h.get value).parent = none)
    (k : Bytes) (hfresh : (h.childMap n).lookup k = none) :
    h.appendObject n k value = ((attachObj h n value k).mark n, .ok ()) := by
  have hvn : value ≠ n := by
    intro e; subst e
    simp [isParentOrSelfNode] at hloop
  have hio : h.isObject n = true := by simp [isObject, typeOf, hobj]
  obtain ⟨m, hm⟩ := Option.isSome_iff_exists.mp (by have := (hs n hn).shape; rw [hobj] at this; simpa [NType.isContainer] using this)
  have e : h.appendNode n (some k) value = (attachObj h n value k, .ok ()) := by
    unfold Heap.appendNode
    simp only [hloop, Bool.false_eq_true, if_false, hroot]
    have hcm3 : ((h.modify value (fun r => { r with parent := some n, key := some k })).modify n (fun r => { r with cache := none })).childMap n
        = h.childMap n := by
      unfold childMap
      rw [get_modify]; simp only [size_modify, hn, and_self, if_true]
      rw [get_modify_other _ _ _ _ (Ne.symm hvn)]
    have hch3 : (((h.modify value (fun r => { r with parent := some n, key := some k })).modify n (fun r => { r with cache := none })).get n).children
        = some m := by
      rw [get_modify]; simp only [size_modify, hn, and_self, if_true]
      rw [get_modify_other _ _ _ _ (Ne.symm hvn)]; exact hm
    simp only [hcm3, hfresh, hch3]
    unfold attachObj
    congr 1
    apply modify_congr
    simp only [hch3, Option.getD_some]
  unfold Heap.appendObject
  simp only [hio, Bool.not_true, Bool.false_eq_true, if_false, e]

/-- **AppendObject under a new key is "add a member" on plain data**: afterwards the receiver denotes its old members followed by
(k, value of v), and every node that is neither the receiver nor one of its ancestors denotes what it denoted before -/
theorem appendObject_refines {h : Heap} (hs : Struct h) (ha : Acyc h) (n v : Nat) (hn : n < h.size) (hv : v < h.size)
    (hobj : (h.get n).type = .object) (hloop : h.isParentOrSelfNode n v = false) (hroot : (h.get v).parent = none)
    (k : Bytes) (hfresh : (h.childMap n).lookup k = none) (fuel : Nat) :
    (∀ m : Id, ¬ Anc h m n → absVal fuel (h.appendObject n k v).1 m = absVal fuel h m) ∧
    (∀ kvs x, absVal (fuel + 1) h n = some (.obj kvs) → absVal fuel h v = some x →
      absVal (fuel + 1) (h.appendObject n k v).1 n = some (.obj (kvs ++ [(k, x)]))) := by
  have hno : ¬ Anc h v n := by
    intro hc
    have := (loop_guard_exact hs.pir ha n hn v).mpr hc
    rw [hloop] at this; cases this
  have hvn : (v : Id) ≠ n := by intro e; exact hno (e ▸ Anc.refl' h _)
  rw [appendObject_fresh_eq hs n v hn hobj hloop hroot k hfresh]
  simp only []
  have hupA : ∀ j, up (attachObj h n v k) n j = up h n j := by
    intro j
    induction j with
    | zero => rfl
    | succ j ih =>
      simp only [up, ih]
      cases hx : up h n j with
      | none => rfl
      | some x =>
        simp only []
        have hxv : x ≠ v := by intro e; exact hno ⟨j, e ▸ hx⟩
        unfold attachObj
        refine (modify_parent_same _ _ _ _ ?_).trans ?_
        · exact fun _ => rfl
        refine (modify_parent_same _ _ _ _ ?_).trans ?_
        · exact fun _ => rfl
        rw [get_modify_other _ _ _ _ hxv]
  have hancA : ∀ m : Id, Anc (attachObj h n v k) m n → Anc h m n := fun m ⟨j, hj⟩ => ⟨j, by rw [← hupA j]; exact hj⟩
  have hrec : ∀ m : Id, ¬ Anc h m n → EqModLinks (((attachObj h n v k).mark n).get m) (h.get m) := by
    intro m hm
    rw [mark_frame _ n m (fun hc => hm (hancA m hc))]
    have hmn : m ≠ n := by intro e; exact hm (e ▸ Anc.refl' h _)
    unfold attachObj
    rw [get_modify_other _ _ _ _ hmn, get_modify_other _ _ _ _ hmn]
    rw [get_modify]
    split
    · rename_i hc; rw [hc.1]; exact ⟨rfl, rfl, rfl, rfl, rfl, rfl, rfl⟩
    · exact ⟨rfl, rfl, rfl, rfl, rfl, rfl, rfl⟩
  have hdat : ((attachObj h n v k).mark n).datas = h.datas := by simp [attachObj]
  have frame : ∀ m : Id, ¬ Anc h m n → absVal fuel ((attachObj h n v k).mark n) m = absVal fuel h m := by
    intro m hm
    apply absVal_congr h _ (fun m => ¬ Anc h m n) _ fuel m hm
    intro x hx
    have r := hrec x hx
    refine ⟨by unfold Heap.typeOf; rw [r.1], fun hsc => scalarVal_congr h _ x hdat r (by unfold Heap.typeOf at hsc; exact hsc), ?_, offChain_kids hs n x hx⟩
    unfold childMap; rw [r.2.2.2.2.2.1]
  refine ⟨frame, ?_⟩
  intro kvs x hkvs hx
  have okn := hs n hn
  have htyn : ((attachObj h n v k).mark n).typeOf n = .object := by
    unfold Heap.typeOf
    have e2 := mark_proj stable_type (attachObj h n v k) n n
    rw [e2]
    unfold attachObj
    rw [get_modify]; simp only [size_modify, hn, and_self, if_true]
    rw [get_modify]; simp only [size_modify, hn, and_self, if_true]
    rw [get_modify_other _ _ _ _ (Ne.symm hvn)]
    exact hobj
  have hcmn : ((attachObj h n v k).mark n).childMap n = h.childMap n ++ [(k, v)] := by
    have e1 : ((attachObj h n v k).mark n).childMap n = (attachObj h n v k).childMap n := by
      unfold childMap
      rcases mark_get (attachObj h n v k) n n with e | e <;> rw [e]
    rw [e1]
    unfold childMap attachObj
    rw [get_modify]; simp only [size_modify, hn, and_self, if_true, Option.getD_some]
    rw [get_modify]; simp only [size_modify, hn, and_self, if_true]
    rw [get_modify_other _ _ _ _ (Ne.symm hvn)]
    exact insert_fresh _ _ _ hfresh
  have hold : (h.childMap n).mapM (fun p => (absVal fuel h p.2).map (fun v => (p.1, v))) = some kvs := by
    unfold absVal at hkvs
    have : h.typeOf n = .object := hobj
    rw [this] at hkvs
    simp only [] at hkvs
    cases hm : (h.childMap n).mapM (fun p => (absVal fuel h p.2).map (fun v => (p.1, v))) with
    | none => rw [hm] at hkvs; simp at hkvs
    | some ys => rw [hm] at hkvs; simp at hkvs; rw [hkvs]
  unfold absVal
  rw [htyn]
  simp only []
  rw [hcmn]
  have hkids : (h.childMap n).mapM (fun p => (absVal fuel ((attachObj h n v k).mark n) p.2).map (fun w => (p.1, w))) = some kvs := by
    rw [mapM_congr _ (fun p => (absVal fuel h p.2).map (fun w => (p.1, w))) _ (fun p hp => ?_)]
    · exact hold
    · rw [frame]
      obtain ⟨_, _, hpar, _⟩ := okn.kids p hp
      rintro ⟨j, hj⟩
      exact ha p.2 j (by rw [up_succ_of_parent hpar]; exact hj)
  rw [mapM_append_single _ _ _ kvs (k, x) hkids (by simp only []; rw [frame v hno, hx]; rfl)]
  rfl

/-! ### `absVal` is what the accessors say, node by node -/

/-- a scalar node denotes exactly what its typed getter answers -/
theorem absVal_scalar_is_getter (fuel : Nat) (h : Heap) (n : Id) :
    (h.typeOf n = .numeric → ∀ b, absVal (fuel + 1) h n = some (.num b) ↔ (h.getNumeric (some n)).2 = .ok b) ∧
    (h.typeOf n = .string → ∀ s, absVal (fuel + 1) h n = some (.str s) ↔ (h.getString (some n)).2 = .ok s) ∧
    (h.typeOf n = .bool → ∀ b, absVal (fuel + 1) h n = some (.bool b) ↔ (h.getBool (some n)).2 = .ok b) ∧
    (h.typeOf n = .null → absVal (fuel + 1) h n = some .null ∧ h.getNull (some n) = .ok ()) := by
  refine ⟨fun ht b => ?_, fun ht s => ?_, fun ht b => ?_, fun ht => ?_⟩
  · unfold absVal scalarVal Heap.getNumeric
    simp only [ht, bne_self_eq_false, Bool.false_eq_true, if_false]
    cases h.getValue n with
    | mk h1 o =>
      cases o with
      | err e => simp
      | panic s => simp
      | ok v =>
        cases v with
        | none => simp
        | some c => cases c <;> simp
  · unfold absVal scalarVal Heap.getString
    simp only [ht, bne_self_eq_false, Bool.false_eq_true, if_false]
    cases h.getValue n with
    | mk h1 o =>
      cases o with
      | err e => simp
      | panic s => simp
      | ok v =>
        cases v with
        | none => simp
        | some c => cases c <;> simp
  · unfold absVal scalarVal Heap.getBool
    simp only [ht, bne_self_eq_false, Bool.false_eq_true, if_false]
    cases h.getValue n with
    | mk h1 o =>
      cases o with
      | err e => simp
      | panic s => simp
      | ok v =>
        cases v with
        | none => simp
        | some c => cases c <;> simp
  · unfold absVal Heap.getNull
    simp [ht]

/-- on a sound heap the elements `absVal` lists for an array are, position by position, what `GetIndex` returns -/
theorem arrayIds_is_getIndex {h : Heap} (hs : Struct h) (n : Nat) (hn : n < h.size) (harr : (h.get n).type = .array) (i : Nat)
    (hi : i < (h.childMap n).length) :
    ∃ c, (arrayIds (h.childMap n))[i]? = some c ∧ h.getIndex (some n) (i : Int) = .ok c ∧ (arrayIds (h.childMap n)).length = (h.childMap n).length := by
  have dense := (hs n hn).dense harr
  -- all lookups succeed, so the filterMap is a map
  have key : ∀ (k : Nat), k ≤ (h.childMap n).length →
      (List.range k).filterMap (fun j => (h.childMap n).lookup (itoa j)) = (List.range k).map (fun j => ((h.childMap n).lookup (itoa j)).getD 0) := by
    intro k hk
    induction k with
    | zero => rfl
    | succ k ih =>
      rw [List.range_succ, List.filterMap_append, List.map_append, ih (by omega)]
      obtain ⟨x, hx⟩ := Option.isSome_iff_exists.mp (dense k (by omega))
      simp [hx]
  obtain ⟨c, hc⟩ := Option.isSome_iff_exists.mp (dense i hi)
  refine ⟨c, ?_, ?_, ?_⟩
  · unfold arrayIds
    rw [key _ (Nat.le_refl _)]
    simp [hi, hc]
  · unfold Heap.getIndex
    have ht : h.typeOf n = .array := harr
    simp only [ht, bne_self_eq_false, Bool.false_eq_true, if_false]
    have h1 : ¬ ((i : Int) < 0) := by omega
    simp only [h1, if_false, Int.toNat_natCast, hc]
  · unfold arrayIds
    rw [key _ (Nat.le_refl _)]
    simp

/-- the members `absVal` lists for an object are exactly what `GetKey` finds -/
theorem members_is_getKey {h : Heap} (hs : Struct h) (n : Nat) (hn : n < h.size) (hobj : (h.get n).type = .object) (k : Bytes) (c : Id) :
    (k, c) ∈ h.childMap n ↔ h.getKey (some n) k = .ok c := by
  unfold Heap.getKey
  have ht : h.typeOf n = .object := hobj
  simp only [ht, bne_self_eq_false, Bool.false_eq_true, if_false]
  constructor
  · intro hm
    have := lookup_of_mem (hs n hn).nodup hm
    simp only [] at this
    rw [this]
  · intro hg
    cases hl : (h.childMap n).lookup k with
    | none => rw [hl] at hg; cases hg
    | some x =>
      rw [hl] at hg
      simp only [Outcome.ok.injEq] at hg
      subst hg
      exact mem_of_lookup hl

/-! ### DeleteKey / PopKey -/

theorem mapM_filter_members {γ : Type} (g : Bytes × γ → Option JVal) (q : Bytes → Bool) : ∀ (l : List (Bytes × γ)) (ys : List (Bytes × JVal)),
    l.mapM (fun p => (g p).map (fun v => (p.1, v))) = some ys →
    (l.filter (fun p => q p.1)).mapM (fun p => (g p).map (fun v => (p.1, v))) = some (ys.filter (fun y => q y.1))
  | [], ys, h => by simp only [List.mapM_nil] at h; cases h; rfl
  | p :: ps, ys, h => by
    simp only [List.mapM_cons] at h
    cases hp : g p with
    | none => rw [hp] at h; simp at h
    | some v =>
      rw [hp] at h
      cases hps : ps.mapM (fun p => (g p).map (fun v => (p.1, v))) with
      | none => rw [hps] at h; simp at h
      | some zs =>
        rw [hps] at h
        simp at h
        subst h
        have ih := mapM_filter_members g q ps zs hps
        by_cases hq : q p.1 = true
        · simp only [List.filter_cons, hq, if_true, List.mapM_cons, hp, ih]; rfl
        · have hq' : q p.1 = false := by cases hx : q p.1 <;> simp_all
          simp only [List.filter_cons, hq', Bool.false_eq_true, if_false, ih]

/-- **DeleteKey / PopKey is "remove the member" on plain data**: after an accepted deletion of the member under `k` the receiver
denotes its old members without that one, and every node that is neither the receiver nor one of its ancestors — the deleted member,
now detached, and everything below it included — denotes what it denoted before -/
theorem deleteKey_refines {h : Heap} (hs : Struct h) (ha : Acyc h) (n : Nat) (hn : n < h.size) (hobj : (h.get n).type = .object)
    (k : Bytes) (c : Id) (hl : (h.childMap n).lookup k = some c) (fuel : Nat) :
    (h.popKey (some n) k).2 = .ok c ∧
    (∀ m : Id, ¬ Anc h m n → absVal fuel (h.popKey (some n) k).1 m = absVal fuel h m) ∧
    (∀ kvs, absVal (fuel + 1) h n = some (.obj kvs) →
      absVal (fuel + 1) (h.popKey (some n) k).1 n = some (.obj (kvs.filter (fun y => !(y.1 == k))))) := by
  have okn := hs n hn
  obtain ⟨hc, hcn, hpc, hpos⟩ := okn.kids (k, c) (mem_of_lookup hl)
  have hkc : (h.get c).key = some k := by
    unfold PosOK at hpos
    rw [hobj] at hpos
    simpa using hpos
  have hg : h.getKey (some n) k = .ok c := by
    unfold Heap.getKey
    have ht : h.typeOf n = .object := hobj
    simp only [ht, bne_self_eq_false, Bool.false_eq_true, if_false, hl]
  have hrm := remove_object_eq h n c k hobj hpc hkc
  have hpop : h.popKey (some n) k = (detachObj ((h.mark n).modify n (fun r => { r with cache := none })) n c k, .ok c) := by
    unfold Heap.popKey
    simp only [hg, hrm]
  rw [hpop]
  simp only []
  refine ⟨trivial, ?_⟩
  have hrec : ∀ m : Id, ¬ Anc h m n →
      EqModLinks ((detachObj ((h.mark n).modify n (fun r => { r with cache := none })) n c k).get m) (h.get m) := by
    intro m hm
    have hmn : m ≠ n := by intro e; exact hm (e ▸ Anc.refl' h _)
    unfold detachObj
    rw [get_modify]
    split
    · rename_i hcc
      rw [get_modify_other _ _ _ _ (hcc.1 ▸ hmn), get_modify_other _ _ _ _ (hcc.1 ▸ hmn), ← hcc.1, mark_frame h n m hm]
      exact ⟨rfl, rfl, rfl, rfl, rfl, rfl, rfl⟩
    · rw [get_modify_other _ _ _ _ hmn, get_modify_other _ _ _ _ hmn, mark_frame h n m hm]
      exact ⟨rfl, rfl, rfl, rfl, rfl, rfl, rfl⟩
  have hdat : (detachObj ((h.mark n).modify n (fun r => { r with cache := none })) n c k).datas = h.datas := by simp [detachObj]
  have frame : ∀ m : Id, ¬ Anc h m n →
      absVal fuel (detachObj ((h.mark n).modify n (fun r => { r with cache := none })) n c k) m = absVal fuel h m := by
    intro m hm
    apply absVal_congr h _ (fun m => ¬ Anc h m n) _ fuel m hm
    intro x hx
    have r := hrec x hx
    refine ⟨by unfold Heap.typeOf; rw [r.1], fun hsc => scalarVal_congr h _ x hdat r (by unfold Heap.typeOf at hsc; exact hsc), ?_, offChain_kids hs n x hx⟩
    unfold childMap; rw [r.2.2.2.2.2.1]
  refine ⟨frame, ?_⟩
  intro kvs hkvs
  have hcmn : (detachObj ((h.mark n).modify n (fun r => { r with cache := none })) n c k).childMap n = (h.childMap n).erase k := by
    have := childMap_remove_object h n c k hn hobj hpc hkc hcn
    rw [hrm] at this
    exact this
  have htyn : (detachObj ((h.mark n).modify n (fun r => { r with cache := none })) n c k).typeOf n = .object := by
    have := (remove_proj stable_type h n c n).1
    rw [hrm] at this
    unfold Heap.typeOf
    simp only [] at this
    rw [this]; exact hobj
  have hold : (h.childMap n).mapM (fun p => (absVal fuel h p.2).map (fun v => (p.1, v))) = some kvs := by
    unfold absVal at hkvs
    have : h.typeOf n = .object := hobj
    rw [this] at hkvs
    simp only [] at hkvs
    cases hm : (h.childMap n).mapM (fun p => (absVal fuel h p.2).map (fun v => (p.1, v))) with
    | none => rw [hm] at hkvs; simp at hkvs
    | some ys => rw [hm] at hkvs; simp at hkvs; rw [hkvs]
  unfold absVal
  rw [htyn]
  simp only []
  rw [hcmn]
  unfold ChildMap.erase
  have hkids : ((h.childMap n).filter (fun p => !(p.1 == k))).mapM
      (fun p => (absVal fuel (detachObj ((h.mark n).modify n (fun r => { r with cache := none })) n c k) p.2).map (fun w => (p.1, w))) =
      ((h.childMap n).filter (fun p => !(p.1 == k))).mapM (fun p => (absVal fuel h p.2).map (fun w => (p.1, w))) := by
    apply mapM_congr
    intro p hp
    have hp' := (List.mem_filter.mp hp).1
    rw [frame]
    obtain ⟨_, _, hpar, _⟩ := okn.kids p hp'
    rintro ⟨j, hj⟩
    exact ha p.2 j (by rw [up_succ_of_parent hpar]; exact hj)
  rw [hkids, mapM_filter_members (fun p => absVal fuel h p.2) (fun key => !(key == k)) _ kvs hold]
  rfl

/-! ### AppendObject under an EXISTING key: the member is replaced -/

/-- `remove` of a member of an object, on plain data (the core of `deleteKey_refines`, stated for `remove` itself) -/
theorem removeObject_refines {h : Heap} (hs : Struct h) (ha : Acyc h) (n : Nat) (hn : n < h.size) (hobj : (h.get n).type = .object)
    (k : Bytes) (c : Id) (hl : (h.childMap n).lookup k = some c) (fuel : Nat) :
    (∀ m : Id, ¬ Anc h m n → absVal fuel (h.remove n c).1 m = absVal fuel h m) ∧
    (∀ kvs, absVal (fuel + 1) h n = some (.obj kvs) →
      absVal (fuel + 1) (h.remove n c).1 n = some (.obj (kvs.filter (fun y => !(y.1 == k))))) := by
  obtain ⟨r1, r2, r3⟩ := deleteKey_refines hs ha n hn hobj k c hl fuel
  have okn := hs n hn
  obtain ⟨_, _, hpc, hpos⟩ := okn.kids (k, c) (mem_of_lookup hl)
  have hkc : (h.get c).key = some k := by
    unfold PosOK at hpos
    rw [hobj] at hpos
    simpa using hpos
  have hg : h.getKey (some n) k = .ok c := by
    unfold Heap.getKey
    have ht : h.typeOf n = .object := hobj
    simp only [ht, bne_self_eq_false, Bool.false_eq_true, if_false, hl]
  have hrm := remove_object_eq h n c k hobj hpc hkc
  have hpop : (h.popKey (some n) k).1 = (h.remove n c).1 := by
    unfold Heap.popKey
    simp only [hg, hrm]
  rw [hpop] at r2 r3
  exact ⟨r2, r3⟩

/-- **AppendObject under an existing key replaces the member**: for a detached `v` and a key that names the member `old`, afterwards
the receiver denotes its old members without the one under `k`, followed by (k, value of v); every node off the receiver's ancestor
chain — the replaced member, now detached, included — denotes what it denoted before -/
theorem appendObject_replace_refines {h : Heap} (hs : Struct h) (ha : Acyc h) (n v : Nat) (hn : n < h.size) (hv : v < h.size)
    (hobj : (h.get n).type = .object) (hloop : h.isParentOrSelfNode n v = false) (hroot : (h.get v).parent = none)
    (k : Bytes) (old : Id) (hold : (h.childMap n).lookup k = some old) (fuel : Nat) :
    (∀ m : Id, ¬ Anc h m n → absVal fuel (h.appendObject n k v).1 m = absVal fuel h m) ∧
    (∀ kvs x, absVal (fuel + 1) h n = some (.obj kvs) → absVal fuel h v = some x →
      absVal (fuel + 1) (h.appendObject n k v).1 n = some (.obj (kvs.filter (fun y => !(y.1 == k)) ++ [(k, x)]))) := by
  obtain ⟨e, sA, aA, zA, tyA, rootA, loopA, freshA⟩ := appendNode_object_replace hs ha n v old hn hv hobj hloop hroot k hold
  obtain ⟨d1, d2⟩ := removeObject_refines hs ha n hn hobj k old hold fuel
  have hio : h.isObject n = true := by simp [isObject, typeOf, hobj]
  have hioA : (h.remove n old).1.isObject n = true := by simp [isObject, typeOf, tyA n, hobj]
  have heq : h.appendObject n k v = (h.remove n old).1.appendObject n k v := by
    unfold Heap.appendObject
    simp only [hio, hioA, Bool.not_true, Bool.false_eq_true, if_false, e]
  rw [heq]
  obtain ⟨a1, a2⟩ := appendObject_refines sA aA n v (by rw [zA]; exact hn) (by rw [zA]; exact hv) (by rw [tyA]; exact hobj) loopA rootA k freshA fuel
  have hno : ¬ Anc h v n := by
    intro hc
    have := (loop_guard_exact hs.pir ha n hn v).mpr hc
    rw [hloop] at this; cases this
  have hancA : ∀ m : Id, Anc (h.remove n old).1 m n → Anc h m n := fun m ⟨j, hj⟩ => ⟨j, up_of_parent_sub (remove_parent_sub h n old) n j m hj⟩
  refine ⟨fun m hm => ?_, fun kvs x hkvs hx => ?_⟩
  · rw [a1 m (fun hc => hm (hancA m hc)), d1 m hm]
  · exact a2 _ x (d2 kvs hkvs) (by rw [d1 v hno]; exact hx)

end Ajson.Proofs
