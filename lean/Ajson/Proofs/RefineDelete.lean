/-
Deleting an element of an array, on plain data: the receiver denotes its old elements without the deleted one (the renumbering loop
of `dropindex` is invisible in the value), and every node off the receiver's ancestor chain keeps its value.
-/
import Ajson.Proofs.Refine
import Ajson.Proofs.Datas
namespace Ajson.Proofs
open Ajson Ajson.Heap

/-- the heap after `remove` of an element of an array, in terms of the loop invariant of the renumbering -/
theorem remove_array_shape {h : Heap} (hs : Struct h) (n value : Nat) (hv : value < h.size)
    (hpar : (h.get value).parent = some n) (harr : (h.get n).type = .array) :
    ∃ (H : Heap) (idx : Nat),
      h.remove n value = (H.modify value (fun r => { r with parent := none }), .ok ()) ∧
      DI ((h.mark n).modify n (fun r => { r with cache := none })) H n idx (((h.mark n).modify n (fun r => { r with cache := none })).nchildren n) ∧
      posOf ((h.mark n).modify n (fun r => { r with cache := none })) n idx = some (value : Id) ∧
      idx < ((h.mark n).modify n (fun r => { r with cache := none })).nchildren n ∧
      Struct ((h.mark n).modify n (fun r => { r with cache := none })) ∧ H.datas = h.datas ∧ (h.get value).index = some idx := by
  have okv := hs value hv
  obtain ⟨hn, hcont, hmem, _⟩ := okv.par n hpar
  have hm := hs.mark n hn
  have hsg : Struct ((h.mark n).modify n (fun r => { r with cache := none })) :=
    struct_modify_irrelevant hm.1 n _ (fun r => ⟨rfl, rfl, rfl, rfl, rfl, rfl, rfl, rfl⟩)
  generalize hg : (h.mark n).modify n (fun r => { r with cache := none }) = g at hsg ⊢
  have hgf : ∀ m : Nat, (g.get m).parent = (h.get m).parent ∧ (g.get m).type = (h.get m).type ∧ (g.get m).index = (h.get m).index ∧
      (g.get m).children = (h.get m).children := by
    intro m
    obtain ⟨a, b, c, _, e, _⟩ := hm.2.fields m
    rw [← hg, get_modify]; split
    · rename_i hc; rw [hc.1]; exact ⟨(hm.2.fields n).1, (hm.2.fields n).2.2.1, (hm.2.fields n).2.2.2.2.1, (hm.2.fields n).2.1⟩
    · exact ⟨a, c, e, b⟩
  have hgsize : g.size = h.size := by rw [← hg]; simp [hm.2.1]
  have hng : n < g.size := by rw [hgsize]; exact hn
  have hag : (g.get n).type = .array := by rw [(hgf n).2.1]; exact harr
  have okn := hsg n hng
  have hmemg : (value : Id) ∈ (g.childMap n).vals := by unfold childMap; rw [(hgf n).2.2.2]; exact hmem
  obtain ⟨kc0, hkc0, he0⟩ := List.mem_map.mp hmemg
  have hp0 := (okn.kids kc0 hkc0).2.2.2
  unfold PosOK at hp0
  simp only [hag, if_true, he0] at hp0
  cases hidxv : (g.get value).index with
  | none => rw [hidxv] at hp0; cases hp0
  | some idx =>
    rw [hidxv] at hp0
    have hk0 : kc0.1 = itoa idx := by simpa using hp0.symm
    have hval : posOf g n idx = some (value : Id) := by
      unfold posOf; rw [← hk0, lookup_of_mem okn.nodup hkc0, he0]
    have hidxL : idx < g.nchildren n := by
      obtain ⟨t, ht, he⟩ := array_keys_itoa _ okn.nodup (okn.dense hag) kc0.1 (List.mem_map.mpr ⟨kc0, hkc0, rfl⟩)
      rw [hk0] at he
      have := itoa_inj he
      unfold nchildren; omega
    have di0 := di_init hsg hng hag hidxL
    have hfuel : (g.modify n (fun r => { r with children := r.children.map (·.erase (itoa idx)) })).nchildren n + 1 = g.nchildren n := di0.len
    have diL := dropindexLoop_di hsg hng hag (g.nchildren n) _ (idx + 1) di0 (Nat.le_refl _) hidxL (by omega)
    have hic : h.isContainer n = true := by simpa [isContainer, typeOf] using hcont
    have hia : g.isArray n = true := by simp [isArray, typeOf, hag]
    have hpe : ((h.get value).parent != some n) = false := by simp [hpar]
    refine ⟨_, idx, ?_, diL, hval, hidxL, hsg, by rw [datas_dropindexLoop, datas_modify, ← hg]; simp, by rw [← (hgf value).2.2.1]; exact hidxv⟩
    unfold Heap.remove
    simp only [hic, Bool.not_true, Bool.false_eq_true, if_false, hpe, hg, hia, if_true, hidxv]
    unfold Heap.dropindex
    rw [hfuel]

theorem mapM_eraseIdx {α β : Type} (f : α → Option β) : ∀ (l : List α) (ys : List β) (i : Nat),
    l.mapM f = some ys → (l.eraseIdx i).mapM f = some (ys.eraseIdx i)
  | [], ys, i, h => by simp only [List.mapM_nil] at h; cases h; simp
  | x :: xs, ys, i, h => by
    simp only [List.mapM_cons] at h
    cases hx : f x with
    | none => rw [hx] at h; simp at h
    | some z =>
      rw [hx] at h
      cases hxs : xs.mapM f with
      | none => rw [hxs] at h; simp at h
      | some zs =>
        rw [hxs] at h
        simp at h
        subst h
        cases i with
        | zero => simpa using hxs
        | succ j =>
          simp only [List.eraseIdx_cons_succ, List.mapM_cons, hx, mapM_eraseIdx f xs zs j hxs]
          rfl

/-- the elements of an array after the renumbering loop: the old elements without the deleted one -/
theorem arrayIds_shifted (m m' : ChildMap) (idx : Nat) (hnd : m.keys.Nodup) (hdense : ∀ i : Nat, i < m.length → (m.lookup (itoa i)).isSome = true)
    (hidx : idx < m.length) (hlen : m'.length + 1 = m.length)
    (hlook : ∀ t : Nat, m'.lookup (itoa t) = shifted (fun t => m.lookup (itoa t)) idx m.length t) :
    arrayIds m' = (arrayIds m).eraseIdx idx := by
  -- all lookups below the length succeed
  have full : ∀ (L : Nat) (a : Nat → Option Id), (∀ t, t < L → (a t).isSome = true) →
      (List.range L).filterMap a = (List.range L).map (fun t => (a t).getD 0) := by
    intro L a ha
    induction L with
    | zero => rfl
    | succ L ih =>
      rw [List.range_succ, List.filterMap_append, List.map_append, ih (fun t ht => ha t (by omega))]
      obtain ⟨x, hx⟩ := Option.isSome_iff_exists.mp (ha L (by omega))
      simp [hx]
  have hsh : ∀ t, t < m'.length → shifted (fun t => m.lookup (itoa t)) idx m.length t = if t < idx then m.lookup (itoa t) else m.lookup (itoa (t + 1)) := by
    intro t ht
    unfold shifted
    by_cases h1 : t < idx
    · simp [h1]
    · have h2 : t + 1 < m.length := by omega
      simp [h1, h2]
  unfold arrayIds
  rw [full m.length _ hdense]
  rw [full m'.length (fun t => m'.lookup (itoa t)) (fun t ht => by
    rw [hlook, hsh t ht]
    split
    · exact hdense t (by omega)
    · exact hdense (t + 1) (by omega))]
  apply List.ext_getElem?
  intro j
  rw [List.getElem?_eraseIdx]
  simp only [List.getElem?_map, List.getElem?_range]
  by_cases hj : j < m'.length
  · have hj1 : j < m.length := by omega
    have hj2 : j + 1 < m.length := by omega
    simp only [List.getElem?_range hj, Option.map_some, hlook, hsh j hj]
    by_cases hji : j < idx
    · simp [hji, List.getElem?_range hj1]
    · simp [hji, List.getElem?_range hj2]
  · have h1 : ¬ j < m'.length := hj
    have hr : (List.range m'.length)[j]? = none := by simp; omega
    rw [hr]
    have hj2 : ¬ j + 1 < m.length := by omega
    have hr2 : (List.range m.length)[j + 1]? = none := by simp; omega
    by_cases hji : j < idx
    · omega
    · simp [hji, hr2]

/-- **deleting an element of an array is "remove the element" on plain data**: after `remove` of an element — what DeleteNode,
DeleteIndex, PopIndex and Delete() of an array element run — the call is accepted, the receiver denotes its old elements without the
deleted one (the elements after it have been renumbered: invisible in the value), and every node that is neither the receiver nor one
of its ancestors — the deleted element, now detached, included — denotes what it denoted before -/
theorem removeArray_refines {h : Heap} (hs : Struct h) (ha : Acyc h) (n value : Nat) (hv : value < h.size)
    (hpar : (h.get value).parent = some n) (harr : (h.get n).type = .array) (fuel : Nat) :
    (h.remove n value).2 = .ok () ∧
    (∀ m : Id, ¬ Anc h m n → absVal fuel (h.remove n value).1 m = absVal fuel h m) ∧
    (∃ idx, (h.get value).index = some idx ∧ ∀ xs, absVal (fuel + 1) h n = some (.arr xs) →
      absVal (fuel + 1) (h.remove n value).1 n = some (.arr (xs.eraseIdx idx))) := by
  obtain ⟨H, idx, e, di, hval, hidxL, hsg, hHd, hvidx⟩ := remove_array_shape hs n value hv hpar harr
  have okv := hs value hv
  obtain ⟨hn, _, _, _⟩ := okv.par n hpar
  have hvn : value ≠ n := by intro e'; subst e'; exact Acyc.no_self_parent ha _ hpar
  rw [e]
  simp only []
  generalize hg : (h.mark n).modify n (fun r => { r with cache := none }) = g at di hval hidxL hsg
  have hgsize : g.size = h.size := by rw [← hg]; simp
  -- g against h
  have hgo : ∀ m : Id, ¬ Anc h m n → g.get m = h.get m := by
    intro m hm
    have hmn : m ≠ n := by intro e'; exact hm (e' ▸ Anc.refl' h _)
    rw [← hg, get_modify_other _ _ _ _ hmn, mark_frame h n m hm]
  have hgn : (g.get n).children = (h.get n).children ∧ (g.get n).type = (h.get n).type := by
    rw [← hg, get_modify]
    simp only [size_mark, hn, and_self, if_true]
    rcases mark_get h n n with e' | e' <;> rw [e'] <;> exact ⟨rfl, rfl⟩
  have hcmg : g.childMap n = h.childMap n := by unfold childMap; rw [hgn.1]
  have hframe : ∀ m : Id, ¬ Anc h m n → absVal fuel (H.modify value (fun r => { r with parent := none })) m = absVal fuel h m := by
    -- records off the chain
    have hrec : ∀ m : Id, ¬ Anc h m n → EqModLinks ((H.modify value (fun r => { r with parent := none })).get m) (h.get m) := by
      intro m hm
      have hmn : m ≠ n := by intro e'; exact hm (e' ▸ Anc.refl' h _)
      have hH : EqModLinks (H.get m) (h.get m) := by
        by_cases hmv : ∃ j : Nat, idx < j ∧ j < g.nchildren n ∧ posOf g n j = some m
        · obtain ⟨j, h1, h2, h3⟩ := hmv
          rw [di.moved j m h1 h2 h3, hgo m hm]
          exact ⟨rfl, rfl, rfl, rfl, rfl, rfl, rfl⟩
        · rw [di.other m hmn (fun j a b c => hmv ⟨j, a, b, c⟩), hgo m hm]
          exact ⟨rfl, rfl, rfl, rfl, rfl, rfl, rfl⟩
      rw [get_modify]
      split
      · rename_i hc
        rw [← hc.1]
        obtain ⟨e1, e2, e3, e4, e5, e6, e7⟩ := hH
        exact ⟨e1, e2, e3, e4, e5, e6, e7⟩
      · exact hH
    have hdat : (H.modify value (fun r => { r with parent := none })).datas = h.datas := by rw [datas_modify]; exact hHd
    intro m hm
    apply absVal_congr h _ (fun m => ¬ Anc h m n) _ fuel m hm
    intro x hx
    have r := hrec x hx
    refine ⟨by unfold Heap.typeOf; rw [r.1], fun hsc => scalarVal_congr h _ x hdat r (by unfold Heap.typeOf at hsc; exact hsc), ?_, offChain_kids hs n x hx⟩
    unfold childMap; rw [r.2.2.2.2.2.1]
  refine ⟨trivial, hframe, ?_⟩
  · refine ⟨idx, hvidx, fun xs hxs => ?_⟩
    have okn := hs n hn
    have hng : n < g.size := by rw [hgsize]; exact hn
    have hnH : n < H.size := by rw [di.size]; exact hng
    have hFn : (H.modify value (fun r => { r with parent := none })).get n = H.get n := get_modify_other _ _ _ _ (Ne.symm hvn)
    have htyn : (H.modify value (fun r => { r with parent := none })).typeOf n = .array := by
      unfold Heap.typeOf; rw [hFn, di.nrec.2.1, hgn.2]; exact harr
    have hcmF : (H.modify value (fun r => { r with parent := none })).childMap n = H.childMap n := by unfold childMap; rw [hFn]
    have hids : arrayIds (H.childMap n) = (arrayIds (h.childMap n)).eraseIdx idx := by
      apply arrayIds_shifted (h.childMap n) (H.childMap n) idx okn.nodup (okn.dense harr)
      · have := hidxL; unfold Heap.nchildren at this; rw [hcmg] at this; exact this
      · have := di.len; unfold Heap.nchildren at this; rw [hcmg] at this; exact this
      · intro t
        have := di.enc.look t
        unfold posOf Heap.nchildren at this
        rw [hcmg] at this
        exact this
    have hold : (arrayIds (h.childMap n)).mapM (fun c => absVal fuel h c) = some xs := by
      unfold absVal at hxs
      have : h.typeOf n = .array := harr
      rw [this] at hxs
      simp only [] at hxs
      cases hm : (arrayIds (h.childMap n)).mapM (fun c => absVal fuel h c) with
      | none => rw [hm] at hxs; simp at hxs
      | some ys => rw [hm] at hxs; simp at hxs; rw [hxs]
    conv => lhs; unfold absVal
    rw [htyn]
    simp only []
    rw [hcmF, hids]
    have hkids : ((arrayIds (h.childMap n)).eraseIdx idx).mapM (fun c => absVal fuel (H.modify value (fun r => { r with parent := none })) c) =
        ((arrayIds (h.childMap n)).eraseIdx idx).mapM (fun c => absVal fuel h c) := by
      apply mapM_congr
      intro c hc
      apply hframe
      have hc' : c ∈ arrayIds (h.childMap n) := List.mem_of_mem_eraseIdx hc
      obtain ⟨kc, hkc, he⟩ := List.mem_map.mp (mem_arrayIds hc')
      obtain ⟨_, _, hp, _⟩ := okn.kids kc hkc
      rw [he] at hp
      rintro ⟨k, hk⟩
      exact ha c k (by rw [up_succ_of_parent hp]; exact hk)
    rw [hkids, mapM_eraseIdx _ _ xs idx hold]
    rfl

/-- **DeleteIndex / PopIndex(i)** for an index inside the array: accepted, the receiver denotes its old elements without the `i`-th,
everything off the receiver's ancestor chain keeps its value -/
theorem deleteIndex_refines {h : Heap} (hs : Struct h) (ha : Acyc h) (n : Nat) (hn : n < h.size) (harr : (h.get n).type = .array)
    (i : Nat) (hi : i < (h.childMap n).length) (fuel : Nat) :
    (∃ c, (h.popIndex (some n) (i : Int)).2 = .ok c) ∧
    (∀ m : Id, ¬ Anc h m n → absVal fuel (h.popIndex (some n) (i : Int)).1 m = absVal fuel h m) ∧
    (∀ xs, absVal (fuel + 1) h n = some (.arr xs) →
      absVal (fuel + 1) (h.popIndex (some n) (i : Int)).1 n = some (.arr (xs.eraseIdx i))) := by
  have okn := hs n hn
  obtain ⟨c, hc⟩ := Option.isSome_iff_exists.mp (okn.dense harr i hi)
  obtain ⟨hcs, _, hpc, hpos⟩ := okn.kids (itoa i, c) (mem_of_lookup hc)
  have hidx : (h.get c).index = some i := by
    unfold PosOK at hpos
    simp only [harr, if_true] at hpos
    cases hx : (h.get c).index with
    | none => rw [hx] at hpos; cases hpos
    | some j =>
      rw [hx] at hpos
      simp only [Option.map_some, Option.some.injEq] at hpos
      rw [itoa_inj hpos]
  have hg : h.getIndex (some n) (i : Int) = .ok c := by
    unfold Heap.getIndex
    have ht : h.typeOf n = .array := harr
    have h1 : ¬ ((i : Int) < 0) := by omega
    simp only [ht, bne_self_eq_false, Bool.false_eq_true, if_false, h1, Int.toNat_natCast, hc]
  obtain ⟨r1, r2, idx, r3, r4⟩ := removeArray_refines hs ha n c hcs hpc harr fuel
  have hii : idx = i := by rw [hidx] at r3; exact (Option.some.inj r3).symm
  subst hii
  have hpop : h.popIndex (some n) (idx : Int) = ((h.remove n c).1, .ok c) := by
    unfold Heap.popIndex
    simp only [hg]
    generalize h.remove n c = res at r1
    obtain ⟨h1, o⟩ := res
    simp only [] at r1; subst r1
    rfl
  rw [hpop]
  exact ⟨⟨c, rfl⟩, r2, r4⟩

/-! ### moving an attached node -/

/-- `remove` of a child from any container: every node that is neither the container nor one of its ancestors keeps its value -/
theorem remove_refines_frame {h : Heap} (hs : Struct h) (ha : Acyc h) (p v : Nat) (hv : v < h.size) (hpar : (h.get v).parent = some p)
    (fuel : Nat) : ∀ m : Id, ¬ Anc h m p → absVal fuel (h.remove p v).1 m = absVal fuel h m := by
  obtain ⟨hp, hcont, hmem, _⟩ := (hs v hv).par p hpar
  cases ht : (h.get p).type with
  | array => exact (removeArray_refines hs ha p v hv hpar ht fuel).2.1
  | object =>
    obtain ⟨kc, hkc, he⟩ := List.mem_map.mp hmem
    have hl := lookup_of_mem (hs p hp).nodup hkc
    rw [he] at hl
    exact (removeObject_refines hs ha p hp ht kc.1 v hl fuel).1
  | null => rw [ht] at hcont; cases hcont
  | numeric => rw [ht] at hcont; cases hcont
  | string => rw [ht] at hcont; cases hcont
  | bool => rw [ht] at hcont; cases hcont

/-- **AppendArray of an ATTACHED node moves it**: the call is `remove` from its container `p` followed by the append of the now
detached node; so every node that is off the ancestor chains of both `p` and the receiver keeps its value, and the receiver denotes
what it denotes after the removal (its old value when it is not `p` or above `p`) followed by the value of the moved node -/
theorem appendArray_move_refines {h : Heap} (hs : Struct h) (ha : Acyc h) (n v p : Nat) (hn : n < h.size) (hv : v < h.size)
    (harr : (h.get n).type = .array) (hloop : h.isParentOrSelfNode n v = false) (hpar : (h.get v).parent = some p) (fuel : Nat) :
    (∀ m : Id, ¬ Anc h m n → ¬ Anc h m p → absVal fuel (h.appendArray n [v]).1 m = absVal fuel h m) ∧
    (∀ xs x, absVal (fuel + 1) (h.remove p v).1 n = some (.arr xs) → absVal fuel h v = some x →
      absVal (fuel + 1) (h.appendArray n [v]).1 n = some (.arr (xs ++ [x]))) := by
  obtain ⟨e, sA, aA, zA, tyA, rootA, loopA⟩ := appendNode_of_attached hs ha n v p hn hv hpar none hloop
  have hfr := remove_refines_frame hs ha p v hv hpar fuel
  have hia : h.isArray n = true := by simp [isArray, typeOf, harr]
  have hiaA : (h.remove p v).1.isArray n = true := by simp [isArray, typeOf, tyA n, harr]
  have hany : ([v].any (fun c => h.isParentOrSelfNode n c)) = false := by simp [hloop]
  have hanyA : ([v].any (fun c => (h.remove p v).1.isParentOrSelfNode n c)) = false := by simp [loopA]
  have heq : h.appendArray n [v] = (h.remove p v).1.appendArray n [v] := by
    unfold Heap.appendArray
    simp only [hia, hiaA, Bool.not_true, Bool.false_eq_true, if_false, hany, hanyA, List.map_cons, List.map_nil, Heap.appendAll, e]
  rw [heq]
  obtain ⟨a1, a2⟩ := appendArray_refines sA aA n v (by rw [zA]; exact hn) (by rw [zA]; exact hv) (by rw [tyA]; exact harr) loopA rootA fuel
  have hancA : ∀ m : Id, Anc (h.remove p v).1 m n → Anc h m n := fun m ⟨j, hj⟩ => ⟨j, up_of_parent_sub (remove_parent_sub h p v) n j m hj⟩
  -- the moved node is not `p` or above `p`: it is a child of `p` in an acyclic heap
  have hvp : ¬ Anc h v p := by
    rintro ⟨k, hk⟩
    exact ha v k (by rw [up_succ_of_parent hpar]; exact hk)
  refine ⟨fun m hm1 hm2 => ?_, fun xs x hxs hx => ?_⟩
  · rw [a1 m (fun hc => hm1 (hancA m hc)), hfr m hm2]
  · exact a2 xs x hxs (by rw [hfr v hvp]; exact hx)

end Ajson.Proofs
