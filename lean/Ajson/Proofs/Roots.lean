/-
`root()` on sound acyclic heaps: it ends at a node without a parent, a node and its parent have the same root, hence all nodes of one
tree do — the hypothesis of the `$` theorem of `Proofs/Anchor` holds between any node and any of its ancestors, its root included.
-/
import Ajson.Proofs.Acyclic
import Ajson.Proofs.Anchor
namespace Ajson.Proofs
open Ajson Ajson.Heap

/-- `rootAux` walks up the parent chain: it stops at the `k`-th ancestor for some `k ≤ fuel`, and when it did not use up the fuel
that ancestor has no parent -/
theorem rootAux_up (h : Heap) : ∀ (fuel : Nat) (n : Id), ∃ k, k ≤ fuel ∧ up h n k = some (rootAux fuel h n) ∧
    (k < fuel → (h.get (rootAux fuel h n)).parent = none)
  | 0, n => ⟨0, Nat.le_refl _, rfl, fun hk => absurd hk (Nat.lt_irrefl _)⟩
  | fuel+1, n => by
    cases hp : (h.get n).parent with
    | none => exact ⟨0, Nat.zero_le _, by simp [rootAux, hp, up], fun _ => by simp [rootAux, hp]⟩
    | some p =>
      obtain ⟨k, hk1, hk2, hk3⟩ := rootAux_up h fuel p
      refine ⟨k + 1, by omega, ?_, fun hlt => ?_⟩
      · rw [up_succ_of_parent hp]; simp only [rootAux, hp]; exact hk2
      · simp only [rootAux, hp]; exact hk3 (by omega)

/-- when the `k`-th ancestor of `n` has no parent, `rootAux` with at least `k` units of fuel returns it -/
theorem rootAux_of_top (h : Heap) : ∀ (k fuel : Nat) (n t : Id), up h n k = some t → (h.get t).parent = none → k ≤ fuel →
    rootAux fuel h n = t
  | 0, fuel, n, t, hu, ht, _ => by
    simp only [up, Option.some.injEq] at hu
    subst hu
    cases fuel with
    | zero => rfl
    | succ f => simp [rootAux, ht]
  | k+1, fuel, n, t, hu, ht, hk => by
    obtain ⟨p, hp⟩ := up_prefix (k + 1) t hu 1 (by omega)
    have hp' : (h.get n).parent = some p := by simpa [up] using hp
    have hu' : up h p k = some t := by rw [← up_succ_of_parent hp']; exact hu
    cases fuel with
    | zero => omega
    | succ f =>
      simp only [rootAux, hp']
      exact rootAux_of_top h k f p t hu' ht (by omega)

/-- on a sound acyclic heap `root()` ends at a node without a parent -/
theorem root_is_root {h : Heap} (hs : PIR h) (ha : Acyc h) (n : Nat) (hn : n < h.size) : (h.get (h.root n)).parent = none := by
  obtain ⟨k, _, hk2, hk3⟩ := rootAux_up h h.size n
  exact hk3 (up_bound hs ha n hn k _ hk2)

/-- **a node and its parent have the same root** -/
theorem root_parent {h : Heap} (hs : PIR h) (ha : Acyc h) (n p : Nat) (hn : n < h.size) (hp : (h.get n).parent = some p) :
    h.root n = h.root p := by
  have hps : p < h.size := hs n hn p hp
  obtain ⟨k, _, hk2, hk3⟩ := rootAux_up h h.size p
  have hkb := up_bound hs ha p hps k _ hk2
  have htop := hk3 hkb
  have hun : up h n (k + 1) = some (rootAux h.size h p) := by rw [up_succ_of_parent hp]; exact hk2
  have hkn := up_bound hs ha n hn (k + 1) _ hun
  exact rootAux_of_top h (k + 1) h.size n _ hun htop (by omega)

/-- … hence a node and each of its ancestors -/
theorem root_anc {h : Heap} (hs : PIR h) (ha : Acyc h) (n : Nat) (hn : n < h.size) : ∀ (k : Nat) (a : Id), up h n k = some a → h.root n = h.root a
  | 0, a, hu => by simp only [up, Option.some.injEq] at hu; rw [hu]
  | k+1, a, hu => by
    simp only [up] at hu
    cases hx : up h n k with
    | none => rw [hx] at hu; cases hu
    | some x =>
      rw [hx] at hu
      have hu : (h.get x).parent = some a := hu
      rw [root_anc hs ha n hn k x hx]
      exact root_parent hs ha x a (up_lt_size hs n hn k x hx) hu

/-- the root of a node is one of its ancestors, so it has that same root: `root (root n) = root n` -/
theorem root_root {h : Heap} (hs : PIR h) (ha : Acyc h) (n : Nat) (hn : n < h.size) : h.root (h.root n) = h.root n := by
  obtain ⟨k, _, hk2, _⟩ := rootAux_up h h.size n
  exact (root_anc hs ha n hn k _ hk2).symm

/-- **a `$` path gives the same result from a node, from each of its ancestors and from its root** -/
theorem dollar_from_node_and_root {h : Heap} (hs : PIR h) (ha : Acyc h) (env : Env) (fuel : Nat) (n : Nat) (hn : n < h.size) (rest : List Bytes) :
    applyJSONPath env fuel h (some n) ([36] :: rest) = applyJSONPath env fuel h (some (h.root n)) ([36] :: rest) :=
  dollar_same_from_every_node env fuel h n (h.root n) rest (root_root hs ha n hn).symm

/-- … and from any two nodes that have a common ancestor (two nodes of one tree) -/
theorem dollar_same_tree {h : Heap} (hs : PIR h) (ha : Acyc h) (env : Env) (fuel : Nat) (n m : Nat) (hn : n < h.size) (hm : m < h.size)
    (a : Id) (han : Anc h a n) (ham : Anc h a m) (rest : List Bytes) :
    applyJSONPath env fuel h (some n) ([36] :: rest) = applyJSONPath env fuel h (some m) ([36] :: rest) := by
  obtain ⟨k1, h1⟩ := han
  obtain ⟨k2, h2⟩ := ham
  exact dollar_same_from_every_node env fuel h n m rest ((root_anc hs ha n hn k1 a h1).trans (root_anc hs ha m hm k2 a h2).symm)

end Ajson.Proofs
