/-
Cursor discipline of the sub-scanners of buffer.go: they never move backwards, never past the end, and stop at a
position inside the input.
-/
import Ajson.Model.Scan

namespace Ajson.Proofs
open Ajson

/-- `first()` only moves forward and stays inside the input -/
theorem skipWs_pos : ∀ (rest : Bytes) (i : Nat), (skipWs rest i).2 + (skipWs rest i).1.length = i + rest.length
  | [], i => by simp [skipWs]
  | b :: bs, i => by
    unfold skipWs
    split
    · have := skipWs_pos bs (i + 1); simp only [List.length_cons]; omega
    · simp

/-- `numeric()` stops at a position inside the input (or at its end), never before where it started -/
theorem numericLoop_pos (token : Bool) : ∀ (rest : Bytes) (i : Nat) (last st : Int) (p : ScanPos),
    numericLoop token rest i last st = .ok p → p.idx + p.rest.length = i + rest.length ∧ i ≤ p.idx
  | [], i, last, st, p => by
    unfold numericLoop
    split
    · intro h; cases h
    · intro h; cases h; simp
  | b :: bs, i, last, st, p => by
    unfold numericLoop
    simp only []
    split
    · intro h; cases h
    · split
      · split
        · split
          · intro h; cases h
          · intro h; cases h; simp
        · intro h; cases h
      · split
        · intro h; cases h; simp
        · split
          · intro h; cases h; simp
          · intro h
            have := numericLoop_pos token bs (i + 1) _ _ p h
            simp only [List.length_cons]; omega

/-- `string()` stops ON the closing quote: a position strictly inside the input -/
theorem stringLoop_pos (single : Bool) : ∀ (rest : Bytes) (i : Nat) (last : Int) (p : ScanPos),
    stringLoop single rest i last = .ok p → p.idx + p.rest.length = i + rest.length ∧ i ≤ p.idx ∧ p.rest ≠ []
  | [], i, last, p => by unfold stringLoop; intro h; cases h
  | b :: bs, i, last, p => by
    unfold stringLoop
    simp only []
    split
    · intro h; cases h
    · split
      · intro h; cases h
      · split
        · intro h; cases h; simp
        · intro h
          obtain ⟨h1, h2, h3⟩ := stringLoop_pos single bs (i + 1) _ p h
          exact ⟨by simp only [List.length_cons]; omega, by omega, h3⟩

/-- `word()` stops ON the last byte of the literal -/
theorem wordLoop_pos : ∀ (w rest : Bytes) (i : Nat) (r : Bytes) (j : Nat), w ≠ [] →
    wordLoop w rest i = .ok (r, j) → j + r.length = i + rest.length ∧ r ≠ []
  | [], _, _, _, _ => by intro h; exact absurd rfl h
  | [w], [], i, r, j => by intro _ h; simp [wordLoop] at h
  | [w], b :: bs, i, r, j => by
    intro _ h
    simp only [wordLoop] at h
    split at h
    · cases h
    · cases h; simp
  | w :: w2 :: ws, [], i, r, j => by intro _ h; simp [wordLoop] at h
  | w :: w2 :: ws, b :: bs, i, r, j => by
    intro _ h
    simp only [wordLoop] at h
    split at h
    · cases h
    · obtain ⟨h1, h2⟩ := wordLoop_pos (w2 :: ws) bs (i + 1) r j (by simp) h
      exact ⟨by simp only [List.length_cons]; omega, h2⟩

theorem wordLoop_ge : ∀ (w rest : Bytes) (i : Nat) (r : Bytes) (j : Nat), wordLoop w rest i = .ok (r, j) → i ≤ j
  | [], _, _, _, _ => by intro h; simp [wordLoop] at h; omega
  | [w], [], i, r, j => by intro h; simp [wordLoop] at h
  | [w], b :: bs, i, r, j => by
    intro h
    simp only [wordLoop] at h
    split at h
    · cases h
    · cases h; omega
  | w :: w2 :: ws, [], i, r, j => by intro h; simp [wordLoop] at h
  | w :: w2 :: ws, b :: bs, i, r, j => by
    intro h
    simp only [wordLoop] at h
    split at h
    · cases h
    · have := wordLoop_ge (w2 :: ws) bs (i + 1) r j h; omega

end Ajson.Proofs
