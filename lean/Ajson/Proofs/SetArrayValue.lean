/-
SetArray on plain data: for pairwise different elements that are fresh, detached or children of the receiver itself, the receiver
afterwards denotes the list of the values of the elements, in order; everything off the receiver's ancestor chain keeps its value.
-/
import Ajson.Proofs.AppendManyValue
import Ajson.Proofs.SetContainer
namespace Ajson.Proofs
open Ajson Ajson.Heap

/-- the heap `update` has prepared for the loop (receiver marked, cleared, retyped to an empty array), on plain data -/
theorem prepared_refines {h : Heap} (hs : Struct h) (ha : Acyc h) (n : Nat) (hn : n < h.size) (t : NType) (fuel : Nat) :
    let R := ((((h.mark n).clear n).modify n (fun r => { r with type := t, cache := none })).modify n (fun r => { r with children := some [] }))
    (∀ m : Id, ¬ Anc h m n → absVal fuel R m = absVal fuel h m) ∧
    ((t = .array → absVal (fuel + 1) R n = some (.arr [])) ∧ (t = .object → absVal (fuel + 1) R n = some (.obj []))) ∧
    (∀ m : Id, Anc R m n → Anc h m n) ∧
    (∀ m : Id, m ≠ n → (R.get m).parent = if (m : Id) ∈ (h.childMap n).vals then none else (h.get m).parent) ∧
    R.childMap n = [] := by
  intro R
  have hm := hs.mark n hn
  have hszm : n < (h.mark n).size := by rw [hm.2.1]; exact hn
  have hcmm : (h.mark n).childMap n = h.childMap n := by
    unfold childMap; rcases mark_get h n n with e | e <;> rw [e]
  have hR : R = (setScalar (h.mark n) n .null none).modify n (fun r => { r with type := t, children := some [] }) := by
    show ((((h.mark n).clear n).modify n (fun r => { r with type := t, cache := none })).modify n (fun r => { r with children := some [] })) = _
    unfold setScalar
    rw [modify_modify, modify_modify, modify_modify]
  have hszS : (setScalar (h.mark n) n .null none).size = h.size := by rw [setScalar_size, hm.2.1]
  -- records other than the receiver's
  have hother : ∀ m : Nat, m ≠ n → R.get m = if (m : Id) ∈ (h.childMap n).vals ∧ m < h.size then { (h.mark n).get m with parent := none } else (h.mark n).get m := by
    intro m hmn
    rw [hR, get_modify_other _ _ _ _ hmn, setScalar_other _ _ _ _ m hmn, hcmm, hm.2.1]
  have hpar : ∀ m : Id, m ≠ n → (R.get m).parent = if (m : Id) ∈ (h.childMap n).vals then none else (h.get m).parent := by
    intro m hmn
    rw [hother m hmn]
    by_cases hin : (m : Id) ∈ (h.childMap n).vals
    · obtain ⟨kc, hkc, he⟩ := List.mem_map.mp hin
      have := ((hs n hn).kids kc hkc).1
      rw [he] at this
      simp [hin, this]
    · simp only [hin, false_and, if_false]
      rcases mark_get h n m with e | e <;> rw [e]
  have hRn : R.get n = { (setScalar (h.mark n) n .null none).get n with type := t, children := some [] } := by
    rw [hR, get_modify]; simp [hszS, hn]
  have hnk : (n : Id) ∉ ((h.mark n).childMap n).vals := by
    intro hx
    obtain ⟨kc, hkc, he⟩ := List.mem_map.mp hx
    exact ((hm.1 n hszm).kids kc hkc).2.1 he
  have hparn : (R.get n).parent = (h.get n).parent := by
    rw [hRn]
    have := (setScalar_self (h.mark n) n .null none hszm hnk).2.2.2.2.1
    simp only []
    rw [this]
    rcases mark_get h n n with e | e <;> rw [e]
  -- the ancestor chain of the receiver is unchanged: none of its ancestors is one of its children
  have hup : ∀ k, up R n k = up h n k := by
    intro k
    induction k with
    | zero => rfl
    | succ k ih =>
      simp only [up, ih]
      cases hx : up h n k with
      | none => rfl
      | some x =>
        simp only []
        by_cases hxn : x = n
        · rw [hxn]; exact hparn
        · rw [hpar x hxn]
          have : (x : Id) ∉ (h.childMap n).vals := by
            intro hin
            obtain ⟨kc, hkc, he⟩ := List.mem_map.mp hin
            have hp := ((hs n hn).kids kc hkc).2.2.1
            rw [he] at hp
            -- x is a child of n and an ancestor of n: a cycle
            cases k with
            | zero => simp [up] at hx; exact hxn hx.symm
            | succ j => exact ha x (j + 1) (by rw [up_succ_of_parent hp]; exact hx)
          simp [this]
  have hanc : ∀ m : Id, Anc R m n → Anc h m n := fun m ⟨k, hk⟩ => ⟨k, by rw [← hup k]; exact hk⟩
  have hdat : R.datas = h.datas := by rw [hR]; simp [setScalar]
  refine ⟨?_, ?_, hanc, hpar, by unfold childMap; rw [hRn]; rfl⟩
  · intro m hmo
    apply absVal_congr h R (fun m => ¬ Anc h m n) _ fuel m hmo
    intro x hx
    have hxn : x ≠ n := by intro e'; exact hx (e' ▸ Anc.refl' h _)
    have r : EqModLinks (R.get x) (h.get x) := by
      rw [hother x hxn, mark_frame h n x hx]
      split
      · exact ⟨rfl, rfl, rfl, rfl, rfl, rfl, rfl⟩
      · exact ⟨rfl, rfl, rfl, rfl, rfl, rfl, rfl⟩
    refine ⟨by unfold Heap.typeOf; rw [r.1], fun hsc => scalarVal_congr h R x hdat r (by unfold Heap.typeOf at hsc; exact hsc), ?_, offChain_kids hs n x hx⟩
    unfold childMap; rw [r.2.2.2.2.2.1]
  · have hc : R.childMap n = [] := by unfold childMap; rw [hRn]; rfl
    have hty : R.typeOf n = t := by unfold Heap.typeOf; rw [hRn]
    constructor
    · intro ht
      unfold absVal
      rw [hty, ht]
      simp only []
      rw [hc]
      rfl
    · intro ht
      unfold absVal
      rw [hty, ht]
      simp only []
      rw [hc]
      rfl

/-- **SetArray is assignment of a list**: for pairwise different elements, each fresh, detached or a child of the receiver itself
(and none the receiver or above it), the receiver afterwards denotes the list of what the elements denoted, in order, and every node
off the receiver's ancestor chain keeps its value -/
theorem setArray_refines {h : Heap} (hs : Struct h) (ha : Acyc h) (n : Nat) (hn : n < h.size) (ids : List Id) (hnd : ids.Nodup)
    (hids : ∀ v ∈ ids, (v : Nat) < h.size ∧ ¬ Anc h v n ∧ ((h.get v).parent = none ∨ (h.get v).parent = some n)) (fuel : Nat) :
    (∀ m : Id, ¬ Anc h m n → absVal fuel (h.update (some n) (.arr ids)).1 m = absVal fuel h m) ∧
    (∀ ys, ids.mapM (fun v => absVal fuel h v) = some ys → absVal (fuel + 1) (h.update (some n) (.arr ids)).1 n = some (.arr ys)) := by
  have hany : (ids.any fun c => h.isParentOrSelfNode n c) = false := by
    rw [List.any_eq_false]
    intro c hc hl
    exact (hids c hc).2.1 ((loop_guard_exact hs.pir ha n hn c).mp hl)
  have e : h.update (some n) (.arr ids) =
      ((((h.mark n).clear n).modify n (fun r => { r with type := .array, cache := none })).modify n (fun r => { r with children := some [] })).appendAll n
        (ids.map (fun c => (none, c))) := by
    simp only [Heap.update, Heap.validate, hany, Bool.false_eq_true, if_false, SetVal.type]
  rw [e]
  obtain ⟨sR, aR, zR, _, tR⟩ := update_prepared hs ha n hn .array rfl
  obtain ⟨f0, ⟨v0', _⟩, anc0, par0, _⟩ := prepared_refines hs ha n hn .array fuel
  have v0 := v0' rfl
  generalize ((((h.mark n).clear n).modify n (fun r => { r with type := .array, cache := none })).modify n (fun r => { r with children := some [] })) = R at *
  have hidsR : ∀ v ∈ ids, (v : Nat) < R.size ∧ (R.get v).parent = none ∧ ¬ Anc R v n := by
    intro v hv
    obtain ⟨a, b, c⟩ := hids v hv
    have hvn : (v : Id) ≠ n := by intro e'; exact b (e' ▸ Anc.refl' h _)
    refine ⟨by rw [zR]; exact a, ?_, fun hc => b (anc0 v hc)⟩
    rw [par0 v hvn]
    by_cases hin : (v : Id) ∈ (h.childMap n).vals
    · simp [hin]
    · simp only [hin, if_false]
      rcases c with c | c
      · exact c
      · exact absurd (((hs v a).par n c).2.2.1) hin
  obtain ⟨f1, g1⟩ := appendAll_detached_refines ids R n (sR.toBut n) aR (by rw [zR]; exact hn) tR hnd hidsR fuel
  refine ⟨fun m hm => by rw [f1 m (fun hc => hm (anc0 m hc)), f0 m hm], fun ys hys => ?_⟩
  have hys' : ids.mapM (fun v => absVal fuel R v) = some ys := by
    rw [mapM_congr _ (fun v => absVal fuel h v) _ (fun v hv => f0 v (hids v hv).2.1)]
    exact hys
  have := g1 [] ys v0 hys'
  simpa using this

end Ajson.Proofs
