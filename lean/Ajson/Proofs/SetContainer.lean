/-
SetArray / SetObject (`update` with a container value) and several arguments to one call: the receiver is marked first, so it is
dirty while the elements are appended one by one — and with a dirty receiver every single `appendNode` step leaves a heap that
satisfies the FULL invariant (the relaxation of `StructBut` concerns only a clean receiver). So the steps compose.
-/
import Ajson.Proofs.ObjMove
import Ajson.Proofs.Frame
namespace Ajson.Proofs
open Ajson Ajson.Heap

/-! ### dirty flags only go up -/

/-- every node that is dirty in `h` is dirty in `h'` -/
def DirtyMono (h h' : Heap) : Prop := ∀ m : Id, (h.get m).dirty = true → (h'.get m).dirty = true

theorem DirtyMono.refl (h : Heap) : DirtyMono h h := fun _ hd => hd
theorem DirtyMono.trans {a b c : Heap} (h1 : DirtyMono a b) (h2 : DirtyMono b c) : DirtyMono a c := fun m hd => h2 m (h1 m hd)

theorem DirtyMono.modify (h : Heap) (a : Id) (f : NodeRec → NodeRec) (hf : ∀ r, (f r).dirty = r.dirty) : DirtyMono h (h.modify a f) := by
  intro m hd
  rw [get_modify]; split
  · rename_i hc; rw [hf, ← hc.1]; exact hd
  · exact hd

/-- goal-directed form: the update is read off the goal -/
theorem DirtyMono.modify' {h X : Heap} {a : Id} {f : NodeRec → NodeRec} (hx : DirtyMono h X) (hf : ∀ r, (f r).dirty = r.dirty) :
    DirtyMono h (X.modify a f) := hx.trans (DirtyMono.modify X a f hf)

theorem DirtyMono.mark (h : Heap) (n : Id) : DirtyMono h (h.mark n) := by
  intro m hd
  rcases mark_get h n m with e | e <;> rw [e]
  exact hd

theorem diBody_dirty (H : Heap) (n : Id) (i : Nat) : DirtyMono H (diBody H n i) := by
  unfold diBody
  simp only []
  refine DirtyMono.modify' ?_ (fun _ => rfl)
  cases (H.childMap n).lookup (itoa i) with
  | none => exact DirtyMono.refl H
  | some cur =>
    simp only []
    refine DirtyMono.modify' ?_ (fun _ => rfl)
    exact DirtyMono.modify' (DirtyMono.refl H) (fun _ => rfl)

theorem dropindexLoop_dirty : ∀ (fuel : Nat) (H : Heap) (n : Id) (i : Nat), DirtyMono H (dropindexLoop fuel H n i)
  | 0, H, _, _ => DirtyMono.refl H
  | fuel+1, H, n, i => by
    rw [dropindexLoop_succ]
    split
    · exact (diBody_dirty H n i).trans (dropindexLoop_dirty fuel _ n (i + 1))
    · exact DirtyMono.refl H

theorem remove_dirty (h : Heap) (n value : Id) : DirtyMono h (h.remove n value).1 := by
  have h2 : DirtyMono h ((h.mark n).modify n (fun r => { r with cache := none })) :=
    DirtyMono.modify' (DirtyMono.mark h n) (fun _ => rfl)
  unfold Heap.remove
  split
  · exact DirtyMono.refl h
  · split
    · exact DirtyMono.refl h
    · simp only []
      split
      · split
        · exact h2
        · simp only []
          refine DirtyMono.modify' ?_ (fun _ => rfl)
          unfold Heap.dropindex
          refine DirtyMono.trans ?_ (dropindexLoop_dirty _ _ _ _)
          exact DirtyMono.modify' h2 (fun _ => rfl)
      · split
        · exact h2
        · simp only []
          refine DirtyMono.modify' ?_ (fun _ => rfl)
          exact DirtyMono.modify' h2 (fun _ => rfl)

theorem detachStep_dirty (h : Heap) (value : Id) : DirtyMono h (detachStep h value).1 := by
  unfold detachStep
  cases (h.get value).parent with
  | none => exact DirtyMono.refl h
  | some p => exact remove_dirty h p value

theorem replaceStep_dirty (H : Heap) (n : Id) (k : Bytes) (value : Id) : DirtyMono H (replaceStep H n k value).1 := by
  unfold replaceStep
  cases (H.childMap n).lookup k with
  | none => exact DirtyMono.refl H
  | some old =>
    simp only []
    split
    · exact remove_dirty H n old
    · exact DirtyMono.refl H

theorem attachStep_dirty (h1 : Heap) (n : Id) (key : Option Bytes) (value : Id) : DirtyMono h1 (attachStep h1 n key value).1 := by
  have h3 : DirtyMono h1 ((h1.modify value (fun r => { r with parent := some n, key := key })).modify n (fun r => { r with cache := none })) :=
    DirtyMono.modify' (DirtyMono.modify' (DirtyMono.refl h1) (fun _ => rfl)) (fun _ => rfl)
  unfold attachStep
  simp only []
  cases key with
  | some k =>
    simp only []
    have hr := replaceStep_dirty ((h1.modify value (fun r => { r with parent := some n, key := some k })).modify n (fun r => { r with cache := none })) n k value
    generalize replaceStep ((h1.modify value (fun r => { r with parent := some n, key := some k })).modify n (fun r => { r with cache := none })) n k value = res at hr
    obtain ⟨h4, o⟩ := res
    cases o with
    | err e => exact h3.trans hr
    | panic s => exact h3.trans hr
    | ok u =>
      cases u
      simp only []
      cases (h4.get n).children with
      | none => exact h3.trans hr
      | some m => exact DirtyMono.modify' (h3.trans hr) (fun _ => rfl)
  | none =>
    simp only []
    cases ((h1.modify value (fun r => { r with parent := some n, key := none })).modify n (fun r => { r with cache := none })).get n |>.children with
    | none => exact h3
    | some m => exact DirtyMono.modify' (DirtyMono.modify' h3 (fun _ => rfl)) (fun _ => rfl)

/-- `appendNode` never cleans a node -/
theorem appendNode_dirty (h : Heap) (n : Id) (key : Option Bytes) (value : Id) : DirtyMono h (h.appendNode n key value).1 := by
  rw [appendNode_stages]
  split
  · exact DirtyMono.refl h
  · have hd := detachStep_dirty h value
    generalize detachStep h value = res at hd
    obtain ⟨h1, o⟩ := res
    cases o with
    | err e => exact hd
    | panic s => exact hd
    | ok u => cases u; exact hd.trans (attachStep_dirty h1 n key value)

/-! ### one step with a dirty receiver, and the loop over the elements -/

/-- the key fits the receiver: no key on an array, a key on an object -/
def KeyFits (h : Heap) (n : Id) (key : Option Bytes) : Prop :=
  (key = none ∧ (h.get n).type = .array) ∨ (∃ k, key = some k ∧ (h.get n).type = .object)

/-- with a DIRTY receiver a single `appendNode` — accepted or rejected — leaves a heap that satisfies the full invariant -/
theorem appendNode_dirty_receiver {h : Heap} (hs : Struct h) (ha : Acyc h) (n v : Nat) (hn : n < h.size) (hv : v < h.size)
    (key : Option Bytes) (hk : KeyFits h n key) (hd : (h.get n).dirty = true) :
    Struct (h.appendNode n key v).1 ∧ Acyc (h.appendNode n key v).1 ∧ (h.appendNode n key v).1.size = h.size ∧
    (∀ m : Id, ((h.appendNode n key v).1.get m).type = (h.get m).type) ∧ ((h.appendNode n key v).1.get n).dirty = true := by
  have hdm := appendNode_dirty h n key v n hd
  by_cases hloop : h.isParentOrSelfNode n v = true
  · have e : h.appendNode n key v = (h, .err (errT .wrongRequest)) := by unfold Heap.appendNode; simp [hloop]
    rw [e]; exact ⟨hs, ha, rfl, fun _ => rfl, hd⟩
  · have hl : h.isParentOrSelfNode n v = false := by cases hx : h.isParentOrSelfNode n v <;> simp_all
    rcases hk with ⟨rfl, harr⟩ | ⟨k, rfl, hobj⟩
    · obtain ⟨_, sb, ac, sz, ty⟩ := appendNode_array_step hs ha n v hn hv harr hl
      exact ⟨sb.toStruct hdm, ac, sz, ty, hdm⟩
    · obtain ⟨_, sb, ac, sz, ty⟩ := appendNode_object_step hs ha n v hn hv hobj hl k
      exact ⟨sb.toStruct hdm, ac, sz, ty, hdm⟩

/-- the loop of `SetArray` / `SetObject` over the elements, on a dirty receiver: wherever it stops, the heap is sound -/
theorem appendAll_sound : ∀ (items : List (Option Bytes × Id)) (h : Heap) (n : Nat), Struct h → Acyc h → n < h.size →
    (h.get n).dirty = true → (∀ it ∈ items, (it.2 : Nat) < h.size ∧ KeyFits h n it.1) →
    Struct (h.appendAll n items).1 ∧ Acyc (h.appendAll n items).1 ∧ (h.appendAll n items).1.size = h.size
  | [], h, n, hs, ha, _, _, _ => ⟨hs, ha, rfl⟩
  | (k, c) :: rest, h, n, hs, ha, hn, hd, hit => by
    obtain ⟨hc, hkf⟩ := hit (k, c) (by simp)
    obtain ⟨s1, a1, z1, t1, d1⟩ := appendNode_dirty_receiver hs ha n c hn hc k hkf hd
    unfold Heap.appendAll
    generalize h.appendNode n k c = res at s1 a1 z1 t1 d1
    obtain ⟨h1, o⟩ := res
    simp only [] at s1 a1 z1 t1 d1
    cases o with
    | err e => exact ⟨s1, a1, z1⟩
    | panic s => exact ⟨s1, a1, z1⟩
    | ok u =>
      cases u
      simp only []
      have := appendAll_sound rest h1 n s1 a1 (by rw [z1]; exact hn) d1 (fun it hi => by
        obtain ⟨a, b⟩ := hit it (List.mem_cons_of_mem _ hi)
        refine ⟨by rw [z1]; exact a, ?_⟩
        unfold KeyFits at b ⊢
        rw [t1 n]; exact b)
      exact ⟨this.1, this.2.1, by rw [this.2.2, z1]⟩

/-! ### the receiver before the loop: marked, cleared, retyped to an empty container -/

theorem struct_retype_empty {S : Heap} (hs : Struct S) (n : Nat) (hn : n < S.size) (hch : (S.get n).children = none)
    (hd : (S.get n).dirty = true) (t : NType) (ht : t.isContainer = true) :
    Struct (S.modify n (fun r => { r with type := t, children := some [] })) := by
  have hgo : ∀ m : Nat, m ≠ n → (S.modify n (fun r => { r with type := t, children := some [] })).get m = S.get m :=
    fun m hm => get_modify_other _ _ _ _ hm
  have hgn : (S.modify n (fun r => { r with type := t, children := some [] })).get n = { S.get n with type := t, children := some [] } := by
    rw [get_modify]; simp [hn]
  have hcmn : S.childMap n = [] := by unfold childMap; rw [hch]; rfl
  have hcm : ∀ m : Nat, (S.modify n (fun r => { r with type := t, children := some [] })).childMap m = S.childMap m := by
    intro m
    by_cases hm : m = n
    · subst hm; rw [hcmn]; unfold childMap; rw [hgn]; rfl
    · unfold childMap; rw [hgo m hm]
  -- the fields the invariant reads, for every node
  have hf : ∀ m : Nat, ((S.modify n (fun r => { r with type := t, children := some [] })).get m).parent = (S.get m).parent ∧
      ((S.modify n (fun r => { r with type := t, children := some [] })).get m).key = (S.get m).key ∧
      ((S.modify n (fun r => { r with type := t, children := some [] })).get m).index = (S.get m).index ∧
      ((S.modify n (fun r => { r with type := t, children := some [] })).get m).dirty = (S.get m).dirty ∧
      ((S.modify n (fun r => { r with type := t, children := some [] })).get m).data = (S.get m).data ∧
      ((S.modify n (fun r => { r with type := t, children := some [] })).get m).b1 = (S.get m).b1 := by
    intro m
    by_cases hm : m = n
    · subst hm; rw [hgn]; exact ⟨rfl, rfl, rfl, rfl, rfl, rfl⟩
    · rw [hgo m hm]; exact ⟨rfl, rfl, rfl, rfl, rfl, rfl⟩
  intro p hp
  rw [size_modify] at hp
  have ok := hs p hp
  obtain ⟨f1, f2, f3, f4, f5, f6⟩ := hf p
  by_cases hpn : p = n
  · subst hpn
    refine ⟨?_, by rw [hcm, hcmn]; exact List.nodup_nil, ?_, ?_, ?_, ?_⟩
    · intro kc hkc; rw [hcm, hcmn] at hkc; cases hkc
    · intro _ i hi; rw [hcm, hcmn] at hi; cases hi
    · rw [hgn]; simp [ht]
    · intro q hq
      rw [f1] at hq
      obtain ⟨a, b, c, e⟩ := ok.par q hq
      have hqp : q ≠ p := by
        intro e'; subst e'
        rw [hcmn] at c; cases c
      have hcq := hcm q
      exact ⟨by rw [size_modify]; exact a, by rw [hgo q hqp]; exact b, by rw [hcq]; exact c, by rw [f4, hgo q hqp]; exact e⟩
    · intro hcl; rw [f4, hd] at hcl; cases hcl
  · have hgp := hgo p hpn
    refine ⟨?_, by rw [hcm]; exact ok.nodup, by rw [hcm, hgp]; exact ok.dense, by rw [hcm, hgp]; exact ok.shape, ?_, ?_⟩
    · intro kc hkc
      rw [hcm] at hkc
      obtain ⟨a, b, c, e⟩ := ok.kids kc hkc
      obtain ⟨g1, g2, g3, _⟩ := hf kc.2
      refine ⟨by rw [size_modify]; exact a, b, by rw [g1]; exact c, ?_⟩
      unfold PosOK at e ⊢
      rw [hgp, g2, g3]; exact e
    · intro q hq
      rw [f1] at hq
      obtain ⟨a, b, c, e⟩ := ok.par q hq
      have hqn : q ≠ n := by
        intro e'; subst e'
        rw [hcmn] at c; cases c
      exact ⟨by rw [size_modify]; exact a, by rw [hgo q hqn]; exact b, by rw [hcm]; exact c, by rw [f4, hgo q hqn]; exact e⟩
    · intro hcl
      rw [f4] at hcl
      obtain ⟨a, b, c⟩ := ok.clean hcl
      refine ⟨by rw [f5]; exact a, by rw [f6]; exact b, fun kc hkc => ?_⟩
      rw [hcm] at hkc
      rw [(hf kc.2).2.2.2.1]; exact c kc hkc

/-! ### SetArray / SetObject -/

/-- the heap `update` has built when the loop over the elements starts: the receiver marked, cleared and retyped to an empty container -/
theorem update_prepared {h : Heap} (hs : Struct h) (ha : Acyc h) (n : Nat) (hn : n < h.size) (t : NType) (ht : t.isContainer = true) :
    let R := ((((h.mark n).clear n).modify n (fun r => { r with type := t, cache := none })).modify n (fun r => { r with children := some [] }))
    Struct R ∧ Acyc R ∧ R.size = h.size ∧ (R.get n).dirty = true ∧ (R.get n).type = t := by
  intro R
  -- the scalar route gives the cleared receiver as a sound heap
  have e : h.update (some n) .null = (setScalar (h.mark n) n .null none, .ok ()) := by
    simp only [Heap.update, Heap.validate, setScalar, SetVal.type]
    congr 1
    symm
    apply modify_same
    rw [get_modify]; simp
    split <;> rfl
  have sS : Struct (setScalar (h.mark n) n .null none) := by
    have := (struct_update_scalar hs n hn .null rfl).1; rw [e] at this; exact this
  have aS : Acyc (setScalar (h.mark n) n .null none) := by
    have := acyc_update_scalar hs ha n hn .null rfl; rw [e] at this; exact this
  have hm := hs.mark n hn
  have hszm : n < (h.mark n).size := by rw [hm.2.1]; exact hn
  have hnk : (n : Id) ∉ ((h.mark n).childMap n).vals := by
    intro hx
    obtain ⟨kc, hkc, he⟩ := List.mem_map.mp hx
    exact ((hm.1 n hszm).kids kc hkc).2.1 he
  obtain ⟨_, _, s3, s4, _, _, _⟩ := setScalar_self (h.mark n) n .null none hszm hnk
  have hszS : (setScalar (h.mark n) n .null none).size = h.size := by rw [setScalar_size, hm.2.1]
  have hdS : ((setScalar (h.mark n) n .null none).get n).dirty = true := by rw [s4]; exact mark_self_dirty h n hn
  -- R is that heap with the receiver retyped
  have hR : R = (setScalar (h.mark n) n .null none).modify n (fun r => { r with type := t, children := some [] }) := by
    show ((((h.mark n).clear n).modify n (fun r => { r with type := t, cache := none })).modify n (fun r => { r with children := some [] })) = _
    unfold setScalar
    rw [modify_modify, modify_modify, modify_modify]
  rw [hR]
  refine ⟨struct_retype_empty sS n (by rw [hszS]; exact hn) s3 hdS t ht, acyc_modify_keep aS n _ (fun _ => rfl), by rw [size_modify, hszS], ?_, ?_⟩
  · rw [get_modify]; simp [hszS, hn]; exact hdS
  · rw [get_modify]; simp [hszS, hn]

/-- **SetArray**: any elements — fresh, detached, attached anywhere (they are moved), former children of the receiver — on any
receiver; sound and acyclic afterwards, whether the request is accepted or rejected -/
theorem setArray_sound {h : Heap} (hs : Struct h) (ha : Acyc h) (n : Nat) (hn : n < h.size) (ids : List Id) (hids : ∀ c ∈ ids, (c : Nat) < h.size) :
    Struct (h.update (some n) (.arr ids)).1 ∧ Acyc (h.update (some n) (.arr ids)).1 ∧ (h.update (some n) (.arr ids)).1.size = h.size := by
  by_cases hany : (ids.any fun c => h.isParentOrSelfNode n c) = true
  · have e : h.update (some n) (.arr ids) = (h, .err (errT .wrongRequest)) := by
      simp only [Heap.update, Heap.validate, hany, if_true]
    rw [e]; exact ⟨hs, ha, rfl⟩
  · have e : h.update (some n) (.arr ids) =
        ((((h.mark n).clear n).modify n (fun r => { r with type := .array, cache := none })).modify n (fun r => { r with children := some [] })).appendAll n
          (ids.map (fun c => (none, c))) := by
      simp only [Heap.update, Heap.validate, hany, Bool.false_eq_true, if_false, SetVal.type]
    rw [e]
    obtain ⟨sR, aR, zR, dR, tR⟩ := update_prepared hs ha n hn .array rfl
    have := appendAll_sound (ids.map (fun c => (none, c))) _ n sR aR (by rw [zR]; exact hn) dR (fun it hi => by
      obtain ⟨c, hc, rfl⟩ := List.mem_map.mp hi
      exact ⟨by rw [zR]; exact hids c hc, Or.inl ⟨rfl, tR⟩⟩)
    exact ⟨this.1, this.2.1, by rw [this.2.2, zR]⟩

/-- **SetObject**: any members under any keys -/
theorem setObject_sound {h : Heap} (hs : Struct h) (ha : Acyc h) (n : Nat) (hn : n < h.size) (kv : List (Bytes × Id))
    (hkv : ∀ p ∈ kv, (p.2 : Nat) < h.size) :
    Struct (h.update (some n) (.obj kv)).1 ∧ Acyc (h.update (some n) (.obj kv)).1 ∧ (h.update (some n) (.obj kv)).1.size = h.size := by
  by_cases hany : (kv.any fun p => h.isParentOrSelfNode n p.2) = true
  · have e : h.update (some n) (.obj kv) = (h, .err (errT .wrongRequest)) := by
      simp only [Heap.update, Heap.validate, hany, if_true]
    rw [e]; exact ⟨hs, ha, rfl⟩
  · have e : h.update (some n) (.obj kv) =
        ((((h.mark n).clear n).modify n (fun r => { r with type := .object, cache := none })).modify n (fun r => { r with children := some [] })).appendAll n
          (kv.map (fun p => (some p.1, p.2))) := by
      simp only [Heap.update, Heap.validate, hany, Bool.false_eq_true, if_false, SetVal.type]
    rw [e]
    obtain ⟨sR, aR, zR, dR, tR⟩ := update_prepared hs ha n hn .object rfl
    have := appendAll_sound (kv.map (fun p => (some p.1, p.2))) _ n sR aR (by rw [zR]; exact hn) dR (fun it hi => by
      obtain ⟨p, hp, rfl⟩ := List.mem_map.mp hi
      exact ⟨by rw [zR]; exact hkv p hp, Or.inr ⟨p.1, rfl, tR⟩⟩)
    exact ⟨this.1, this.2.1, by rw [this.2.2, zR]⟩

end Ajson.Proofs
