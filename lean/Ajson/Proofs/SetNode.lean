/-
SetNode(value): the receiver takes over a clone of `value` — type, payload and children — and keeps its own place in the tree.
The model follows the Go code: clone, give the clone the receiver's links, detach the receiver's old children, copy the clone's
record over the receiver, re-parent the adopted children, mark the parent. The heap afterwards is sound and acyclic.
-/
import Ajson.Proofs.CloneSound
namespace Ajson.Proofs
open Ajson Ajson.Heap

theorem foldl_parent_size (kids : List Id) (p : Option Id) (h : Heap) :
    (kids.foldl (fun h c => h.modify c (fun r => { r with parent := p })) h).size = h.size := by
  induction kids generalizing h with
  | nil => rfl
  | cons c cs ih => simp only [List.foldl_cons]; rw [ih]; simp

theorem foldl_parent_datas (kids : List Id) (p : Option Id) (h : Heap) :
    (kids.foldl (fun h c => h.modify c (fun r => { r with parent := p })) h).datas = h.datas := by
  induction kids generalizing h with
  | nil => rfl
  | cons c cs ih => simp only [List.foldl_cons]; rw [ih]; simp

theorem foldl_parent_get (kids : List Id) (p : Option Id) (h : Heap) (m : Nat) :
    (kids.foldl (fun h c => h.modify c (fun r => { r with parent := p })) h).get m =
      if (m : Id) ∈ kids ∧ m < h.size then { h.get m with parent := p } else h.get m := by
  induction kids generalizing h with
  | nil => simp
  | cons c cs ih =>
    simp only [List.foldl_cons]
    rw [ih]
    simp only [size_modify, List.mem_cons]
    by_cases hmc : m = c
    · subst hmc
      by_cases hlt : m < h.size
      · simp [get_modify, hlt]
      · simp [get_modify, hlt]
    · have : (m : Id) ≠ c := hmc
      rw [get_modify_other _ _ _ _ hmc]
      by_cases hin : (m : Id) ∈ cs
      · simp [hin]
      · simp [hin, this]

/-- what `SetNode` does with the clone `c` of the value (everything but the final `mark` of the receiver's parent) -/
def rewire (H1 : Heap) (n c : Id) : Heap :=
  let rn := H1.get n
  let h2 := H1.setReference c rn.parent rn.key rn.index
  let h3 := h2.setReference n none none none
  let h4 := (h3.childMap n).vals.foldl (fun h x => h.modify x (fun r => { r with parent := none })) h3
  let h5a := h4.set n (h4.get c)
  let h5 := h5a.set c { dirty := true }
  (h5.childMap n).vals.foldl (fun h x => h.modify x (fun r => { r with parent := some n })) h5

theorem setNode_eq (h : Heap) (n value : Id) (hne : n ≠ value) (hl : h.isParentOrSelfNode n value = false) :
    h.setNode n value =
      (match ((rewire (h.clone value).1 n (h.clone value).2).get n).parent with
       | some p => ((rewire (h.clone value).1 n (h.clone value).2).mark p, .ok ())
       | none => (rewire (h.clone value).1 n (h.clone value).2, .ok ())) := by
  unfold Heap.setNode rewire
  have : (n == value) = false := by simp [hne]
  simp only [this, hl, Bool.false_eq_true, if_false]
  rfl

theorem rewire_size (H1 : Heap) (n c : Id) : (rewire H1 n c).size = H1.size := by
  unfold rewire
  simp only [foldl_parent_size, size_set, Heap.setReference, size_modify]

theorem rewire_datas (H1 : Heap) (n c : Id) : (rewire H1 n c).datas = H1.datas := by
  unfold rewire
  simp only [foldl_parent_datas, datas_set, Heap.setReference, datas_modify]

/-- the records after the rewiring, node by node -/
theorem rewire_get (H1 : Heap) (n c : Nat) (hn : n < H1.size) (hc : c < H1.size) (hcn : c ≠ n)
    (hko : ∀ x : Id, x ∈ (H1.childMap n).vals → x ≠ n ∧ x ≠ c ∧ (x : Nat) < H1.size)
    (hkn : ∀ x : Id, x ∈ (H1.childMap c).vals → x ≠ n ∧ x ≠ c ∧ (x : Nat) < H1.size ∧ x ∉ (H1.childMap n).vals) (m : Nat) :
    (rewire H1 n c).get m =
      if m = n then { H1.get c with parent := (H1.get n).parent, key := (H1.get n).key, index := (H1.get n).index }
      else if m = c then { dirty := true }
      else if (m : Id) ∈ (H1.childMap c).vals then { H1.get m with parent := some n }
      else if (m : Id) ∈ (H1.childMap n).vals then { H1.get m with parent := none }
      else H1.get m := by
  -- the heaps of the individual steps
  have g2 : ∀ x : Nat, (H1.setReference c (H1.get n).parent (H1.get n).key (H1.get n).index).get x =
      if x = c then { H1.get c with parent := (H1.get n).parent, key := (H1.get n).key, index := (H1.get n).index } else H1.get x := by
    intro x; unfold Heap.setReference; rw [get_modify]; simp [hc]
  have g3 : ∀ x : Nat, ((H1.setReference c (H1.get n).parent (H1.get n).key (H1.get n).index).setReference n none none none).get x =
      if x = n then { H1.get n with parent := none, key := none, index := none }
      else if x = c then { H1.get c with parent := (H1.get n).parent, key := (H1.get n).key, index := (H1.get n).index } else H1.get x := by
    intro x
    unfold Heap.setReference
    rw [get_modify]
    simp only [size_modify, hn, and_true]
    by_cases hx : x = n
    · subst hx
      have := g2 x
      unfold Heap.setReference at this
      simp only [if_true, this, hcn.symm, if_false]
    · simp only [hx, if_false]
      have := g2 x
      unfold Heap.setReference at this
      exact this
  have cm3 : ((H1.setReference c (H1.get n).parent (H1.get n).key (H1.get n).index).setReference n none none none).childMap n = H1.childMap n := by
    unfold childMap; rw [g3 n]; simp
  have sz3 : ((H1.setReference c (H1.get n).parent (H1.get n).key (H1.get n).index).setReference n none none none).size = H1.size := by
    simp [Heap.setReference]
  unfold rewire
  simp only []
  rw [cm3]
  generalize hh3 : (H1.setReference c (H1.get n).parent (H1.get n).key (H1.get n).index).setReference n none none none = h3 at g3 sz3
  -- after the old children are detached
  have g4 : ∀ x : Nat, ((H1.childMap n).vals.foldl (fun h y => h.modify y (fun r => { r with parent := none })) h3).get x =
      if (x : Id) ∈ (H1.childMap n).vals then { h3.get x with parent := none } else h3.get x := by
    intro x
    rw [foldl_parent_get]
    by_cases hx : (x : Id) ∈ (H1.childMap n).vals
    · have := (hko x hx).2.2
      simp [hx, sz3, this]
    · simp [hx]
  generalize hh4 : (H1.childMap n).vals.foldl (fun h y => h.modify y (fun r => { r with parent := none })) h3 = h4 at g4
  have sz4 : h4.size = H1.size := by rw [← hh4, foldl_parent_size, sz3]
  have hcK : (c : Id) ∉ (H1.childMap n).vals := fun hx => (hko c hx).2.1 rfl
  have hnK : (n : Id) ∉ (H1.childMap n).vals := fun hx => (hko n hx).1 rfl
  have g4c : h4.get c = { H1.get c with parent := (H1.get n).parent, key := (H1.get n).key, index := (H1.get n).index } := by
    rw [g4 c]; simp only [hcK, if_false]; rw [g3 c]; simp [hcn]
  -- *n = *node; the clone's record is emptied
  have g5 : ∀ x : Nat, ((h4.set n (h4.get c)).set c { dirty := true }).get x =
      if x = c then { dirty := true } else if x = n then h4.get c else h4.get x := by
    intro x
    rw [get_set]
    simp only [size_set, sz4, hc, and_true]
    by_cases hxc : x = c
    · simp [hxc]
    · simp only [hxc, if_false]
      rw [get_set]
      simp [sz4, hn]
  have cm5 : ((h4.set n (h4.get c)).set c { dirty := true }).childMap n = H1.childMap c := by
    unfold childMap
    rw [g5 n]
    simp only [Ne.symm hcn, if_false, if_true, g4c]
  rw [cm5]
  generalize hh5 : (h4.set n (h4.get c)).set c { dirty := true } = h5 at g5
  have sz5 : h5.size = H1.size := by rw [← hh5]; simp [sz4]
  rw [foldl_parent_get]
  by_cases hmn : m = n
  · subst hmn
    have : (m : Id) ∉ (H1.childMap c).vals := fun hx => (hkn m hx).1 rfl
    simp only [this, false_and, if_false, if_true]
    rw [g5 m]; simp only [Ne.symm hcn, if_false, if_true, g4c]
  · by_cases hmc : m = c
    · subst hmc
      have : (m : Id) ∉ (H1.childMap m).vals := fun hx => (hkn m hx).2.1 rfl
      simp only [this, false_and, if_false, hmn, if_true]
      rw [g5 m]; simp
    · simp only [hmn, hmc, if_false]
      by_cases hin : (m : Id) ∈ (H1.childMap c).vals
      · have hlt := (hkn m hin).2.2.1
        have hno := (hkn m hin).2.2.2
        simp only [hin, sz5, hlt, and_self, if_true]
        rw [g5 m]; simp only [hmc, hmn, if_false]
        rw [g4 m]; simp only [hno, if_false]
        rw [g3 m]; simp [hmn, hmc]
      · simp only [hin, false_and, if_false]
        rw [g5 m]; simp only [hmc, hmn, if_false]
        rw [g4 m]
        by_cases hio : (m : Id) ∈ (H1.childMap n).vals
        · simp only [hio, if_true]; rw [g3 m]; simp [hmn, hmc]
        · simp only [hio, if_false]; rw [g3 m]; simp [hmn, hmc]

/-! ### soundness of the rewired heap -/

/-- the invariant of one node with the two obligations relaxed that marking the node `po` (if any) restores -/
structure NodeOKOpt (h : Heap) (po : Option Nat) (p : Nat) : Prop where
  kids : ∀ kc ∈ h.childMap p, (kc.2 : Nat) < h.size ∧ (kc.2 : Nat) ≠ p ∧ (h.get kc.2).parent = some p ∧ PosOK h p kc
  nodup : (h.childMap p).keys.Nodup
  dense : (h.get p).type = .array → ∀ i : Nat, i < (h.childMap p).length → ((h.childMap p).lookup (itoa i)).isSome = true
  shape : if (h.get p).type.isContainer = true then (h.get p).children.isSome = true else h.childMap p = []
  par : ∀ q : Nat, (h.get p).parent = some q → q < h.size ∧ (h.get q).type.isContainer = true ∧ (p : Id) ∈ (h.childMap q).vals ∧
    ((h.get p).dirty = true → (h.get q).dirty = true ∨ some q = po)
  clean : some p ≠ po → (h.get p).dirty = false → (h.get p).data.isSome = true ∧ (h.get p).b1 ≠ 0 ∧ ∀ kc ∈ h.childMap p, (h.get kc.2).dirty = false

/-- an acyclic "old" part, and new nodes whose parents are smaller: no cycles -/
theorem acyc_of_split {G F : Heap} (N : Nat) (ha : Acyc G) (hGold : ∀ m q : Nat, m < N → (G.get m).parent = some q → q < N)
    (hsub : ∀ m q : Nat, m < N → (F.get m).parent = some q → (G.get m).parent = some q)
    (hnew : ∀ m q : Nat, N ≤ m → (F.get m).parent = some q → q < m) : Acyc F := by
  have key : ∀ (n : Nat) (k : Nat) (m : Nat), up F n k = some m →
      (n < N → m < N ∧ up G n k = some m) ∧ (N ≤ n → m < N ∨ m + k ≤ n) := by
    intro n k
    induction k with
    | zero =>
      intro m hm
      simp only [up, Option.some.injEq] at hm
      subst hm
      exact ⟨fun hn => ⟨hn, rfl⟩, fun _ => Or.inr (by omega)⟩
    | succ k ih =>
      intro m hm
      simp only [up] at hm
      cases hu : up F n k with
      | none => rw [hu] at hm; cases hm
      | some z =>
        rw [hu] at hm
        have hm : (F.get z).parent = some m := hm
        obtain ⟨i1, i2⟩ := ih z hu
        constructor
        · intro hn
          obtain ⟨hz, hz2⟩ := i1 hn
          have hg := hsub z m hz hm
          refine ⟨hGold z m hz hg, ?_⟩
          simp only [up, hz2]; exact hg
        · intro hn
          rcases i2 hn with hz | hz
          · exact Or.inl (hGold z m hz (hsub z m hz hm))
          · by_cases hzo : (z : Nat) < N
            · exact Or.inl (hGold z m hzo (hsub z m hzo hm))
            · have h1 : m < z := hnew z m (Nat.le_of_not_lt hzo) hm
              have h2 : z + k ≤ n := hz
              exact Or.inr (by omega)
  intro n k hk
  revert hk; revert n; intro (n : Nat) hk
  obtain ⟨k1, k2⟩ := key n (k + 1) n hk
  by_cases hn : n < N
  · exact ha n k (k1 hn).2
  · rcases k2 (by omega) with h1 | h1 <;> omega

/-- **the rewired heap**: every node satisfies the invariant up to what marking the receiver's parent restores, and there are no
cycles. `N` is the size of the heap before the clone was made: the receiver and its surroundings lie below it, the clone at and
above it. -/
theorem rewire_sound {H1 : Heap} (s1 : Struct H1) (a1 : Acyc H1) (n c N : Nat) (hnN : n < N) (hcN : N ≤ c) (hc : c < H1.size)
    (hcroot : (H1.get c).parent = none)
    (hGold : ∀ m q : Nat, m < N → (H1.get m).parent = some q → q < N)
    (hnewpar : ∀ m q : Nat, N ≤ m → (H1.get m).parent = some q → N ≤ q ∧ q < m) :
    (∀ x : Nat, x < (rewire H1 n c).size → NodeOKOpt (rewire H1 n c) (H1.get n).parent x) ∧ Acyc (rewire H1 n c) ∧
    ((rewire H1 n c).get n).parent = (H1.get n).parent := by
  have hn : n < H1.size := by omega
  have hcn : c ≠ n := by omega
  have okn := s1 n hn
  have okc := s1 c hc
  -- old children of the receiver are old nodes, children of the clone are new nodes
  have hKo : ∀ x : Id, x ∈ (H1.childMap n).vals → (x : Nat) < N ∧ (x : Nat) < H1.size ∧ x ≠ n ∧ (H1.get x).parent = some n := by
    intro x hx
    obtain ⟨kc, hkc, he⟩ := List.mem_map.mp hx
    obtain ⟨a, b, c', _⟩ := okn.kids kc hkc
    rw [he] at a b c'
    refine ⟨?_, a, b, c'⟩
    by_cases hlt : (x : Nat) < N
    · exact hlt
    · exact absurd hnN (Nat.not_lt.mpr (hnewpar x n (Nat.le_of_not_lt hlt) c').1)
  have hKn : ∀ x : Id, x ∈ (H1.childMap c).vals → N ≤ (x : Nat) ∧ (x : Nat) < H1.size ∧ x ≠ c ∧ (H1.get x).parent = some c := by
    intro x hx
    obtain ⟨kc, hkc, he⟩ := List.mem_map.mp hx
    obtain ⟨a, b, c', _⟩ := okc.kids kc hkc
    rw [he] at a b c'
    refine ⟨?_, a, b, c'⟩
    by_cases hlt : (x : Nat) < N
    · have := hGold x c hlt c'; omega
    · exact Nat.le_of_not_lt hlt
  have hko : ∀ x : Id, x ∈ (H1.childMap n).vals → x ≠ n ∧ x ≠ c ∧ (x : Nat) < H1.size := by
    intro x hx
    obtain ⟨a, b, c', _⟩ := hKo x hx
    exact ⟨c', fun e => by subst e; exact absurd a (Nat.not_lt.mpr hcN), b⟩
  have hkn : ∀ x : Id, x ∈ (H1.childMap c).vals → x ≠ n ∧ x ≠ c ∧ (x : Nat) < H1.size ∧ x ∉ (H1.childMap n).vals := by
    intro x hx
    obtain ⟨a, b, c', _⟩ := hKn x hx
    exact ⟨fun e => by subst e; exact absurd hnN (Nat.not_lt.mpr a), c', b, fun hx' => absurd (hKo x hx').1 (Nat.not_lt.mpr a)⟩
  have G := rewire_get H1 n c hn hc hcn hko hkn
  have hsz := rewire_size H1 n c
  generalize rewire H1 n c = F at G hsz ⊢
  -- records of F
  have Fn : F.get n = { H1.get c with parent := (H1.get n).parent, key := (H1.get n).key, index := (H1.get n).index } := by
    rw [G n]; simp
  have Fc : F.get c = { dirty := true } := by rw [G c]; simp [hcn]
  have Fother : ∀ x : Nat, x ≠ n → x ≠ c → EqModParent (F.get x) (H1.get x) := by
    intro x h1 h2
    rw [G x]
    simp only [h1, h2, if_false]
    unfold EqModParent
    split
    · rfl
    · split
      · rfl
      · rfl
  have Fpar : ∀ x : Nat, x ≠ n → x ≠ c → (F.get x).parent =
      if (x : Id) ∈ (H1.childMap c).vals then some n else if (x : Id) ∈ (H1.childMap n).vals then none else (H1.get x).parent := by
    intro x h1 h2
    rw [G x]
    simp only [h1, h2, if_false]
    split
    · rfl
    · split <;> rfl
  have cmn : F.childMap n = H1.childMap c := by unfold childMap; rw [Fn]
  have cmc : F.childMap c = [] := by unfold childMap; rw [Fc]; rfl
  have cmo : ∀ x : Nat, x ≠ n → x ≠ c → F.childMap x = H1.childMap x := by
    intro x h1 h2; unfold childMap; rw [(Fother x h1 h2).fields.2.2.2.2.2.1]
  -- the clone is a container as soon as it has children
  have ccont : ∀ x : Id, x ∈ (H1.childMap c).vals → (H1.get c).type.isContainer = true := by
    intro x hx
    cases hcc : (H1.get c).type.isContainer with
    | true => rfl
    | false =>
      have := okc.shape
      rw [hcc] at this
      simp only [Bool.false_eq_true, if_false] at this
      rw [this] at hx; cases hx
  -- the parent of the receiver is an old node that is neither the receiver, nor the clone, nor a child of either
  have hpn : ∀ q : Nat, (H1.get n).parent = some q → q ≠ n ∧ q ≠ c ∧ (q : Id) ∉ (H1.childMap c).vals ∧ (q : Id) ∉ (H1.childMap n).vals := by
    intro q hq
    have hqN := hGold n q hnN hq
    refine ⟨?_, fun e => by omega, fun hx => by have := (hKn q hx).1; omega, ?_⟩
    · intro e
      rw [e] at hq
      exact Acyc.no_self_parent a1 n hq
    · intro hx
      have hpq := (hKo q hx).2.2.2
      exact a1 n 1 (by simp [up, hq, hpq])
  refine ⟨?_, ?_, by rw [Fn]⟩
  · intro x hx
    rw [hsz] at hx
    have okx := s1 x hx
    by_cases hxn : x = n
    · -- the receiver: the clone's record with the receiver's links
      subst hxn
      refine ⟨?_, by rw [cmn]; exact okc.nodup, ?_, ?_, ?_, ?_⟩
      · intro kc hkc
        rw [cmn] at hkc
        obtain ⟨a, b, c', d⟩ := okc.kids kc hkc
        have hin : kc.2 ∈ (H1.childMap c).vals := List.mem_map.mpr ⟨kc, hkc, rfl⟩
        obtain ⟨k1, k2, _, _⟩ := hkn kc.2 hin
        have ek := Fother kc.2 k1 k2
        refine ⟨by rw [hsz]; exact a, k1, by rw [Fpar kc.2 k1 k2]; simp [hin], ?_⟩
        unfold PosOK at d ⊢
        rw [Fn, ek.fields.2.2.2.2.2.2.2.1, ek.fields.2.2.2.2.2.2.2.2]
        exact d
      · intro ht i hi
        rw [cmn] at hi ⊢
        rw [Fn] at ht
        exact okc.dense ht i hi
      · have hsh := okc.shape
        rw [cmn, Fn]
        exact hsh
      · intro q hq
        rw [Fn] at hq
        have hq' : (H1.get x).parent = some q := hq
        obtain ⟨a, b, c', _⟩ := okn.par q hq'
        obtain ⟨q1, q2, q3, q4⟩ := hpn q hq'
        have eq := Fother q q1 q2
        refine ⟨by rw [hsz]; exact a, by rw [eq.fields.1]; exact b, by rw [cmo q q1 q2]; exact c', fun _ => Or.inr hq'.symm⟩
      · intro _ hd
        rw [Fn] at hd ⊢
        obtain ⟨c1, c2, c3⟩ := okc.clean hd
        refine ⟨c1, c2, fun kc hkc => ?_⟩
        rw [cmn] at hkc
        have hin : kc.2 ∈ (H1.childMap c).vals := List.mem_map.mpr ⟨kc, hkc, rfl⟩
        obtain ⟨k1, k2, _, _⟩ := hkn kc.2 hin
        rw [(Fother kc.2 k1 k2).fields.2.2.2.2.1]
        exact c3 kc hkc
    · by_cases hxc : x = c
      · -- the emptied clone root
        subst hxc
        refine ⟨?_, by rw [cmc]; exact List.nodup_nil, ?_, ?_, ?_, ?_⟩
        · intro kc hkc; rw [cmc] at hkc; cases hkc
        · intro ht; rw [Fc] at ht; cases ht
        · rw [Fc]; simpa [NType.isContainer] using cmc
        · intro q hq; rw [Fc] at hq; cases hq
        · intro _ hd; rw [Fc] at hd; cases hd
      · -- every other node: its record but for the parent pointer
        have ex := Fother x hxn hxc
        obtain ⟨f1, f2, _, f4, f5, f6, _, _, _⟩ := ex.fields
        have hcmx := cmo x hxn hxc
        refine ⟨?_, by rw [hcmx]; exact okx.nodup, by rw [hcmx, f1]; exact okx.dense, by rw [hcmx, f1, f6]; exact okx.shape, ?_, ?_⟩
        · intro kc hkc
          rw [hcmx] at hkc
          obtain ⟨a, b, c', d⟩ := okx.kids kc hkc
          -- the child is not the clone root (which has no parent), not a child of the clone or of the receiver (x is neither)
          have kc_c : (kc.2 : Nat) ≠ c := by intro e; rw [e, hcroot] at c'; cases c'
          have kc_kn : (kc.2 : Id) ∉ (H1.childMap c).vals := by
            intro hx'; have := (hKn kc.2 hx').2.2.2; rw [c'] at this; exact hxc (Option.some.inj this)
          have kc_ko : (kc.2 : Id) ∉ (H1.childMap n).vals := by
            intro hx'; have := (hKo kc.2 hx').2.2.2; rw [c'] at this; exact hxn (Option.some.inj this)
          refine ⟨by rw [hsz]; exact a, b, ?_, ?_⟩
          · by_cases hkn' : (kc.2 : Nat) = n
            · rw [hkn', Fn]; rw [hkn'] at c'; exact c'
            · rw [Fpar kc.2 hkn' kc_c]; simp only [kc_kn, kc_ko, if_false]; exact c'
          · unfold PosOK at d ⊢
            rw [f1]
            by_cases hkn' : (kc.2 : Nat) = n
            · rw [hkn', Fn]; rw [hkn'] at d; exact d
            · have ek := Fother kc.2 hkn' kc_c
              rw [ek.fields.2.2.2.2.2.2.2.1, ek.fields.2.2.2.2.2.2.2.2]; exact d
        · intro q hq
          rw [Fpar x hxn hxc] at hq
          by_cases h1 : (x : Id) ∈ (H1.childMap c).vals
          · -- adopted child: hangs under the receiver now
            simp only [h1, if_true, Option.some.injEq] at hq
            subst hq
            have hpx := (hKn x h1).2.2.2
            refine ⟨by rw [hsz]; exact hn, by rw [Fn]; exact ccont x h1, by rw [cmn]; exact h1, fun hd => Or.inl ?_⟩
            rw [Fn]
            rw [f5] at hd
            exact ((okx.par c hpx).2.2.2 hd)
          · simp only [h1, if_false] at hq
            by_cases h2 : (x : Id) ∈ (H1.childMap n).vals
            · simp only [h2, if_true] at hq; cases hq
            · simp only [h2, if_false] at hq
              obtain ⟨a, b, c', d⟩ := okx.par q hq
              have hqn : q ≠ n := by intro e; rw [e] at c'; exact h2 c'
              have hqc : q ≠ c := by intro e; rw [e] at c'; exact h1 c'
              have eq := Fother q hqn hqc
              exact ⟨by rw [hsz]; exact a, by rw [eq.fields.1]; exact b, by rw [cmo q hqn hqc]; exact c',
                fun hd => Or.inl (by rw [eq.fields.2.2.2.2.1]; exact d (by rw [← f5]; exact hd))⟩
        · intro hpo hd
          rw [f5] at hd
          obtain ⟨c1, c2, c3⟩ := okx.clean hd
          refine ⟨by rw [f2]; exact c1, by rw [f4]; exact c2, fun kc hkc => ?_⟩
          rw [hcmx] at hkc
          obtain ⟨_, _, c', _⟩ := okx.kids kc hkc
          have kc_c : (kc.2 : Nat) ≠ c := by intro e; rw [e, hcroot] at c'; cases c'
          have kc_n : (kc.2 : Nat) ≠ n := by
            intro e
            rw [e] at c'
            exact hpo c'.symm
          rw [(Fother kc.2 kc_n kc_c).fields.2.2.2.2.1]
          exact c3 kc hkc
  · -- no cycles
    apply acyc_of_split N a1 hGold
    · intro m q hm hq
      by_cases hmn : m = n
      · subst hmn; rw [Fn] at hq; exact hq
      · have hmc : m ≠ c := by omega
        rw [Fpar m hmn hmc] at hq
        by_cases h1 : (m : Id) ∈ (H1.childMap c).vals
        · have := (hKn m h1).1; omega
        · simp only [h1, if_false] at hq
          by_cases h2 : (m : Id) ∈ (H1.childMap n).vals
          · simp only [h2, if_true] at hq; cases hq
          · simp only [h2, if_false] at hq; exact hq
    · intro m q hm hq
      by_cases hmc : m = c
      · subst hmc; rw [Fc] at hq; cases hq
      · have hmn : m ≠ n := by omega
        rw [Fpar m hmn hmc] at hq
        by_cases h1 : (m : Id) ∈ (H1.childMap c).vals
        · simp only [h1, if_true, Option.some.injEq] at hq
          omega
        · simp only [h1, if_false] at hq
          by_cases h2 : (m : Id) ∈ (H1.childMap n).vals
          · simp only [h2, if_true] at hq; cases hq
          · simp only [h2, if_false] at hq
            exact (hnewpar m q hm hq).2

/-! ### SetNode -/

theorem NodeOKOpt.toNone {h : Heap} {p : Nat} (ok : NodeOKOpt h none p) : NodeOK h p :=
  ⟨ok.kids, ok.nodup, ok.dense, ok.shape,
    fun q hq => let r := ok.par q hq; ⟨r.1, r.2.1, r.2.2.1, fun hd => by rcases r.2.2.2 hd with h1 | h1; exact h1; cases h1⟩,
    ok.clean (by simp)⟩

theorem NodeOKOpt.toBut {h : Heap} {p0 p : Nat} (ok : NodeOKOpt h (some p0) p) : NodeOKBut h p0 p :=
  ⟨ok.kids, ok.nodup, ok.dense, ok.shape,
    fun q hq => let r := ok.par q hq; ⟨r.1, r.2.1, r.2.2.1, fun hd => by
      rcases r.2.2.2 hd with h1 | h1
      · exact Or.inl h1
      · exact Or.inr (Option.some.inj h1)⟩,
    fun hne => ok.clean (fun e => hne (Option.some.inj e))⟩

/-- **SetNode keeps the heap sound and acyclic**: for any receiver and any value of a sound acyclic heap — the value a scalar or a
container, parsed or constructed, clean or edited, detached or attached anywhere, in the receiver's document or another one — the
request is accepted unless the value is the receiver's own ancestor, and the heap afterwards satisfies the invariant and has no cycles -/
theorem setNode_sound {h : Heap} (hs : Struct h) (ha : Acyc h) (n value : Nat) (hn : n < h.size) (hv : value < h.size) :
    Struct (h.setNode n value).1 ∧ Acyc (h.setNode n value).1 ∧ h.size ≤ (h.setNode n value).1.size := by
  by_cases hne : n = value
  · have e : h.setNode n value = (h, .ok ()) := by unfold Heap.setNode; simp [hne]
    rw [e]; exact ⟨hs, ha, Nat.le_refl _⟩
  · by_cases hloop : h.isParentOrSelfNode n value = true
    · have e : h.setNode n value = (h, .err (errT .wrongRequest)) := by
        unfold Heap.setNode
        have : (n == value) = false := by simp [hne]
        simp [this, hloop]
      rw [e]; exact ⟨hs, ha, Nat.le_refl _⟩
    · have hl : h.isParentOrSelfNode n value = false := by cases hx : h.isParentOrSelfNode n value <;> simp_all
      rw [setNode_eq h n value hne hl]
      obtain ⟨s1, a1, z1, c1⟩ := clone_sound hs ha value hv
      obtain ⟨hcroot, hnp⟩ := clone_new_parents hs ha value hv
      have hok := clone_ok h value (clone_hypothesis hs ha value hv)
      have hold : ∀ m : Nat, m < h.size → (h.clone value).1.get m = h.get m := hok.2.2.1
      generalize (h.clone value).1 = H1 at *
      generalize (h.clone value).2 = c at *
      have hc : (c : Nat) = h.size := c1
      subst hc
      have hGold : ∀ m q : Nat, m < h.size → (H1.get m).parent = some q → q < h.size := by
        intro m q hm hq
        rw [hold m hm] at hq
        exact hs.pir m hm q hq
      obtain ⟨nodes, acy, hpar⟩ := rewire_sound s1 a1 n h.size h.size hn (Nat.le_refl _) z1 hcroot hGold hnp
      have hsz := rewire_size H1 n h.size
      generalize rewire H1 n h.size = F at nodes acy hpar hsz ⊢
      cases hp : (F.get n).parent with
      | none =>
        simp only []
        rw [hp] at hpar
        refine ⟨fun x hx => ?_, acy, by rw [hsz]; exact Nat.le_of_lt z1⟩
        have := nodes x hx
        rw [← hpar] at this
        exact this.toNone
      | some p =>
        simp only []
        rw [hp] at hpar
        have sb : StructBut F p := fun x hx => by
          have := nodes x hx
          rw [← hpar] at this
          exact this.toBut
        have hpF : p < F.size := ((nodes n (by rw [hsz]; omega)).par p hp).1
        exact ⟨sb.mark hpF, acyc_mark acy p, by rw [size_mark, hsz]; exact Nat.le_of_lt z1⟩

end Ajson.Proofs
