/-
SetNode on plain data: afterwards the receiver denotes what the value denotes, and every node that is neither the receiver nor one of
its ancestors — the receiver's former children, now detached, the value and its document, all other trees — denotes what it denoted
before.
-/
import Ajson.Proofs.SetNode
import Ajson.Proofs.CloneValue
namespace Ajson.Proofs
open Ajson Ajson.Heap

/-- the payload of a scalar is a function of the record (without the links) and the buffers — also between two different nodes -/
theorem scalarVal_congr2 (h h' : Heap) (n n' : Id) (hd : h'.datas = h.datas) (hr : EqModLinks (h'.get n') (h.get n))
    (hsc : (h.get n).type.isContainer = false) : scalarVal h' n' = scalarVal h n := by
  obtain ⟨e1, e2, e3, e4, e5, e6, e7⟩ := hr
  have hsrc : h'.source n' = h.source n := by unfold Heap.source; simp only [e2, e3, e4, e5, hd]
  unfold scalarVal Heap.getValue
  simp only [e7, e1, hsrc, e6, e2, e3, hd]
  cases (h.get n).cache with
  | some v => rfl
  | none =>
    simp only []
    cases ht : (h.get n).type with
    | null => rfl
    | numeric => cases parseFloat64 ((h.source n).getD []) <;> rfl
    | string =>
      cases unquoteBytes ((h.source n).getD []) (UInt8.ofNat Gen.b_quotes) with
      | some s => rfl
      | none =>
        simp only []
        cases (h.get n).data with
        | none => rfl
        | some d => simp only []; cases (h.datas.getD d [])[(h.get n).b0]? <;> rfl
    | bool => cases (h.source n).getD [] <;> rfl
    | array => simp [ht, NType.isContainer] at hsc
    | object => simp [ht, NType.isContainer] at hsc

/-- the value of a node only depends on the node's own type, payload and children map and on the values of its children -/
theorem absVal_step (h h' : Heap) (n n' : Id) (fuel : Nat) (ht : h'.typeOf n' = h.typeOf n)
    (hs : (h.typeOf n).isContainer = false → scalarVal h' n' = scalarVal h n) (hc : h'.childMap n' = h.childMap n)
    (hk : ∀ x ∈ (h.childMap n).vals, absVal fuel h' x = absVal fuel h x) : absVal (fuel + 1) h' n' = absVal (fuel + 1) h n := by
  unfold absVal
  rw [ht]
  cases hty : h.typeOf n with
  | null => rfl
  | numeric => simp only []; rw [hs (by rw [hty]; rfl)]
  | string => simp only []; rw [hs (by rw [hty]; rfl)]
  | bool => simp only []; rw [hs (by rw [hty]; rfl)]
  | array =>
    simp only []
    rw [hc, mapM_congr _ (fun c => absVal fuel h c) _ (fun x hx => hk x (mem_arrayIds hx))]
  | object =>
    simp only []
    rw [hc, mapM_congr _ (fun p => (absVal fuel h p.2).map (fun v => (p.1, v))) _ (fun p hp => by
      rw [hk p.2 (List.mem_map.mpr ⟨p, hp, rfl⟩)])]

theorem eqModLinks_of_parent {r r' : NodeRec} (h : EqModParent r r') : EqModLinks r r' := by
  obtain ⟨a, b, c, d, e, f, g, _, _⟩ := h.fields
  exact ⟨a, b, c, d, e, f, g⟩

/-- the values in the rewired heap: the receiver denotes what the clone denoted, and every old node that is neither the receiver nor
above it keeps its value -/
theorem rewire_value {H1 : Heap} (s1 : Struct H1) (n c N : Nat) (hnN : n < N) (hcN : N ≤ c) (hc : c < H1.size)
    (hcroot : (H1.get c).parent = none)
    (hGold : ∀ m q : Nat, m < N → (H1.get m).parent = some q → q < N)
    (hnewpar : ∀ m q : Nat, N ≤ m → (H1.get m).parent = some q → N ≤ q ∧ q < m) (fuel : Nat) :
    absVal fuel (rewire H1 n c) n = absVal fuel H1 c ∧
    (∀ m : Nat, m < N → ¬ Anc H1 m n → absVal fuel (rewire H1 n c) m = absVal fuel H1 m) := by
  have hn : n < H1.size := by omega
  have hcn : c ≠ n := by omega
  have okn := s1 n hn
  have okc := s1 c hc
  have hKo : ∀ x : Id, x ∈ (H1.childMap n).vals → (x : Nat) < N ∧ (x : Nat) < H1.size ∧ x ≠ n ∧ (H1.get x).parent = some n := by
    intro x hx
    obtain ⟨kc, hkc, he⟩ := List.mem_map.mp hx
    obtain ⟨a, b, c', _⟩ := okn.kids kc hkc
    rw [he] at a b c'
    refine ⟨?_, a, b, c'⟩
    by_cases hlt : (x : Nat) < N
    · exact hlt
    · exact absurd hnN (Nat.not_lt.mpr (hnewpar x n (Nat.le_of_not_lt hlt) c').1)
  have hKn : ∀ x : Id, x ∈ (H1.childMap c).vals → N ≤ (x : Nat) ∧ (x : Nat) < H1.size ∧ x ≠ c ∧ (H1.get x).parent = some c := by
    intro x hx
    obtain ⟨kc, hkc, he⟩ := List.mem_map.mp hx
    obtain ⟨a, b, c', _⟩ := okc.kids kc hkc
    rw [he] at a b c'
    refine ⟨?_, a, b, c'⟩
    by_cases hlt : (x : Nat) < N
    · have := hGold x c hlt c'; omega
    · exact Nat.le_of_not_lt hlt
  have hko : ∀ x : Id, x ∈ (H1.childMap n).vals → x ≠ n ∧ x ≠ c ∧ (x : Nat) < H1.size := by
    intro x hx
    obtain ⟨a, b, c', _⟩ := hKo x hx
    exact ⟨c', fun e => by subst e; exact absurd a (Nat.not_lt.mpr hcN), b⟩
  have hkn : ∀ x : Id, x ∈ (H1.childMap c).vals → x ≠ n ∧ x ≠ c ∧ (x : Nat) < H1.size ∧ x ∉ (H1.childMap n).vals := by
    intro x hx
    obtain ⟨a, b, c', _⟩ := hKn x hx
    exact ⟨fun e => by subst e; exact absurd hnN (Nat.not_lt.mpr a), c', b, fun hx' => absurd (hKo x hx').1 (Nat.not_lt.mpr a)⟩
  have G := rewire_get H1 n c hn hc hcn hko hkn
  have hdat := rewire_datas H1 n c
  generalize rewire H1 n c = F at G hdat ⊢
  have Fn : F.get n = { H1.get c with parent := (H1.get n).parent, key := (H1.get n).key, index := (H1.get n).index } := by
    rw [G n]; simp
  have Fother : ∀ x : Nat, x ≠ n → x ≠ c → EqModParent (F.get x) (H1.get x) := by
    intro x h1 h2
    rw [G x]
    simp only [h1, h2, if_false]
    unfold EqModParent
    split
    · rfl
    · split
      · rfl
      · rfl
  -- a node other than the receiver and the clone root looks the same to `absVal`
  have same : ∀ x : Nat, x ≠ n → x ≠ c → F.typeOf x = H1.typeOf x ∧ ((H1.typeOf x).isContainer = false → scalarVal F x = scalarVal H1 x) ∧
      F.childMap x = H1.childMap x := by
    intro x h1 h2
    have e := eqModLinks_of_parent (Fother x h1 h2)
    refine ⟨by unfold Heap.typeOf; rw [e.1], fun hsc => scalarVal_congr H1 F x hdat e (by unfold Heap.typeOf at hsc; exact hsc), ?_⟩
    unfold childMap; rw [e.2.2.2.2.2.1]
  constructor
  · -- the receiver: the clone root's type, payload and children; the children (new nodes) keep their values
    cases fuel with
    | zero => rfl
    | succ f =>
      apply absVal_step H1 F c n f
      · unfold Heap.typeOf; rw [Fn]
      · intro hsc
        apply scalarVal_congr2 H1 F c n hdat
        · rw [Fn]; exact ⟨rfl, rfl, rfl, rfl, rfl, rfl, rfl⟩
        · unfold Heap.typeOf at hsc; exact hsc
      · unfold childMap; rw [Fn]
      · intro x hx
        apply absVal_congr H1 F (fun m => N ≤ (m : Nat) ∧ (m : Nat) ≠ c) _ f x ⟨(hKn x hx).1, (hKn x hx).2.2.1⟩
        intro m ⟨hm1, hm2⟩
        have hmn : (m : Nat) ≠ n := fun e => absurd hnN (Nat.not_lt.mpr (e ▸ hm1))
        obtain ⟨t1, t2, t3⟩ := same m hmn hm2
        refine ⟨t1, t2, t3, fun k hk => ?_⟩
        by_cases hms : (m : Nat) < H1.size
        · obtain ⟨kc, hkc, he⟩ := List.mem_map.mp hk
          obtain ⟨_, _, c', _⟩ := (s1 m hms).kids kc hkc
          rw [he] at c'
          refine ⟨?_, fun e => by rw [e, hcroot] at c'; cases c'⟩
          by_cases hlt : (k : Nat) < N
          · exact absurd (hGold k m hlt c') (Nat.not_lt.mpr hm1)
          · exact Nat.le_of_not_lt hlt
        · have : H1.childMap m = [] := by unfold childMap; rw [get_default H1 m (Nat.le_of_not_lt hms)]; rfl
          rw [this] at hk; cases hk
  · intro m hm1 hm2
    apply absVal_congr H1 F (fun x => (x : Nat) < N ∧ ¬ Anc H1 x n) _ fuel m ⟨hm1, hm2⟩
    intro x ⟨hx1, hx2⟩
    have hxn : (x : Nat) ≠ n := by intro e; exact hx2 (e ▸ Anc.refl' H1 _)
    have hxc : (x : Nat) ≠ c := fun e => absurd hx1 (Nat.not_lt.mpr (e ▸ hcN))
    obtain ⟨t1, t2, t3⟩ := same x hxn hxc
    refine ⟨t1, t2, t3, fun k hk => ⟨?_, offChain_kids s1 n x hx2 k hk⟩⟩
    have hxs : (x : Nat) < H1.size := Nat.lt_of_lt_of_le hx1 (Nat.le_trans hcN (Nat.le_of_lt hc))
    obtain ⟨kc, hkc, he⟩ := List.mem_map.mp hk
    obtain ⟨_, _, c', _⟩ := (s1 x hxs).kids kc hkc
    rw [he] at c'
    by_cases hlt : (k : Nat) < N
    · exact hlt
    · exact absurd hx1 (Nat.not_lt.mpr (hnewpar k x (Nat.le_of_not_lt hlt) c').1)

/-- `mark` is invisible in the values when every node it can touch is a container -/
theorem absVal_mark {F : Heap} (p : Id) (hcont : ∀ m : Id, Anc F m p → (F.get m).type.isContainer = true) (fuel : Nat) (x : Id) :
    absVal fuel (F.mark p) x = absVal fuel F x := by
  apply absVal_congr F (F.mark p) (fun _ => True) _ fuel x trivial
  intro m _
  have hty : ((F.mark p).get m).type = (F.get m).type := by
    have := mark_proj stable_type F p m
    exact this
  refine ⟨by unfold Heap.typeOf; exact hty, fun hsc => ?_, ?_, fun _ _ => trivial⟩
  · have hno : ¬ Anc F m p := by
      intro ha
      have := hcont m ha
      unfold Heap.typeOf at hsc
      rw [this] at hsc; cases hsc
    exact scalarVal_congr F _ m (by simp) (EqModLinks.of_eq (mark_frame F p m hno)) (by unfold Heap.typeOf at hsc; exact hsc)
  · unfold childMap
    rcases mark_get F p m with e | e <;> rw [e]

/-- the ancestor chain of an old node is the same after `Clone()` -/
theorem up_old_same {h H1 : Heap} (pir : PIR h) (hold : ∀ m : Nat, m < h.size → H1.get m = h.get m) (n : Nat) (hn : n < h.size) :
    ∀ k, up H1 n k = up h n k := by
  intro k
  induction k with
  | zero => rfl
  | succ k ih =>
    simp only [up, ih]
    cases hx : up h n k with
    | none => rfl
    | some x =>
      simp only []
      rw [hold x (up_lt_size pir n hn k x hx)]

/-- **SetNode on plain data**: after an accepted `SetNode(value)` the receiver denotes what `value` denotes, and every node that
existed before and is neither the receiver nor one of its ancestors — the receiver's former children (now detached), the value and
everything around it, all other trees — denotes what it denoted before -/
theorem setNode_refines {h : Heap} (hs : Struct h) (ha : Acyc h) (n value : Nat) (hn : n < h.size) (hv : value < h.size)
    (hne : n ≠ value) (hl : h.isParentOrSelfNode n value = false) (fuel : Nat) :
    absVal fuel (h.setNode n value).1 n = absVal fuel h value ∧
    (∀ m : Nat, m < h.size → ¬ Anc h m n → absVal fuel (h.setNode n value).1 m = absVal fuel h m) := by
  rw [setNode_eq h n value hne hl]
  obtain ⟨s1, a1, z1, c1⟩ := clone_sound hs ha value hv
  obtain ⟨hcroot, hnp⟩ := clone_new_parents hs ha value hv
  obtain ⟨v1, v2⟩ := clone_same_value hs ha value hv fuel
  have hok := clone_ok h value (clone_hypothesis hs ha value hv)
  have hold : ∀ m : Nat, m < h.size → (h.clone value).1.get m = h.get m := hok.2.2.1
  generalize (h.clone value).1 = H1 at *
  generalize (h.clone value).2 = c at *
  have hc : (c : Nat) = h.size := c1
  subst hc
  have hGold : ∀ m q : Nat, m < h.size → (H1.get m).parent = some q → q < h.size := by
    intro m q hm hq
    rw [hold m hm] at hq
    exact hs.pir m hm q hq
  obtain ⟨nodes, acy, hpar⟩ := rewire_sound s1 a1 n h.size h.size hn (Nat.le_refl _) z1 hcroot hGold hnp
  obtain ⟨w1, w2⟩ := rewire_value s1 n h.size h.size hn (Nat.le_refl _) z1 hcroot hGold hnp fuel
  have hsz := rewire_size H1 n h.size
  generalize rewire H1 n h.size = F at nodes acy hpar hsz w1 w2 ⊢
  have hancH : ∀ m : Nat, Anc H1 m n → Anc h m n := fun m ⟨k, hk⟩ => ⟨k, by rw [← up_old_same hs.pir hold n hn k]; exact hk⟩
  -- the values before the final `mark`
  have r1 : absVal fuel F n = absVal fuel h value := by rw [w1, v1]
  have r2 : ∀ m : Nat, m < h.size → ¬ Anc h m n → absVal fuel F m = absVal fuel h m := by
    intro m hm hno
    rw [w2 m hm (fun hc => hno (hancH m hc)), v2 m hm]
  cases hp : (F.get n).parent with
  | none => exact ⟨r1, r2⟩
  | some p =>
    simp only []
    -- every node `mark p` can touch is a container: p has the child n, every ancestor has a child too
    have pirF : PIR F := fun x hx q hq => ((nodes x hx).par q hq).1
    have hnF : n < F.size := by rw [hsz]; omega
    have hpF : p < F.size := ((nodes n hnF).par p hp).1
    have hcont : ∀ m : Id, Anc F m p → (F.get m).type.isContainer = true := by
      rintro m ⟨k, hk⟩
      cases k with
      | zero =>
        simp only [up, Option.some.injEq] at hk
        rw [← hk]
        exact ((nodes n hnF).par p hp).2.1
      | succ k =>
        simp only [up] at hk
        cases hy : up F p k with
        | none => rw [hy] at hk; cases hk
        | some y =>
          rw [hy] at hk
          have hyF := up_lt_size pirF p hpF k y hy
          exact ((nodes y hyF).par m hk).2.1
    exact ⟨by rw [absVal_mark p hcont]; exact r1, fun m hm hno => by rw [absVal_mark p hcont]; exact r2 m hm hno⟩

end Ajson.Proofs
