/-
SetObject on plain data: for members under pairwise different keys whose values are pairwise different nodes, each fresh, detached or
a child of the receiver itself, the receiver afterwards denotes the object with exactly these members, in the order given.
-/
import Ajson.Proofs.SetArrayValue
namespace Ajson.Proofs
open Ajson Ajson.Heap

/-- `appendNode(key, v)` of a detached node under a new key, as an equation -/
theorem appendNode_fresh_eq {h : Heap} (hs : Struct h) (n value : Nat) (hn : n < h.size)
    (hobj : (h.get n).type = .object) (hloop : h.isParentOrSelfNode n value = false) (hroot : (h.get value).parent = none)
    (k : Bytes) (hfresh : (h.childMap n).lookup k = none) :
    h.appendNode n (some k) value = (attachObj h n value k, .ok ()) := by
  have hvn : value ≠ n := by
    intro e; subst e
    simp [isParentOrSelfNode] at hloop
  obtain ⟨m, hm⟩ := Option.isSome_iff_exists.mp (by have := (hs n hn).shape; rw [hobj] at this; simpa [NType.isContainer] using this)
  unfold Heap.appendNode
  simp only [hloop, Bool.false_eq_true, if_false, hroot]
  have hcm3 : ((h.modify value (fun r => { r with parent := some n, key := some k })).modify n (fun r => { r with cache := none })).childMap n
      = h.childMap n := by
    unfold childMap
    rw [get_modify]; simp only [size_modify, hn, and_self, if_true]
    rw [get_modify_other _ _ _ _ (Ne.symm hvn)]
  have hch3 : (((h.modify value (fun r => { r with parent := some n, key := some k })).modify n (fun r => { r with cache := none })).get n).children
      = some m := by
    rw [get_modify]; simp only [size_modify, hn, and_self, if_true]
    rw [get_modify_other _ _ _ _ (Ne.symm hvn)]; exact hm
  simp only [hcm3, hfresh, hch3]
  unfold attachObj
  congr 1
  apply modify_congr
  simp only [hch3, Option.getD_some]

theorem attachObj_facts (h : Heap) (n v : Id) (k : Bytes) (hvn : v ≠ n) (hn : n < h.size) :
    (attachObj h n v k).size = h.size ∧ ((attachObj h n v k).get n).type = (h.get n).type ∧
    ((attachObj h n v k).get n).dirty = (h.get n).dirty ∧
    (∀ w : Id, w ≠ v → ((attachObj h n v k).get w).parent = (h.get w).parent) ∧
    (attachObj h n v k).childMap n = (h.childMap n).insert k v := by
  refine ⟨by simp [attachObj], ?_, ?_, fun w hw => ?_, ?_⟩
  · unfold attachObj
    refine (modify_proj (fun r => r.type) _ _ _ _ ?_).trans ?_
    · exact fun _ => rfl
    refine (modify_proj (fun r => r.type) _ _ _ _ ?_).trans ?_
    · exact fun _ => rfl
    refine (modify_proj (fun r => r.type) _ _ _ _ ?_).trans ?_
    · exact fun _ => rfl
    rfl
  · unfold attachObj
    refine (modify_proj (fun r => r.dirty) _ _ _ _ ?_).trans ?_
    · exact fun _ => rfl
    refine (modify_proj (fun r => r.dirty) _ _ _ _ ?_).trans ?_
    · exact fun _ => rfl
    refine (modify_proj (fun r => r.dirty) _ _ _ _ ?_).trans ?_
    · exact fun _ => rfl
    rfl
  · unfold attachObj
    refine (modify_parent_same _ _ _ _ ?_).trans ?_
    · exact fun _ => rfl
    refine (modify_parent_same _ _ _ _ ?_).trans ?_
    · exact fun _ => rfl
    rw [get_modify_other _ _ _ _ hw]
  · unfold childMap attachObj
    rw [get_modify]; simp only [size_modify, hn, and_self, if_true, Option.getD_some]
    rw [get_modify]; simp only [size_modify, hn, and_self, if_true]
    rw [get_modify_other _ _ _ _ (Ne.symm hvn)]

theorem attachObj_up (h : Heap) (n v : Id) (k : Bytes) (hvn : v ≠ n) (hn : n < h.size) (hno : ¬ Anc h v n) :
    ∀ j, up (attachObj h n v k) n j = up h n j := by
  intro j
  induction j with
  | zero => rfl
  | succ j ih =>
    simp only [up, ih]
    cases hx : up h n j with
    | none => rfl
    | some x =>
      simp only []
      have hxv : x ≠ v := by intro e; exact hno ⟨j, e ▸ hx⟩
      exact (attachObj_facts h n v k hvn hn).2.2.2.1 x hxv

/-- one `attachObj` step under a new key, on plain data -/
theorem attachObj_refines {h : Heap} (hs : Struct h) (ha : Acyc h) (n v : Nat) (hn : n < h.size)
    (hobj : (h.get n).type = .object) (hno : ¬ Anc h v n) (k : Bytes) (hfresh : (h.childMap n).lookup k = none) (fuel : Nat) :
    (∀ m : Id, ¬ Anc h m n → absVal fuel (attachObj h n v k) m = absVal fuel h m) ∧
    (∀ kvs x, absVal (fuel + 1) h n = some (.obj kvs) → absVal fuel h v = some x →
      absVal (fuel + 1) (attachObj h n v k) n = some (.obj (kvs ++ [(k, x)]))) := by
  have hvn : (v : Id) ≠ n := by intro e; exact hno (e ▸ Anc.refl' h _)
  obtain ⟨_, tF, _, _, cmF⟩ := attachObj_facts h n v k hvn hn
  have hrec : ∀ m : Id, ¬ Anc h m n → EqModLinks ((attachObj h n v k).get m) (h.get m) := by
    intro m hm
    have hmn : m ≠ n := by intro e; exact hm (e ▸ Anc.refl' h _)
    unfold attachObj
    rw [get_modify_other _ _ _ _ hmn, get_modify_other _ _ _ _ hmn]
    rw [get_modify]
    split
    · rename_i hc; rw [hc.1]; exact ⟨rfl, rfl, rfl, rfl, rfl, rfl, rfl⟩
    · exact ⟨rfl, rfl, rfl, rfl, rfl, rfl, rfl⟩
  have hdat : (attachObj h n v k).datas = h.datas := by simp [attachObj]
  have frame : ∀ m : Id, ¬ Anc h m n → absVal fuel (attachObj h n v k) m = absVal fuel h m := by
    intro m hm
    apply absVal_congr h _ (fun m => ¬ Anc h m n) _ fuel m hm
    intro x hx
    have r := hrec x hx
    refine ⟨by unfold Heap.typeOf; rw [r.1], fun hsc => scalarVal_congr h _ x hdat r (by unfold Heap.typeOf at hsc; exact hsc), ?_, offChain_kids hs n x hx⟩
    unfold childMap; rw [r.2.2.2.2.2.1]
  refine ⟨frame, ?_⟩
  intro kvs x hkvs hx
  have okn := hs n hn
  have htyn : (attachObj h n v k).typeOf n = .object := by unfold Heap.typeOf; rw [tF]; exact hobj
  have hcmn : (attachObj h n v k).childMap n = h.childMap n ++ [(k, v)] := by rw [cmF]; exact insert_fresh _ _ _ hfresh
  have hold : (h.childMap n).mapM (fun p => (absVal fuel h p.2).map (fun v => (p.1, v))) = some kvs := by
    unfold absVal at hkvs
    have : h.typeOf n = .object := hobj
    rw [this] at hkvs
    simp only [] at hkvs
    cases hm : (h.childMap n).mapM (fun p => (absVal fuel h p.2).map (fun v => (p.1, v))) with
    | none => rw [hm] at hkvs; simp at hkvs
    | some ys => rw [hm] at hkvs; simp at hkvs; rw [hkvs]
  conv => lhs; unfold absVal
  rw [htyn]
  simp only []
  rw [hcmn]
  have hkids : (h.childMap n).mapM (fun p => (absVal fuel (attachObj h n v k) p.2).map (fun w => (p.1, w))) = some kvs := by
    rw [mapM_congr _ (fun p => (absVal fuel h p.2).map (fun w => (p.1, w))) _ (fun p hp => ?_)]
    · exact hold
    · rw [frame]
      obtain ⟨_, _, hpar, _⟩ := okn.kids p hp
      rintro ⟨j, hj⟩
      exact ha p.2 j (by rw [up_succ_of_parent hpar]; exact hj)
  rw [mapM_append_single _ _ _ kvs (k, x) hkids (by simp only []; rw [frame v hno, hx]; rfl)]
  rfl

/-- the loop of `SetObject` over members with pairwise different keys and pairwise different detached values, on a dirty receiver -/
theorem appendAll_members_refines : ∀ (kv : List (Bytes × Id)) (h : Heap) (n : Nat), Struct h → Acyc h → n < h.size →
    (h.get n).type = .object → (h.get n).dirty = true → (kv.map (·.1)).Nodup → (kv.map (·.2)).Nodup →
    (∀ p ∈ kv, (p.2 : Nat) < h.size ∧ (h.get p.2).parent = none ∧ ¬ Anc h p.2 n ∧ (h.childMap n).lookup p.1 = none) → ∀ (fuel : Nat),
    (∀ m : Id, ¬ Anc h m n → absVal fuel (h.appendAll n (kv.map (fun p => (some p.1, p.2)))).1 m = absVal fuel h m) ∧
    (∀ kvs ys, absVal (fuel + 1) h n = some (.obj kvs) → kv.mapM (fun p => (absVal fuel h p.2).map (fun w => (p.1, w))) = some ys →
      absVal (fuel + 1) (h.appendAll n (kv.map (fun p => (some p.1, p.2)))).1 n = some (.obj (kvs ++ ys)))
  | [], h, n, _, _, _, _, _, _, _, _, fuel => ⟨fun _ _ => rfl, fun kvs ys hk hys => by
      simp only [List.mapM_nil] at hys; cases hys; simpa [Heap.appendAll] using hk⟩
  | (k, v) :: kv, h, n, hs, ha, hn, hobj, hd, hndk, hndv, hkv, fuel => by
    obtain ⟨hv, hroot, hno, hfresh⟩ := hkv (k, v) (by simp)
    have hvn : v ≠ n := by intro e; exact hno (e ▸ Anc.refl' h _)
    have hloop : h.isParentOrSelfNode n v = false := by
      cases hl : h.isParentOrSelfNode n v with
      | false => rfl
      | true => exact absurd ((loop_guard_exact hs.pir ha n hn v).mp hl) hno
    have e := appendNode_fresh_eq hs n v hn hobj hloop hroot k hfresh
    obtain ⟨zF, tF, dF, pF, cmF⟩ := attachObj_facts h n v k hvn hn
    have sb := struct_attachObj hs n v hn hv hvn hroot hobj k hfresh
    have sF : Struct (attachObj h n v k) := sb.toStruct (by rw [dF]; exact hd)
    have aF : Acyc (attachObj h n v k) := by
      have := (appendNode_object_fresh hs ha n v hn hv hobj hloop hroot k hfresh).2.2.1
      rw [e] at this; exact this
    obtain ⟨f1, g1⟩ := attachObj_refines hs ha n v hn hobj hno k hfresh fuel
    have hndk' := List.nodup_cons.mp (by simpa using hndk : (k :: kv.map (·.1)).Nodup)
    have hndv' := List.nodup_cons.mp (by simpa using hndv : (v :: kv.map (·.2)).Nodup)
    have hanc : ∀ m : Id, Anc (attachObj h n v k) m n → Anc h m n := fun m ⟨j, hj⟩ => ⟨j, by rw [← attachObj_up h n v k hvn hn hno j]; exact hj⟩
    have hkv' : ∀ p ∈ kv, (p.2 : Nat) < (attachObj h n v k).size ∧ ((attachObj h n v k).get p.2).parent = none ∧ ¬ Anc (attachObj h n v k) p.2 n ∧
        ((attachObj h n v k).childMap n).lookup p.1 = none := by
      intro p hp
      obtain ⟨a, b, c, d⟩ := hkv p (by simp [hp])
      have hpv : p.2 ≠ v := by intro e'; exact hndv'.1 (e' ▸ List.mem_map.mpr ⟨p, hp, rfl⟩)
      have hpk : p.1 ≠ k := by intro e'; exact hndk'.1 (e' ▸ List.mem_map.mpr ⟨p, hp, rfl⟩)
      refine ⟨by rw [zF]; exact a, by rw [pF p.2 hpv]; exact b, fun hc => c (hanc p.2 hc), ?_⟩
      rw [cmF, insert_fresh _ _ _ hfresh, lookup_append_single, d]
      have : (k == p.1) = false := by simpa using Ne.symm hpk
      simp [this]
    obtain ⟨f2, g2⟩ := appendAll_members_refines kv (attachObj h n v k) n sF aF (by rw [zF]; exact hn) (by rw [tF]; exact hobj)
      (by rw [dF]; exact hd) hndk'.2 hndv'.2 hkv' fuel
    simp only [List.map_cons, Heap.appendAll, e]
    refine ⟨fun m hm => by rw [f2 m (fun hc => hm (hanc m hc)), f1 m hm], fun kvs ys hk hys => ?_⟩
    simp only [List.mapM_cons] at hys
    cases hx : absVal fuel h v with
    | none => rw [hx] at hys; simp at hys
    | some x =>
      rw [hx] at hys
      cases hrest : kv.mapM (fun p => (absVal fuel h p.2).map (fun w => (p.1, w))) with
      | none => rw [hrest] at hys; simp at hys
      | some zs =>
        rw [hrest] at hys
        simp at hys
        subst hys
        have hrest' : kv.mapM (fun p => (absVal fuel (attachObj h n v k) p.2).map (fun w => (p.1, w))) = some zs := by
          rw [mapM_congr _ (fun p => (absVal fuel h p.2).map (fun w => (p.1, w))) _ (fun p hp => by rw [f1 p.2 (hkv p (by simp [hp])).2.2.1])]
          exact hrest
        have := g2 (kvs ++ [(k, x)]) zs (g1 kvs x hk hx) hrest'
        rw [this]
        simp

/-- **SetObject is assignment of an object**: for members under pairwise different keys whose values are pairwise different nodes,
each fresh, detached or a child of the receiver itself (none the receiver or above it), the receiver afterwards denotes the object
with exactly these members, in the order given; every node off the receiver's ancestor chain keeps its value -/
theorem setObject_refines {h : Heap} (hs : Struct h) (ha : Acyc h) (n : Nat) (hn : n < h.size) (kv : List (Bytes × Id))
    (hndk : (kv.map (·.1)).Nodup) (hndv : (kv.map (·.2)).Nodup)
    (hkv : ∀ p ∈ kv, (p.2 : Nat) < h.size ∧ ¬ Anc h p.2 n ∧ ((h.get p.2).parent = none ∨ (h.get p.2).parent = some n)) (fuel : Nat) :
    (∀ m : Id, ¬ Anc h m n → absVal fuel (h.update (some n) (.obj kv)).1 m = absVal fuel h m) ∧
    (∀ ys, kv.mapM (fun p => (absVal fuel h p.2).map (fun w => (p.1, w))) = some ys →
      absVal (fuel + 1) (h.update (some n) (.obj kv)).1 n = some (.obj ys)) := by
  have hany : (kv.any fun p => h.isParentOrSelfNode n p.2) = false := by
    rw [List.any_eq_false]
    intro p hp hl
    exact (hkv p hp).2.1 ((loop_guard_exact hs.pir ha n hn p.2).mp hl)
  have e : h.update (some n) (.obj kv) =
      ((((h.mark n).clear n).modify n (fun r => { r with type := .object, cache := none })).modify n (fun r => { r with children := some [] })).appendAll n
        (kv.map (fun p => (some p.1, p.2))) := by
    simp only [Heap.update, Heap.validate, hany, Bool.false_eq_true, if_false, SetVal.type]
  rw [e]
  obtain ⟨sR, aR, zR, dR, tR⟩ := update_prepared hs ha n hn .object rfl
  obtain ⟨f0, ⟨_, v0'⟩, anc0, par0, hcmR⟩ := prepared_refines hs ha n hn .object fuel
  have v0 := v0' rfl
  generalize ((((h.mark n).clear n).modify n (fun r => { r with type := .object, cache := none })).modify n (fun r => { r with children := some [] })) = R at *
  have hkvR : ∀ p ∈ kv, (p.2 : Nat) < R.size ∧ (R.get p.2).parent = none ∧ ¬ Anc R p.2 n ∧ (R.childMap n).lookup p.1 = none := by
    intro p hp
    obtain ⟨a, b, c⟩ := hkv p hp
    have hvn : (p.2 : Id) ≠ n := by intro e'; exact b (e' ▸ Anc.refl' h _)
    refine ⟨by rw [zR]; exact a, ?_, fun hc => b (anc0 p.2 hc), by rw [hcmR]; rfl⟩
    rw [par0 p.2 hvn]
    by_cases hin : (p.2 : Id) ∈ (h.childMap n).vals
    · simp [hin]
    · simp only [hin, if_false]
      rcases c with c | c
      · exact c
      · exact absurd (((hs p.2 a).par n c).2.2.1) hin
  obtain ⟨f1, g1⟩ := appendAll_members_refines kv R n sR aR (by rw [zR]; exact hn) tR dR hndk hndv hkvR fuel
  refine ⟨fun m hm => by rw [f1 m (fun hc => hm (anc0 m hc)), f0 m hm], fun ys hys => ?_⟩
  have hys' : kv.mapM (fun p => (absVal fuel R p.2).map (fun w => (p.1, w))) = some ys := by
    rw [mapM_congr _ (fun p => (absVal fuel h p.2).map (fun w => (p.1, w))) _ (fun p hp => by rw [f0 p.2 (hkv p hp).2.1])]
    exact hys
  have := g1 [] ys v0 hys'
  simpa using this

end Ajson.Proofs
