/-
Correctness of the shunting-yard core (`Spec.shunt`, built from the model's own `popOps` / `popParen` /
`flushStack`) at arbitrary nesting depth, for every operator table whose associativity is uniform per
priority level.
-/
import Ajson.Spec.Shunt

namespace Ajson.Spec
open Ajson Ajson.Cur

/-- expression trees -/
inductive Expr
  | atom (s : Bytes)
  | bin (op : Bytes) (l r : Expr)
  | call (f : Bytes) (arg : Expr)
  deriving Repr

def toPostfix : Expr → List Bytes
  | .atom s => [s]
  | .bin op l r => toPostfix l ++ toPostfix r ++ [op]
  | .call f a => toPostfix a ++ [f]

/-- does `top` leave the operator stack when operator `cur` arrives (the test inside `popOps`) -/
def yields (t : OpTable) (top cur : Bytes) : Bool :=
  t.isFunction top || (t.prio top != 0 && (t.prio top > t.prio cur || (t.prio top == t.prio cur && !t.isRight top)))

/-- `Renders t p e ts`: the token list `ts` is a way of writing `e` that needs no further parentheses in a position that
admits operators of priority ≥ p: the usual stratified grammar — a left-grouping operator of priority q takes its left
operand at level q and its right operand at level q+1, a right-grouping one the other way round; calls and
parenthesised expressions are atoms; redundant parentheses may be added anywhere. -/
inductive Renders (t : OpTable) : Nat → Expr → List Tok → Prop
  | atom (p : Nat) (s : Bytes) : Renders t p (.atom s) [.operand s]
  | paren (p : Nat) (e : Expr) (ts : List Tok) : Renders t 0 e ts → Renders t p e (.lparen :: ts ++ [.rparen])
  | call (p : Nat) (f : Bytes) (a : Expr) (ts : List Tok) : t.isFunction f = true → Renders t 0 a ts →
      Renders t p (.call f a) (.fn f :: .lparen :: ts ++ [.rparen])
  | binL (p : Nat) (o : Bytes) (l r : Expr) (tl tr : List Tok) :
      t.isFunction o = false → t.prio o ≠ 0 → p ≤ t.prio o → t.isRight o = false →
      Renders t (t.prio o) l tl → Renders t (t.prio o + 1) r tr → Renders t p (.bin o l r) (tl ++ .op o :: tr)
  | binR (p : Nat) (o : Bytes) (l r : Expr) (tl tr : List Tok) :
      t.isFunction o = false → t.prio o ≠ 0 → p ≤ t.prio o → t.isRight o = true →
      Renders t (t.prio o + 1) l tl → Renders t (t.prio o) r tr → Renders t p (.bin o l r) (tl ++ .op o :: tr)

/-- the table's associativity is a property of the priority level (true of the built-in table; what `AddOperation` must respect) -/
def Uniform (t : OpTable) : Prop := ∀ a b : Bytes, t.prio a = t.prio b → t.prio a ≠ 0 → t.isRight a = t.isRight b

/-- `(` is neither an operator nor a function -/
def ParenOK (t : OpTable) : Prop := t.prio [40] = 0 ∧ t.isFunction [40] = false

/-- an entry that is pending on the stack for an expression at level p: a function name, or an operator of priority ≥ p -/
def Pending (t : OpTable) (p : Nat) (x : Bytes) : Prop :=
  t.isFunction x = true ∨ (t.prio x ≠ 0 ∧ p ≤ t.prio x)

/-- the stack below an expression at level p is stable: its top does not leave when an operator of priority ≥ p arrives -/
def StackOK (t : OpTable) (p : Nat) : List Bytes → Prop
  | [] => True
  | y :: _ => ∀ o : Bytes, p ≤ t.prio o → yields t y o = false

theorem StackOK_mono (t : OpTable) {p q : Nat} (h : p ≤ q) : ∀ st, StackOK t p st → StackOK t q st
  | [], _ => trivial
  | _ :: _, hs => fun o ho => hs o (Nat.le_trans h ho)

/-- the top of the stack (if any) stays when operator o arrives -/
def TopStays (t : OpTable) (o : Bytes) : List Bytes → Prop
  | [] => True
  | y :: _ => yields t y o = false

theorem topStays_of_stackOK (t : OpTable) (p : Nat) (o : Bytes) (ho : p ≤ t.prio o) : ∀ st, StackOK t p st → TopStays t o st
  | [], _ => trivial
  | _ :: _, hs => hs o ho

theorem popOps_all (t : OpTable) (o : Bytes) : ∀ (P st out : List Bytes), (∀ x ∈ P, yields t x o = true) →
    TopStays t o st → popOps t o (P ++ st) out = (st, out ++ P)
  | [], st, out, _, hst => by
    cases st with
    | nil => simp [popOps]
    | cons y ys =>
      simp only [List.nil_append, List.append_nil]
      unfold popOps
      simp only [TopStays, yields] at hst
      by_cases hf : t.isFunction y = true
      · simp [hf] at hst
      · simp only [hf, Bool.false_or, Bool.false_eq_true, if_false] at hst ⊢
        by_cases hp : (t.prio y != 0) = true
        · simp only [hp, Bool.true_and, if_true] at hst ⊢
          simp [hst]
        · simp [hp]
  | x :: P, st, out, hP, hst => by
    have hx := hP x (by simp)
    have ih := popOps_all t o P st (out ++ [x]) (fun y hy => hP y (by simp [hy])) hst
    simp only [List.cons_append]
    unfold popOps
    simp only [yields] at hx
    by_cases hf : t.isFunction x = true
    · simp only [hf, if_true]
      rw [ih]; simp
    · simp only [hf, Bool.false_or, Bool.and_eq_true, Bool.false_eq_true, if_false] at hx ⊢
      simp only [hx.1, if_true, hx.2]
      rw [ih]; simp

theorem popParen_all (t : OpTable) : ∀ (P st out : List Bytes), (∀ x ∈ P, x ≠ [40]) →
    popParen (P ++ [40] :: st) out = some (st, out ++ P)
  | [], st, out, _ => by simp [popParen]
  | x :: P, st, out, hP => by
    have hx : (x == [40]) = false := by simpa using hP x (by simp)
    simp only [List.cons_append, popParen, hx, Bool.false_eq_true, if_false]
    rw [popParen_all t P st (out ++ [x]) (fun y hy => hP y (by simp [hy]))]
    simp

theorem flush_all (t : OpTable) : ∀ (P out : List Bytes), (∀ x ∈ P, t.isFunction x = true ∨ t.prio x ≠ 0) →
    flushStack t P out = some (out ++ P)
  | [], out, _ => by simp [flushStack]
  | x :: P, out, hP => by
    have hx := hP x (by simp)
    have : (t.prio x == 0 && !t.isFunction x) = false := by
      rcases hx with h | h
      · simp [h]
      · simp [h]
    simp only [flushStack, this, Bool.false_eq_true, if_false]
    rw [flush_all t P (out ++ [x]) (fun y hy => hP y (by simp [hy]))]
    simp

theorem pending_ne_paren (t : OpTable) (hp : ParenOK t) (p : Nat) (x : Bytes) (h : Pending t p x) : x ≠ [40] := by
  intro e; subst e
  rcases h with h | h
  · rw [hp.2] at h; cases h
  · exact h.1 hp.1

theorem pending_mono (t : OpTable) {p q : Nat} (h : p ≤ q) (x : Bytes) (hx : Pending t q x) : Pending t p x := by
  rcases hx with hx | hx
  · exact Or.inl hx
  · exact Or.inr ⟨hx.1, Nat.le_trans h hx.2⟩

/-- a pending entry of level q yields to an operator of priority q that groups to the left, and to any operator of lower priority -/
theorem pending_yields (t : OpTable) (hu : Uniform t) (q : Nat) (x o : Bytes) (hx : Pending t q x)
    (ho : t.prio o < q ∨ (t.prio o = q ∧ t.isRight o = false)) : yields t x o = true := by
  unfold yields
  rcases hx with hx | ⟨hx0, hxq⟩
  · simp [hx]
  · have h0 : (t.prio x != 0) = true := by simp [hx0]
    simp only [h0, Bool.true_and]
    rcases ho with ho | ⟨ho, hr⟩
    · have : t.prio x > t.prio o := by omega
      simp [this]
    · by_cases hgt : t.prio x > t.prio o
      · simp [hgt]
      · have heq : t.prio x = t.prio o := by omega
        have := hu x o heq hx0
        simp [heq, this, hr]

/-- an operator o on top of the stack is stable for its right operand: at level prio o + 1 if it groups left, at level prio o if
it groups right -/
theorem op_stack_ok (t : OpTable) (o : Bytes) (st : List Bytes) (hf : t.isFunction o = false) (h0 : t.prio o ≠ 0) :
    (t.isRight o = false → StackOK t (t.prio o + 1) (o :: st)) ∧ (t.isRight o = true → StackOK t (t.prio o) (o :: st)) := by
  constructor
  · intro _ o' ho'
    unfold yields
    have h1 : ¬ t.prio o > t.prio o' := by omega
    have h2 : ¬ t.prio o = t.prio o' := by omega
    simp [hf, h1, h2]
  · intro hr o' ho'
    unfold yields
    have h1 : ¬ t.prio o > t.prio o' := by omega
    simp [hf, h1, hr]

/-- **Main lemma.** Consuming a rendering of `e` (level p) from a stable stack appends to the output everything of `toPostfix e`
except a list `P` of entries that stay on the stack (top first), all pending at level p. -/
theorem renders_shunt (t : OpTable) (hu : Uniform t) (hp : ParenOK t) :
    ∀ {p : Nat} {e : Expr} {ts : List Tok}, Renders t p e ts →
    ∀ (st out : List Bytes) (rest : List Tok), StackOK t p st →
      ∃ P B, shuntLoop t (ts ++ rest) st out = shuntLoop t rest (P ++ st) (out ++ B) ∧ B ++ P = toPostfix e ∧ (∀ x ∈ P, Pending t p x) := by
  intro p e ts h
  induction h with
  | atom p s =>
    intro st out rest _
    exact ⟨[], [s], by simp [shuntLoop], by simp [toPostfix], by simp⟩
  | paren p e ts _ ih =>
    intro st out rest _
    have hst' : StackOK t 0 ([40] :: st) := by
      intro o _; unfold yields; simp [hp.1, hp.2]
    obtain ⟨P, B, h1, h2, h3⟩ := ih ([40] :: st) out (.rparen :: rest) hst'
    refine ⟨[], toPostfix e, ?_, by simp, by simp⟩
    have hne : ∀ x ∈ P, x ≠ [40] := fun x hx => pending_ne_paren t hp 0 x (h3 x hx)
    simp only [List.cons_append, List.append_assoc, List.nil_append, List.singleton_append]
    rw [shuntLoop, h1, shuntLoop, popParen_all t P st (out ++ B) hne]
    simp only [List.append_assoc, h2]
  | call p f a ts hf _ ih =>
    intro st out rest _
    have hst' : StackOK t 0 ([40] :: f :: st) := by
      intro o _; unfold yields; simp [hp.1, hp.2]
    obtain ⟨P, B, h1, h2, h3⟩ := ih ([40] :: f :: st) out (.rparen :: rest) hst'
    refine ⟨[f], toPostfix a, ?_, by simp [toPostfix], by intro x hx; simp at hx; subst hx; exact Or.inl hf⟩
    have hne : ∀ x ∈ P, x ≠ [40] := fun x hx => pending_ne_paren t hp 0 x (h3 x hx)
    simp only [List.cons_append, List.append_assoc, List.nil_append, List.singleton_append]
    rw [shuntLoop, shuntLoop, h1, shuntLoop, popParen_all t P (f :: st) (out ++ B) hne]
    simp only [List.append_assoc, h2]
  | binL p o l r tl tr hf h0 hpo hr _ _ ihl ihr =>
    intro st out rest hst
    obtain ⟨Pl, Bl, l1, l2, l3⟩ := ihl st out (.op o :: (tr ++ rest)) (StackOK_mono t hpo st hst)
    have hyl : ∀ x ∈ Pl, yields t x o = true := fun x hx => pending_yields t hu (t.prio o) x o (l3 x hx) (Or.inr ⟨rfl, hr⟩)
    have hstop : TopStays t o st := topStays_of_stackOK t p o hpo st hst
    obtain ⟨Pr, Br, r1, r2, r3⟩ := ihr (o :: st) (out ++ Bl ++ Pl) rest ((op_stack_ok t o st hf h0).1 hr)
    refine ⟨Pr ++ [o], Bl ++ Pl ++ Br, ?_, ?_, ?_⟩
    · simp only [List.append_assoc, List.cons_append]
      have : tl ++ (Tok.op o :: (tr ++ rest)) = tl ++ (Tok.op o :: (tr ++ rest)) := rfl
      rw [l1, shuntLoop, popOps_all t o Pl st (out ++ Bl) hyl hstop]
      simp only []
      have := r1
      simp only [List.append_assoc] at this ⊢
      rw [this]
      simp
    · simp only [toPostfix, List.append_assoc]
      rw [← l2, ← r2]; simp
    · intro x hx
      simp only [List.mem_append, List.mem_cons, List.not_mem_nil, or_false] at hx
      rcases hx with hx | rfl
      · exact pending_mono t (by omega) x (r3 x hx)
      · exact Or.inr ⟨h0, hpo⟩
  | binR p o l r tl tr hf h0 hpo hr _ _ ihl ihr =>
    intro st out rest hst
    obtain ⟨Pl, Bl, l1, l2, l3⟩ := ihl st out (.op o :: (tr ++ rest)) (StackOK_mono t (by omega) st hst)
    have hyl : ∀ x ∈ Pl, yields t x o = true := fun x hx => pending_yields t hu (t.prio o + 1) x o (l3 x hx) (Or.inl (by omega))
    have hstop : TopStays t o st := topStays_of_stackOK t p o hpo st hst
    obtain ⟨Pr, Br, r1, r2, r3⟩ := ihr (o :: st) (out ++ Bl ++ Pl) rest ((op_stack_ok t o st hf h0).2 hr)
    refine ⟨Pr ++ [o], Bl ++ Pl ++ Br, ?_, ?_, ?_⟩
    · simp only [List.append_assoc, List.cons_append]
      rw [l1, shuntLoop, popOps_all t o Pl st (out ++ Bl) hyl hstop]
      simp only []
      have := r1
      simp only [List.append_assoc] at this ⊢
      rw [this]
      simp
    · simp only [toPostfix, List.append_assoc]
      rw [← l2, ← r2]; simp
    · intro x hx
      simp only [List.mem_append, List.mem_cons, List.not_mem_nil, or_false] at hx
      rcases hx with hx | rfl
      · exact pending_mono t hpo x (r3 x hx)
      · exact Or.inr ⟨h0, hpo⟩

/-- **Shunting-yard correctness, any depth, any (uniform) table**: every rendering of `e` is converted to `toPostfix e`. -/
theorem shunt_correct (t : OpTable) (hu : Uniform t) (hp : ParenOK t) (e : Expr) (ts : List Tok) (h : Renders t 0 e ts) :
    shunt t ts = some (toPostfix e) := by
  obtain ⟨P, B, h1, h2, h3⟩ := renders_shunt t hu hp h [] [] [] trivial
  unfold shunt
  simp only [List.append_nil] at h1
  rw [h1]
  simp only [shuntLoop, List.append_nil, List.nil_append]
  rw [flush_all t P B (fun x hx => by rcases h3 x hx with h | h; exact Or.inl h; exact Or.inr h.1)]
  rw [h2]

end Ajson.Spec

namespace Ajson.Spec
open Ajson Ajson.Cur

/-- executable check of `Uniform` over the entries of the priority table -/
def uniformCheck (t : OpTable) : Bool :=
  t.priority.all (fun p => t.priority.all (fun q =>
    !(t.prio p.1 == t.prio q.1) || t.prio p.1 == 0 || t.isRight p.1 == t.isRight q.1))

theorem prio_ne_zero_mem (t : OpTable) (a : Bytes) (h : t.prio a ≠ 0) : ∃ p ∈ t.priority, p.1 = a := by
  unfold OpTable.prio at h
  cases hf : t.priority.find? (fun p => p.1 == a) with
  | none => simp [hf] at h
  | some p =>
    have hm := List.mem_of_find?_eq_some hf
    have hp := List.find?_some hf
    exact ⟨p, hm, by simpa using hp⟩

theorem uniform_of_check (t : OpTable) (h : uniformCheck t = true) : Uniform t := by
  intro a b hab ha
  obtain ⟨p, hp, rfl⟩ := prio_ne_zero_mem t a ha
  obtain ⟨q, hq, rfl⟩ := prio_ne_zero_mem t b (by rw [← hab]; exact ha)
  unfold uniformCheck at h
  have := List.all_eq_true.mp (List.all_eq_true.mp h p hp) q hq
  simp only [Bool.or_eq_true, Bool.not_eq_true', beq_eq_false_iff_ne, ne_eq, beq_iff_eq] at this
  rcases this with (h1 | h1) | h1
  · exact absurd hab h1
  · exact absurd h1 ha
  · exact h1

/-! ### postfix evaluation computes the value of the tree -/

/-- an abstract semantics: values of atoms, of functions and of operations (left operand first); `none` is an error -/
structure Sem (V : Type) where
  atom : Bytes → Option V
  fn : Bytes → V → Option V
  op : Bytes → V → V → Option V

def evalTree {V : Type} (s : Sem V) : Expr → Option V
  | .atom a => s.atom a
  | .call f x => (evalTree s x).bind (s.fn f)
  | .bin o l r => (evalTree s l).bind (fun a => (evalTree s r).bind (fun b => s.op o a b))

/-- the stack discipline of `eval` (jsonpath.go): a function replaces the top, an operation replaces the two topmost entries
(the lower one is the left operand), anything else is pushed -/
def evalPost {V : Type} (t : OpTable) (s : Sem V) : List Bytes → List V → Option (List V)
  | [], st => some st
  | x :: xs, st =>
    if t.isFunction x then
      match st with
      | a :: st' => (s.fn x a).bind (fun v => evalPost t s xs (v :: st'))
      | [] => none
    else if t.isOperation x then
      match st with
      | b :: a :: st' => (s.op x a b).bind (fun v => evalPost t s xs (v :: st'))
      | _ => none
    else (s.atom x).bind (fun v => evalPost t s xs (v :: st))

/-- the names in `e` are classified by the table the way the tree uses them -/
def WellNamed (t : OpTable) : Expr → Prop
  | .atom a => t.isFunction a = false ∧ t.isOperation a = false
  | .call f x => t.isFunction f = true ∧ WellNamed t x
  | .bin o l r => t.isFunction o = false ∧ t.isOperation o = true ∧ WellNamed t l ∧ WellNamed t r

theorem evalPost_toPostfix {V : Type} (t : OpTable) (s : Sem V) : ∀ (e : Expr), WellNamed t e → ∀ (rest : List Bytes) (st : List V),
    evalPost t s (toPostfix e ++ rest) st = (evalTree s e).bind (fun v => evalPost t s rest (v :: st))
  | .atom a, hw, rest, st => by
    simp only [toPostfix, List.cons_append, List.nil_append, evalPost, hw.1, hw.2, Bool.false_eq_true, if_false, evalTree]
  | .call f x, hw, rest, st => by
    simp only [toPostfix, List.append_assoc, List.cons_append, List.nil_append, evalTree]
    rw [evalPost_toPostfix t s x hw.2 (f :: rest) st]
    cases evalTree s x with
    | none => rfl
    | some v => simp [evalPost, hw.1]
  | .bin o l r, hw, rest, st => by
    simp only [toPostfix, List.append_assoc, List.cons_append, List.nil_append, evalTree]
    rw [evalPost_toPostfix t s l hw.2.2.1 _ st]
    cases evalTree s l with
    | none => rfl
    | some a =>
      simp only [Option.bind_some]
      rw [evalPost_toPostfix t s r hw.2.2.2 _ (a :: st)]
      cases evalTree s r with
      | none => rfl
      | some b => simp [evalPost, hw.1, hw.2.1]

/-- evaluating the postfix form of `e` from an empty stack leaves exactly the value of the tree -/
theorem evalPost_value {V : Type} (t : OpTable) (s : Sem V) (e : Expr) (hw : WellNamed t e) :
    evalPost t s (toPostfix e) [] = (evalTree s e).map (fun v => [v]) := by
  have := evalPost_toPostfix t s e hw [] []
  simp only [List.append_nil] at this
  rw [this]
  cases evalTree s e <;> rfl

end Ajson.Spec
