/-
Two sides of a heap that do not point at each other stay that way under any edit history, and a history on one side never changes
a record of the other: the general form of "a clone and its original never interfere" (C14) and of "everything not addressed is
unchanged" (C05) for whole histories.
-/
import Ajson.Proofs.History
namespace Ajson.Proofs
open Ajson Ajson.Heap

/-! ### the links an edit can create lead to the nodes it names -/

theorem mark_parent (h : Heap) (n x : Id) : ((h.mark n).get x).parent = (h.get x).parent := by
  rcases mark_get h n x with e | e <;> rw [e]

theorem mark_kids (h : Heap) (n x : Id) : (h.mark n).childMap x = h.childMap x := by
  unfold childMap; rcases mark_get h n x with e | e <;> rw [e]

theorem clear_parent_sub (h : Heap) (n x q : Id) (hq : ((h.clear n).get x).parent = some q) : (h.get x).parent = some q := by
  unfold Heap.clear at hq
  simp only [] at hq
  rw [modify_parent_same _ n x] at hq
  · rw [foldl_detach_get] at hq
    split at hq
    · cases hq
    · exact hq
  · exact fun _ => rfl

theorem clear_kids_sub (h : Heap) (n x y : Id) (hy : y ∈ ((h.clear n).childMap x).vals) : y ∈ (h.childMap x).vals := by
  unfold Heap.clear at hy
  simp only [] at hy
  have h1 := kids_modify_sub _ n _ (fun r z hz => by simp [ChildMap.vals] at hz) x y hy
  unfold childMap at h1 ⊢
  rw [foldl_detach_get] at h1
  split at h1
  · exact h1
  · exact h1

theorem update_scalar_links (h : Heap) (n : Id) (v : SetVal) (hv : v.type.isContainer = false) (x : Id) :
    (∀ q, ((h.update (some n) v).1.get x).parent = some q → (h.get x).parent = some q) ∧
    (∀ y, y ∈ ((h.update (some n) v).1.childMap x).vals → y ∈ (h.childMap x).vals) := by
  have base : (∀ q, ((((h.mark n).clear n).modify n (fun r => { r with type := v.type, cache := none })).get x).parent = some q → (h.get x).parent = some q) ∧
      (∀ y, y ∈ ((((h.mark n).clear n).modify n (fun r => { r with type := v.type, cache := none })).childMap x).vals → y ∈ (h.childMap x).vals) := by
    refine ⟨fun q hq => ?_, fun y hy => ?_⟩
    · rw [modify_parent_same _ n x] at hq
      · have := clear_parent_sub _ n x q hq
        rw [mark_parent] at this; exact this
      · exact fun _ => rfl
    · have h1 := kids_keep hy (fun _ => rfl)
      have h2 := clear_kids_sub _ n x y h1
      rw [mark_kids] at h2; exact h2
  have step : ∀ c : Option CacheVal,
      (∀ q, (((((h.mark n).clear n).modify n (fun r => { r with type := v.type, cache := none })).modify n (fun r => { r with cache := c })).get x).parent = some q → (h.get x).parent = some q) ∧
      (∀ y, y ∈ (((((h.mark n).clear n).modify n (fun r => { r with type := v.type, cache := none })).modify n (fun r => { r with cache := c })).childMap x).vals → y ∈ (h.childMap x).vals) := by
    intro c
    refine ⟨fun q hq => ?_, fun y hy => ?_⟩
    · rw [modify_parent_same _ n x] at hq
      · exact base.1 q hq
      · exact fun _ => rfl
    · exact base.2 y (kids_keep hy (fun _ => rfl))
  cases v with
  | null => simp only [Heap.update, Heap.validate]; exact base
  | num b => simp only [Heap.update, Heap.validate]; exact step _
  | str s => simp only [Heap.update, Heap.validate]; exact step _
  | bool b => simp only [Heap.update, Heap.validate]; exact step _
  | arr ids => simp [SetVal.type, NType.isContainer] at hv
  | obj kv => simp [SetVal.type, NType.isContainer] at hv

theorem replaceStep_kids_sub (H : Heap) (n : Id) (k : Bytes) (value x y : Id)
    (hy : y ∈ ((replaceStep H n k value).1.childMap x).vals) : y ∈ (H.childMap x).vals := by
  unfold replaceStep at hy
  cases hl : (H.childMap n).lookup k with
  | none => rw [hl] at hy; exact hy
  | some old =>
    rw [hl] at hy
    simp only [] at hy
    split at hy
    · exact remove_kids_sub H n old x y hy
    · exact hy

theorem kids_insert_fn (k : Bytes) (value : Id) (m : ChildMap) (r : NodeRec) (z : Id) (hm : r.children = some m)
    (hz : z ∈ ChildMap.vals (({ r with children := some (m.insert k value) } : NodeRec).children.getD [])) :
    z ∈ ChildMap.vals (r.children.getD []) ∨ z = value := by
  simp only [Option.getD_some] at hz
  rw [hm]
  exact vals_insert_sub m k value z hz

theorem attachStep_kids (h1 : Heap) (n : Id) (key : Option Bytes) (value x y : Id)
    (hy : y ∈ ((attachStep h1 n key value).1.childMap x).vals) : y ∈ (h1.childMap x).vals ∨ y = value := by
  have base : ∀ kk : Option Bytes, ∀ z, z ∈ (((h1.modify value (fun r => { r with parent := some n, key := kk })).modify n (fun r => { r with cache := none })).childMap x).vals →
      z ∈ (h1.childMap x).vals := fun kk z hz => kids_keep (kids_keep hz (fun _ => rfl)) (fun _ => rfl)
  -- inserting `value` into the map of `n`
  have ins : ∀ (A : Heap) (m : ChildMap) (k : Bytes), (A.get n).children = some m → ∀ z,
      z ∈ ((A.modify n (fun r => { r with children := some (m.insert k value) })).childMap x).vals → z ∈ (A.childMap x).vals ∨ z = value := by
    intro A m k hm z hz
    unfold childMap at hz ⊢
    rw [get_modify] at hz
    split at hz
    · rename_i hc
      rw [hc.1]
      exact kids_insert_fn k value m (A.get n) z hm hz
    · left; exact hz
  unfold attachStep at hy
  simp only [] at hy
  cases key with
  | none =>
    simp only [] at hy
    split at hy
    · left; exact base none y hy
    · rename_i m hm
      simp only [] at hy
      have hm' : (((((h1.modify value (fun r => { r with parent := some n, key := none })).modify n (fun r => { r with cache := none })).modify value
          (fun r => { r with index := some m.length })).get n).children) = some m := by
        rw [← hm]
        exact modify_proj (fun r => r.children) _ _ _ _ (fun _ => rfl)
      rcases ins _ m _ hm' y hy with a | a
      · left; exact base none y (kids_keep a (fun _ => rfl))
      · right; exact a
  | some k =>
    simp only [] at hy
    generalize hH3 : ((h1.modify value (fun r => { r with parent := some n, key := some k })).modify n (fun r => { r with cache := none })) = H3 at hy
    have b3 : ∀ z, z ∈ (H3.childMap x).vals → z ∈ (h1.childMap x).vals := by rw [← hH3]; exact base (some k)
    have g := replaceStep_kids_sub H3 n k value x
    generalize replaceStep H3 n k value = res2 at hy g
    obtain ⟨h4, o2⟩ := res2
    simp only [] at g
    cases o2 with
    | err e => left; exact b3 y (g y hy)
    | panic s => left; exact b3 y (g y hy)
    | ok u =>
      cases u
      simp only [] at hy
      split at hy
      · left; exact b3 y (g y hy)
      · rename_i m hm
        simp only [] at hy
        rcases ins h4 m k hm y hy with a | a
        · left; exact b3 y (g y a)
        · right; exact a

theorem appendNode_kids (h : Heap) (n : Id) (key : Option Bytes) (value x y : Id)
    (hy : y ∈ ((h.appendNode n key value).1.childMap x).vals) : y ∈ (h.childMap x).vals ∨ y = value := by
  rw [appendNode_stages] at hy
  split at hy
  · left; exact hy
  have f3 : ∀ z, z ∈ ((detachStep h value).1.childMap x).vals → z ∈ (h.childMap x).vals := by
    intro z hz
    unfold detachStep at hz
    cases hp : (h.get value).parent with
    | none => rw [hp] at hz; exact hz
    | some p => rw [hp] at hz; exact remove_kids_sub h p value x z hz
  generalize detachStep h value = res at hy f3
  obtain ⟨h1, o1⟩ := res
  simp only [] at f3
  cases o1 with
  | err e => left; exact f3 y hy
  | panic s => left; exact f3 y hy
  | ok u =>
    cases u
    simp only [] at hy
    rcases attachStep_kids h1 n key value x y hy with a | a
    · left; exact f3 y a
    · right; exact a

/-- **the links of the heap after an edit are links of the heap before it, or lead to a node the edit names** -/
theorem Edit.links (h : Heap) (e : Edit) (x : Id) :
    (∀ q : Id, ((e.run h).get x).parent = some q → (h.get x).parent = some q ∨ (q : Nat) ∈ e.names) ∧
    (∀ y : Id, y ∈ ((e.run h).childMap x).vals → y ∈ (h.childMap x).vals ∨ (y : Nat) ∈ e.names) := by
  have scalar : ∀ (n : Nat) (v : SetVal), v.type.isContainer = false →
      (∀ q : Id, (((h.update (some n) v).1).get x).parent = some q → (h.get x).parent = some q ∨ (q : Nat) ∈ [n]) ∧
      (∀ y : Id, y ∈ (((h.update (some n) v).1).childMap x).vals → y ∈ (h.childMap x).vals ∨ (y : Nat) ∈ [n]) := by
    intro n v hv
    have := update_scalar_links h n v hv x
    exact ⟨fun q hq => Or.inl (this.1 q hq), fun y hy => Or.inl (this.2 y hy)⟩
  cases e with
  | setNull n => exact scalar n .null rfl
  | setNumeric n b => exact scalar n (.num b) rfl
  | setString n s => exact scalar n (.str s) rfl
  | setBool n b => exact scalar n (.bool b) rfl
  | deleteKey n k =>
    refine ⟨fun q hq => Or.inl ?_, fun y hy => Or.inl ?_⟩
    · exact popKey_cases (fun X => (X.get x).parent = some q → (h.get x).parent = some q) h _ k id
        (fun m c hq' => remove_parent_sub h m c x q hq') hq
    · exact popKey_cases (fun X => y ∈ (X.childMap x).vals → y ∈ (h.childMap x).vals) h _ k id
        (fun m c hy' => remove_kids_sub h m c x y hy') hy
  | deleteIndex n i =>
    refine ⟨fun q hq => Or.inl ?_, fun y hy => Or.inl ?_⟩
    · exact popIndex_cases (fun X => (X.get x).parent = some q → (h.get x).parent = some q) h _ i id
        (fun m c hq' => remove_parent_sub h m c x q hq') hq
    · exact popIndex_cases (fun X => y ∈ (X.childMap x).vals → y ∈ (h.childMap x).vals) h _ i id
        (fun m c hy' => remove_kids_sub h m c x y hy') hy
  | delete n =>
    refine ⟨fun q hq => Or.inl ?_, fun y hy => Or.inl ?_⟩
    · have hq' : ((h.delete n).1.get x).parent = some q := hq
      unfold Heap.delete at hq'
      cases hp : (h.get n).parent with
      | none => rw [hp] at hq'; exact hq'
      | some p => rw [hp] at hq'; exact remove_parent_sub h p n x q hq'
    · have hy' : y ∈ ((h.delete n).1.childMap x).vals := hy
      unfold Heap.delete at hy'
      cases hp : (h.get n).parent with
      | none => rw [hp] at hy'; exact hy'
      | some p => rw [hp] at hy'; exact remove_kids_sub h p n x y hy'
  | appendArray n v =>
    have gp := appendNode_parent h n none v x
    have gk := appendNode_kids h n none v x
    unfold Edit.run Heap.appendArray
    simp only [Edit.names]
    split
    · exact ⟨fun q hq => Or.inl hq, fun y hy => Or.inl hy⟩
    split
    · exact ⟨fun q hq => Or.inl hq, fun y hy => Or.inl hy⟩
    simp only [List.map_cons, List.map_nil, Heap.appendAll]
    generalize h.appendNode n none v = res at gp gk
    obtain ⟨h1, o⟩ := res
    simp only [] at gp gk
    have fin : (∀ q : Id, (h1.get x).parent = some q → (h.get x).parent = some q ∨ (q : Nat) ∈ [n, v]) ∧
        (∀ y : Id, y ∈ (h1.childMap x).vals → y ∈ (h.childMap x).vals ∨ (y : Nat) ∈ [n, v]) := by
      refine ⟨fun q hq => ?_, fun y hy => ?_⟩
      · rcases gp q hq with a | ⟨_, a⟩
        · left; exact a
        · right; rw [a]; simp
      · rcases gk y hy with a | a
        · left; exact a
        · right; rw [a]; simp
    cases o with
    | err e => exact fin
    | panic s => exact fin
    | ok u =>
      cases u
      simp only [Heap.appendAll]
      refine ⟨fun q hq => ?_, fun y hy => ?_⟩
      · rw [mark_parent] at hq; exact fin.1 q hq
      · rw [mark_kids] at hy; exact fin.2 y hy
  | appendObject n k v =>
    have gp := appendNode_parent h n (some k) v x
    have gk := appendNode_kids h n (some k) v x
    unfold Edit.run Heap.appendObject
    simp only [Edit.names]
    split
    · exact ⟨fun q hq => Or.inl hq, fun y hy => Or.inl hy⟩
    generalize h.appendNode n (some k) v = res at gp gk
    obtain ⟨h1, o⟩ := res
    simp only [] at gp gk
    have fin : (∀ q : Id, (h1.get x).parent = some q → (h.get x).parent = some q ∨ (q : Nat) ∈ [n, v]) ∧
        (∀ y : Id, y ∈ (h1.childMap x).vals → y ∈ (h.childMap x).vals ∨ (y : Nat) ∈ [n, v]) := by
      refine ⟨fun q hq => ?_, fun y hy => ?_⟩
      · rcases gp q hq with a | ⟨_, a⟩
        · left; exact a
        · right; rw [a]; simp
      · rcases gk y hy with a | a
        · left; exact a
        · right; rw [a]; simp
    cases o with
    | err e => exact fin
    | panic s => exact fin
    | ok u =>
      cases u
      simp only []
      refine ⟨fun q hq => ?_, fun y hy => ?_⟩
      · rw [mark_parent] at hq; exact fin.1 q hq
      · rw [mark_kids] at hy; exact fin.2 y hy

/-! ### sides -/

/-- the nodes satisfying `P` point (by parent and by children map) only at nodes satisfying `P` -/
def Closed (H : Heap) (P : Nat → Prop) : Prop :=
  ∀ x : Nat, P x → (∀ q : Nat, (H.get x).parent = some q → P q) ∧ (∀ y : Id, y ∈ (H.childMap x).vals → P y)

theorem Closed.anc {H : Heap} {P : Nat → Prop} (c : Closed H P) (a : Nat) (ha : P a) : ∀ (k : Nat) (x : Id), up H a k = some x → P x
  | 0, x, hx => by simp [up] at hx; subst hx; exact ha
  | k+1, x, hx => by
    simp only [up] at hx
    cases hu : up H a k with
    | none => simp [hu] at hx
    | some y => simp only [hu] at hx; exact (c y (Closed.anc c a ha k y hu)).1 x hx

/-- an edit that names only `P`-nodes leaves every other record as it is and keeps both sides closed -/
theorem Edit.side {H : Heap} {P : Nat → Prop} (cP : Closed H P) (cN : Closed H (fun x => ¬ P x)) (e : Edit) (hn : ∀ x ∈ e.names, P x) :
    (∀ m : Nat, ¬ P m → (e.run H).get m = H.get m) ∧ Closed (e.run H) P ∧ Closed (e.run H) (fun x => ¬ P x) := by
  -- the region of a P-node contains no other node
  have region : ∀ a : Nat, P a → ∀ m : Nat, ¬ P m →
      ¬ Anc H m a ∧ (m : Id) ∉ (H.childMap a).vals ∧ (∀ p, (H.get a).parent = some p → ¬ Anc H m p ∧ (m : Id) ∉ (H.childMap p).vals) := by
    intro a ha m hm
    refine ⟨?_, ?_, ?_⟩
    · rintro ⟨k, hk⟩; exact hm (Closed.anc cP a ha k m hk)
    · intro hk; exact hm ((cP a ha).2 m hk)
    · intro p hp
      have hpP : P p := (cP a ha).1 p hp
      exact ⟨by rintro ⟨k, hk⟩; exact hm (Closed.anc cP p hpP k m hk), fun hk => hm ((cP p hpP).2 m hk)⟩
  have frame : ∀ m : Nat, ¬ P m → (e.run H).get m = H.get m := by
    intro m hm
    have ne : ∀ a : Nat, P a → (m : Id) ≠ a := fun a ha e' => hm (e' ▸ ha)
    cases e with
    | setNull n => exact update_scalar_frame H n .null rfl m (region n (hn n (by simp [Edit.names])) m hm).1 (region n (hn n (by simp [Edit.names])) m hm).2.1
    | setNumeric n b => exact update_scalar_frame H n (.num b) rfl m (region n (hn n (by simp [Edit.names])) m hm).1 (region n (hn n (by simp [Edit.names])) m hm).2.1
    | setString n s => exact update_scalar_frame H n (.str s) rfl m (region n (hn n (by simp [Edit.names])) m hm).1 (region n (hn n (by simp [Edit.names])) m hm).2.1
    | setBool n b => exact update_scalar_frame H n (.bool b) rfl m (region n (hn n (by simp [Edit.names])) m hm).1 (region n (hn n (by simp [Edit.names])) m hm).2.1
    | deleteKey n k => exact popKey_frame H n k m (region n (hn n (by simp [Edit.names])) m hm).1 (region n (hn n (by simp [Edit.names])) m hm).2.1
    | deleteIndex n i => exact popIndex_frame H n i m (region n (hn n (by simp [Edit.names])) m hm).1 (region n (hn n (by simp [Edit.names])) m hm).2.1
    | delete n => exact delete_frame H n m (ne n (hn n (by simp [Edit.names]))) (region n (hn n (by simp [Edit.names])) m hm).2.2
    | appendArray n v =>
      have rn := region n (hn n (by simp [Edit.names])) m hm
      have rv := region v (hn v (by simp [Edit.names])) m hm
      exact appendArray_frame H n v m (ne v (hn v (by simp [Edit.names]))) rn.1 rn.2.1 rv.2.2
    | appendObject n k v =>
      have rn := region n (hn n (by simp [Edit.names])) m hm
      have rv := region v (hn v (by simp [Edit.names])) m hm
      exact appendObject_frame H n k v m (ne v (hn v (by simp [Edit.names]))) rn.1 rn.2.1 rv.2.2
  refine ⟨frame, ?_, ?_⟩
  · intro x hx
    obtain ⟨l1, l2⟩ := Edit.links H e x
    refine ⟨fun q hq => ?_, fun y hy => ?_⟩
    · rcases l1 q hq with a | a
      · exact (cP x hx).1 q a
      · exact hn q a
    · rcases l2 y hy with a | a
      · exact (cP x hx).2 y a
      · exact hn y a
  · intro x hx
    have hg := frame x hx
    refine ⟨fun q hq => ?_, fun y hy => ?_⟩
    · rw [hg] at hq; exact (cN x hx).1 q hq
    · unfold childMap at hy; rw [hg] at hy; exact (cN x hx).2 y hy

/-- **histories**: any sequence of edits that name only `P`-nodes leaves every record outside `P` as it is -/
theorem history_side : ∀ (es : List Edit) (H : Heap) (P : Nat → Prop), Closed H P → Closed H (fun x => ¬ P x) →
    (∀ e ∈ es, ∀ x ∈ e.names, P x) → ∀ m : Nat, ¬ P m → (es.foldl Edit.run H).get m = H.get m
  | [], _, _, _, _, _, _, _ => rfl
  | e :: es, H, P, cP, cN, hn, m, hm => by
    obtain ⟨f, c1, c2⟩ := Edit.side cP cN e (hn e (by simp))
    simp only [List.foldl_cons]
    rw [history_side es (e.run H) P c1 c2 (fun e' he' => hn e' (List.mem_cons_of_mem _ he')) m hm, f m hm]

end Ajson.Proofs
