/-
The slice arithmetic of ApplyJSONPath is Python's, for every length, every pair of bounds (absent, negative, beyond the
ends) and every non-zero step.
-/
import Ajson.Spec.PySlice

namespace Ajson.Proofs
open Ajson Ajson.Heap Ajson.Spec

/-- the core arithmetic fact, ascending: clamped bounds give the same verdict on every index of the array -/
theorem asc_core (n k : Int) (st lo lo' hi hi' : Int) (hk0 : 0 ≤ k) (hkn : k < n)
    (hlo : lo = lo' ∨ (k < lo ∧ k < lo')) (hhi : (k < hi ↔ k < hi')) :
    (decide (lo ≤ k) && decide (k < hi) && ((k - lo) % st == 0)) =
    (decide (lo' ≤ k) && decide (k < hi') && ((k - lo') % st == 0)) := by
  rcases hlo with h | ⟨h1, h2⟩
  · subst h
    by_cases h3 : k < hi
    · have := hhi.mp h3; simp [h3, this]
    · have : ¬ k < hi' := fun h => h3 (hhi.mpr h); simp [h3, this]
  · have a : ¬ lo ≤ k := by omega
    have b : ¬ lo' ≤ k := by omega
    simp [a, b]

theorem desc_core (n k : Int) (st hi hi' lo lo' : Int) (_hk0 : 0 ≤ k) (_hkn : k < n)
    (hhi : hi = hi' ∨ (hi < k ∧ hi' < k)) (hlo : (k > lo ↔ k > lo')) :
    (decide (k ≤ hi) && decide (k > lo) && ((hi - k) % (-st) == 0)) =
    (decide (k ≤ hi') && decide (k > lo') && ((hi' - k) % (-st) == 0)) := by
  rcases hhi with h | ⟨h1, h2⟩
  · subst h
    by_cases h3 : k > lo
    · have := hlo.mp h3; simp [h3, this]
    · have : ¬ k > lo' := fun h => h3 (hlo.mpr h); simp [h3, this]
  · have a : ¬ k ≤ hi := by omega
    have b : ¬ k ≤ hi' := by omega
    simp [a, b]

theorem slice_python (n : Nat) (s e : Option Int) (st : Int) (hst : st ≠ 0) :
    sliceIndexes n (ajsonBounds n s e st).1 (ajsonBounds n s e st).2 st =
      pySlice n s e st := by
  unfold pySlice
  by_cases hpos : st > 0
  · simp only [sliceIndexes, hpos, if_true, Int.ofNat_eq_natCast]
    apply List.filter_congr
    intro k hk
    have hkn : (k : Int) < n := by simp at hk; omega
    have hk0 : (0 : Int) ≤ k := by omega
    simp only [pyVisits, pyBounds, ajsonBounds, hpos, if_true, getPositiveIndex, Int.ofNat_eq_natCast]
    apply asc_core n k st _ _ _ _ hk0 hkn
    · cases s with
      | none => simp
      | some v => simp only []; split <;> split <;> (try split) <;> (try split) <;> omega
    · cases e with
      | none => simp
      | some v => simp only []; split <;> split <;> (try split) <;> (try split) <;> omega
  · have hneg : st < 0 := by omega
    have hnp : ¬ st > 0 := hpos
    simp only [sliceIndexes, hnp, if_false, Int.ofNat_eq_natCast]
    apply List.filter_congr
    intro k hk
    have hkn : (k : Int) < n := by simp at hk; omega
    have hk0 : (0 : Int) ≤ k := by omega
    simp only [pyVisits, pyBounds, ajsonBounds, hnp, if_false, getPositiveIndex, Int.ofNat_eq_natCast]
    apply desc_core n k st _ _ _ _ hk0 hkn
    · cases s with
      | none => simp
      | some v => simp only []; split <;> split <;> (try split) <;> (try split) <;> omega
    · cases e with
      | none => simp
      | some v => simp only []; split <;> split <;> (try split) <;> (try split) <;> omega

/-- Python's `range(start, stop, st)` visits k iff k = start + i·st for some i ≥ 0 and k lies before `stop` in the direction of travel -/
theorem pyVisits_iff_progression (n : Nat) (s e : Option Int) (st : Int) (hst : st ≠ 0) (k : Nat) :
    pyVisits n s e st k = true ↔
      ∃ i : Nat, (k : Int) = (pyBounds n s e st).1 + i * st ∧
        (if st > 0 then (k : Int) < (pyBounds n s e st).2 else (k : Int) > (pyBounds n s e st).2) := by
  unfold pyVisits
  generalize pyBounds n s e st = b
  obtain ⟨start, stop⟩ := b
  simp only []
  by_cases hpos : st > 0
  · simp only [hpos, if_true, Bool.and_eq_true, decide_eq_true_eq, beq_iff_eq]
    constructor
    · rintro ⟨⟨h1, h2⟩, h3⟩
      obtain ⟨c, hc⟩ := Int.dvd_of_emod_eq_zero h3
      have hc0 : 0 ≤ c := by
        rcases Int.lt_or_le c 0 with h | h
        · have : st * c < 0 := Int.mul_neg_of_pos_of_neg hpos h
          omega
        · exact h
      refine ⟨c.toNat, ?_, h2⟩
      rw [Int.toNat_of_nonneg hc0, Int.mul_comm]; omega
    · rintro ⟨i, h1, h2⟩
      have : 0 ≤ (i : Int) * st := Int.mul_nonneg (by omega) (by omega)
      refine ⟨⟨by omega, h2⟩, ?_⟩
      have : (k : Int) - start = i * st := by omega
      rw [this]; exact Int.mul_emod_left _ _
  · have hneg : st < 0 := by omega
    simp only [hpos, if_false, Bool.and_eq_true, decide_eq_true_eq, beq_iff_eq]
    constructor
    · rintro ⟨⟨h1, h2⟩, h3⟩
      obtain ⟨c, hc⟩ := Int.dvd_of_emod_eq_zero h3
      have hc0 : 0 ≤ c := by
        rcases Int.lt_or_le c 0 with h | h
        · have : (-st) * c < 0 := Int.mul_neg_of_pos_of_neg (by omega) h
          omega
        · exact h
      refine ⟨c.toNat, ?_, h2⟩
      rw [Int.toNat_of_nonneg hc0]
      have : -st * c = -(c * st) := by rw [Int.neg_mul, Int.mul_comm]
      omega
    · rintro ⟨i, h1, h2⟩
      have : 0 ≤ (i : Int) * (-st) := Int.mul_nonneg (by omega) (by omega)
      have e1 : (i : Int) * (-st) = -(i * st) := Int.mul_neg _ _
      refine ⟨⟨by omega, h2⟩, ?_⟩
      have : start - (k : Int) = i * (-st) := by omega
      rw [this]; exact Int.mul_emod_left _ _

/-- an ascending slice lists its indices in strictly increasing order, a descending one in strictly decreasing order:
together with the membership characterisation this determines the list -/
theorem pySlice_sorted (n : Nat) (s e : Option Int) (st : Int) :
    if st > 0 then (pySlice n s e st).Pairwise (· < ·) else (pySlice n s e st).Pairwise (· > ·) := by
  unfold pySlice
  by_cases h : st > 0
  · simp only [h, if_true]
    exact List.Pairwise.filter _ List.pairwise_lt_range
  · simp only [h, if_false]
    apply List.Pairwise.filter
    rw [List.pairwise_reverse]
    exact List.pairwise_lt_range

theorem mem_pySlice (n : Nat) (s e : Option Int) (st : Int) (k : Nat) :
    k ∈ pySlice n s e st ↔ k < n ∧ pyVisits n s e st k = true := by
  unfold pySlice
  by_cases h : st > 0 <;> simp [h]

end Ajson.Proofs
