/-
Histories: any finite sequence of edit requests, clones, container assignments, SetNode and multi-argument appends — each addressed
to any nodes that exist at that moment — keeps the heap sound and acyclic.
-/
import Ajson.Proofs.CloneSound
import Ajson.Proofs.SetContainer
import Ajson.Proofs.SetNode
namespace Ajson.Proofs
open Ajson Ajson.Heap

/-! ### histories of edits and clones -/

/-- one step of a history: an edit request, `Clone()` of a node, SetArray / SetObject with any elements, or SetNode -/
inductive Step
  | edit (e : Edit)
  | clone (n : Nat)
  | setArray (n : Nat) (ids : List Nat)
  | setObject (n : Nat) (kv : List (Bytes × Nat))
  | setNode (n v : Nat)

def Step.names : Step → List Nat
  | .edit e => e.names
  | .clone n => [n]
  | .setArray n ids => n :: ids
  | .setObject n kv => n :: kv.map (·.2)
  | .setNode n v => [n, v]

def Step.run (h : Heap) : Step → Heap
  | .edit e => e.run h
  | .clone n => (h.clone n).1
  | .setArray n ids => (h.update (some n) (.arr ids)).1
  | .setObject n kv => (h.update (some n) (.obj kv)).1
  | .setNode n v => (h.setNode n v).1

/-- every step names nodes that exist when it is made — including the nodes earlier clones have made -/
def ValidSteps : Heap → List Step → Prop
  | _, [] => True
  | h, s :: ss => (∀ x ∈ s.names, x < h.size) ∧ ValidSteps (s.run h) ss

theorem Step.sound {h : Heap} (hs : Struct h) (ha : Acyc h) (s : Step) (hnames : ∀ x ∈ s.names, x < h.size) :
    Struct (s.run h) ∧ Acyc (s.run h) ∧ h.size ≤ (s.run h).size := by
  cases s with
  | edit e =>
    obtain ⟨a, b, c⟩ := Edit.sound hs ha e hnames
    exact ⟨a, b, Nat.le_of_eq c.symm⟩
  | clone n =>
    obtain ⟨a, b, c, _⟩ := clone_sound hs ha n (hnames n (by simp [Step.names]))
    exact ⟨a, b, Nat.le_of_lt c⟩
  | setArray n ids =>
    obtain ⟨a, b, c⟩ := setArray_sound hs ha n (hnames n (by simp [Step.names])) ids (fun x hx => hnames x (by simp [Step.names, hx]))
    exact ⟨a, b, Nat.le_of_eq c.symm⟩
  | setObject n kv =>
    obtain ⟨a, b, c⟩ := setObject_sound hs ha n (hnames n (by simp [Step.names])) kv
      (fun p hp => hnames p.2 (by simp only [Step.names, List.mem_cons, List.mem_map]; exact Or.inr ⟨p, hp, rfl⟩))
    exact ⟨a, b, Nat.le_of_eq c.symm⟩
  | setNode n v =>
    exact setNode_sound hs ha n v (hnames n (by simp [Step.names])) (hnames v (by simp [Step.names]))

/-- **any history of edits, clones, SetArray / SetObject and SetNode**, each step on any nodes that exist at that moment (the copies included), leaves a sound
acyclic heap -/
theorem steps_sound : ∀ (ss : List Step) (h : Heap), Struct h → Acyc h → ValidSteps h ss →
    Struct (ss.foldl Step.run h) ∧ Acyc (ss.foldl Step.run h) ∧ h.size ≤ (ss.foldl Step.run h).size
  | [], _, hs, ha, _ => ⟨hs, ha, Nat.le_refl _⟩
  | s :: ss, h, hs, ha, hv => by
    obtain ⟨s1, a1, z1⟩ := Step.sound hs ha s hv.1
    obtain ⟨s2, a2, z2⟩ := steps_sound ss (s.run h) s1 a1 hv.2
    simp only [List.foldl_cons]
    exact ⟨s2, a2, Nat.le_trans z1 z2⟩

end Ajson.Proofs
