/-
Histories: any finite sequence of edit requests, clones, container assignments, SetNode and multi-argument appends — each addressed
to any nodes that exist at that moment — keeps the heap sound and acyclic.
-/
import Ajson.Proofs.CloneSound
import Ajson.Proofs.SetContainer
import Ajson.Proofs.SetNode
import Ajson.Proofs.Frame
namespace Ajson.Proofs
open Ajson Ajson.Heap

/-! ### histories of edits and clones -/

/-- one step of a history: an edit request, `Clone()` of a node, SetArray / SetObject with any elements, or SetNode -/
inductive Step
  | edit (e : Edit)
  | clone (n : Nat)
  | setArray (n : Nat) (ids : List Nat)
  | setObject (n : Nat) (kv : List (Bytes × Nat))
  | setNode (n v : Nat)
  | newNull (key : Bytes)
  | newNumeric (key : Bytes) (bits : UInt64)
  | newString (key : Bytes) (s : Bytes)
  | newBool (key : Bytes) (b : Bool)
  | newArray (key : Bytes)
  | newObject (key : Bytes)

def Step.names : Step → List Nat
  | .edit e => e.names
  | .clone n => [n]
  | .setArray n ids => n :: ids
  | .setObject n kv => n :: kv.map (·.2)
  | .setNode n v => [n, v]
  | .newNull _ | .newNumeric _ _ | .newString _ _ | .newBool _ _ | .newArray _ | .newObject _ => []

def Step.run (h : Heap) : Step → Heap
  | .edit e => e.run h
  | .clone n => (h.clone n).1
  | .setArray n ids => (h.update (some n) (.arr ids)).1
  | .setObject n kv => (h.update (some n) (.obj kv)).1
  | .setNode n v => (h.setNode n v).1
  | .newNull key => (h.scalarNode key .null none).1
  | .newNumeric key b => (h.scalarNode key .numeric (some (.num b))).1
  | .newString key s => (h.scalarNode key .string (some (.str s))).1
  | .newBool key b => (h.scalarNode key .bool (some (.bool b))).1
  | .newArray key => (h.arrayNode key none).1
  | .newObject key => (h.objectNode key none).1

/-- a record the constructors allocate: detached, dirty, childless -/
def FreshRec (r : NodeRec) : Prop :=
  r.parent = none ∧ r.dirty = true ∧
    ((r.children = none ∧ r.type.isContainer = false) ∨ (r.children = some [] ∧ r.type.isContainer = true))

/-- allocating a fresh record keeps the heap sound and acyclic -/
theorem struct_alloc_fresh {h : Heap} (hs : Struct h) (ha : Acyc h) (r : NodeRec) (fr : FreshRec r) :
    Struct (h.alloc r).1 ∧ Acyc (h.alloc r).1 ∧ h.size ≤ (h.alloc r).1.size := by
  obtain ⟨rp, rd, rc⟩ := fr
  have old : ∀ m : Nat, m < h.size → (h.alloc r).1.get m = h.get m := fun m hm => get_alloc_old h r m hm
  have cmOld : ∀ m : Nat, m < h.size → (h.alloc r).1.childMap m = h.childMap m := fun m hm => by unfold childMap; rw [old m hm]
  have new : (h.alloc r).1.get h.size = r := by rw [get_alloc]; simp
  have cmNew : (h.alloc r).1.childMap h.size = [] := by
    unfold childMap; rw [new]
    rcases rc with ⟨c, _⟩ | ⟨c, _⟩ <;> rw [c] <;> rfl
  refine ⟨fun p hp => ?_, ?_, by simp⟩
  · simp only [size_alloc] at hp
    by_cases hlt : p < h.size
    · have ok := hs p hlt
      have kb : ∀ kc ∈ h.childMap p, (kc.2 : Nat) < h.size := fun kc hkc => (ok.kids kc hkc).1
      refine ⟨fun kc hkc => ?_, ?_, ?_, ?_, fun q hq => ?_, fun hd => ?_⟩
      · rw [cmOld p hlt] at hkc
        obtain ⟨a, b, c, d⟩ := ok.kids kc hkc
        refine ⟨?_, b, ?_, ?_⟩
        · simp only [size_alloc]; exact Nat.lt_succ_of_lt a
        · rw [old _ a]; exact c
        · unfold PosOK at d ⊢
          rw [old p hlt, old _ a]; exact d
      · rw [cmOld p hlt]; exact ok.nodup
      · rw [cmOld p hlt, old p hlt]; exact ok.dense
      · rw [cmOld p hlt, old p hlt]; exact ok.shape
      · rw [old p hlt] at hq
        obtain ⟨a, b, c, d⟩ := ok.par q hq
        refine ⟨?_, ?_, ?_, ?_⟩
        · simp only [size_alloc]; exact Nat.lt_succ_of_lt a
        · rw [old q a]; exact b
        · rw [cmOld q a]; exact c
        · rw [old p hlt, old q a]; exact d
      · rw [old p hlt] at hd
        obtain ⟨a, b, c⟩ := ok.clean hd
        refine ⟨?_, ?_, fun kc hkc => ?_⟩
        · rw [old p hlt]; exact a
        · rw [old p hlt]; exact b
        · rw [cmOld p hlt] at hkc
          rw [old _ (kb kc hkc)]; exact c kc hkc
    · have hp' : p = h.size := Nat.le_antisymm (Nat.le_of_lt_succ hp) (Nat.le_of_not_lt hlt)
      subst hp'
      refine ⟨fun kc hkc => ?_, ?_, fun _ i hi => ?_, ?_, fun q hq => ?_, fun hd => ?_⟩
      · rw [cmNew] at hkc; cases hkc
      · rw [cmNew]; exact List.nodup_nil
      · rw [cmNew] at hi; cases hi
      · rw [new, cmNew]
        rcases rc with ⟨c, t⟩ | ⟨c, t⟩
        · simp [t]
        · simp [t, c]
      · rw [new, rp] at hq; cases hq
      · rw [new, rd] at hd; cases hd
  · intro n k
    rw [up_congr (h := h) (h' := (h.alloc r).1) (fun x => by
      rw [get_alloc]; split
      · rename_i hx; rw [hx, rp]
        have : h.get h.size = default := by
          unfold Heap.get Heap.size
          rw [List.getD_eq_getElem?_getD, List.getElem?_eq_none (Nat.le_refl _)]; rfl
        rw [this]; rfl
      · rfl) n (k + 1)]
    exact ha n k

/-- every step names nodes that exist when it is made — including the nodes earlier clones have made -/
def ValidSteps : Heap → List Step → Prop
  | _, [] => True
  | h, s :: ss => (∀ x ∈ s.names, x < h.size) ∧ ValidSteps (s.run h) ss

theorem Step.sound {h : Heap} (hs : Struct h) (ha : Acyc h) (s : Step) (hnames : ∀ x ∈ s.names, x < h.size) :
    Struct (s.run h) ∧ Acyc (s.run h) ∧ h.size ≤ (s.run h).size := by
  cases s with
  | edit e =>
    obtain ⟨a, b, c⟩ := Edit.sound hs ha e hnames
    exact ⟨a, b, Nat.le_of_eq c.symm⟩
  | clone n =>
    obtain ⟨a, b, c, _⟩ := clone_sound hs ha n (hnames n (by simp [Step.names]))
    exact ⟨a, b, Nat.le_of_lt c⟩
  | setArray n ids =>
    obtain ⟨a, b, c⟩ := setArray_sound hs ha n (hnames n (by simp [Step.names])) ids (fun x hx => hnames x (by simp [Step.names, hx]))
    exact ⟨a, b, Nat.le_of_eq c.symm⟩
  | setObject n kv =>
    obtain ⟨a, b, c⟩ := setObject_sound hs ha n (hnames n (by simp [Step.names])) kv
      (fun p hp => hnames p.2 (by simp only [Step.names, List.mem_cons, List.mem_map]; exact Or.inr ⟨p, hp, rfl⟩))
    exact ⟨a, b, Nat.le_of_eq c.symm⟩
  | setNode n v =>
    exact setNode_sound hs ha n v (hnames n (by simp [Step.names])) (hnames v (by simp [Step.names]))
  | newNull key => exact struct_alloc_fresh hs ha _ ⟨rfl, rfl, Or.inl ⟨rfl, rfl⟩⟩
  | newNumeric key b => exact struct_alloc_fresh hs ha _ ⟨rfl, rfl, Or.inl ⟨rfl, rfl⟩⟩
  | newString key s => exact struct_alloc_fresh hs ha _ ⟨rfl, rfl, Or.inl ⟨rfl, rfl⟩⟩
  | newBool key b => exact struct_alloc_fresh hs ha _ ⟨rfl, rfl, Or.inl ⟨rfl, rfl⟩⟩
  | newArray key => exact struct_alloc_fresh hs ha _ ⟨rfl, rfl, Or.inr ⟨rfl, rfl⟩⟩
  | newObject key => exact struct_alloc_fresh hs ha _ ⟨rfl, rfl, Or.inr ⟨rfl, rfl⟩⟩

/-- **any history of edits, clones, SetArray / SetObject and SetNode**, each step on any nodes that exist at that moment (the copies included), leaves a sound
acyclic heap -/
theorem steps_sound : ∀ (ss : List Step) (h : Heap), Struct h → Acyc h → ValidSteps h ss →
    Struct (ss.foldl Step.run h) ∧ Acyc (ss.foldl Step.run h) ∧ h.size ≤ (ss.foldl Step.run h).size
  | [], _, hs, ha, _ => ⟨hs, ha, Nat.le_refl _⟩
  | s :: ss, h, hs, ha, hv => by
    obtain ⟨s1, a1, z1⟩ := Step.sound hs ha s hv.1
    obtain ⟨s2, a2, z2⟩ := steps_sound ss (s.run h) s1 a1 hv.2
    simp only [List.foldl_cons]
    exact ⟨s2, a2, Nat.le_trans z1 z2⟩

end Ajson.Proofs
