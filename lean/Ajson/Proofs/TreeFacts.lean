/-
Facts about the tree `Unmarshal` returns: every unshadowed value of the text has a node that carries its type and span, is
clean, and answers the typed getters with the denoted value.
-/
import Ajson.Proofs.ParseWf
namespace Ajson.Proofs
open Ajson Ajson.Heap Ajson.Spec

theorem newNode_datas (h : Heap) (d idx : Nat) (rest : Bytes) (p : Option Id) (t : NType) (k : Option Bytes) (h' : Heap) (id : Id)
    (hn : Ajson.newNode h d idx rest p t k = .ok (h', id)) : h'.datas = h.datas := by
  unfold Ajson.newNode at hn
  simp only [] at hn
  cases p with
  | none =>
    simp only [Except.ok.injEq] at hn
    have := congrArg Prod.fst hn
    simp only [] at this
    rw [← this]; simp
  | some q =>
    simp only [] at hn
    split at hn
    · simp only [Except.ok.injEq, Prod.mk.injEq] at hn; rw [← hn.1]; simp
    · split at hn
      · cases k with
        | none => cases hn
        | some kk =>
          simp only [Except.ok.injEq, Prod.mk.injEq] at hn
          rw [← hn.1]
          split <;> simp
      · cases hn

theorem leafHeap_datas (d : Nat) (h : Heap) (p : Option Id) (k : Option Bytes) (t : NType) (a b : Nat) (rest : Bytes) :
    (leafHeap d h p k t a b rest).datas = h.datas := by
  unfold leafHeap
  cases hn : Ajson.newNode h d a rest p t k with
  | error e => rfl
  | ok x => obtain ⟨h1, cur⟩ := x; simp [newNode_datas _ _ _ _ _ _ _ _ _ hn]

theorem openHeap_datas (d : Nat) (h : Heap) (p : Option Id) (k : Option Bytes) (t : NType) (a : Nat) (rest : Bytes) :
    (openHeap d h p k t a rest).datas = h.datas := by
  unfold openHeap
  cases hn : Ajson.newNode h d a rest p t k with
  | error e => rfl
  | ok x => obtain ⟨h1, cur⟩ := x; simp [newNode_datas _ _ _ _ _ _ _ _ _ hn]

mutual
theorem build_datas (d : Nat) : (v : STree) → (h : Heap) → (p : Option Id) → (k : Option Bytes) → (build d v h p k).datas = h.datas
  | .null a b, h, p, k => by simp only [build]; exact leafHeap_datas ..
  | .num a b _, h, p, k => by simp only [build]; exact leafHeap_datas ..
  | .str a b _, h, p, k => by simp only [build]; exact leafHeap_datas ..
  | .bool a b _, h, p, k => by simp only [build]; exact leafHeap_datas ..
  | .arr a b xs, h, p, k => by simp only [build, datas_modify]; rw [buildElems_datas d xs, openHeap_datas]
  | .obj a b kvs, h, p, k => by simp only [build, datas_modify]; rw [buildMembers_datas d kvs, openHeap_datas]
theorem buildElems_datas (d : Nat) : (xs : List STree) → (h : Heap) → (c : Id) → (buildElems d xs h c).datas = h.datas
  | [], h, c => by simp only [buildElems]
  | x :: xs, h, c => by simp only [buildElems]; rw [buildElems_datas d xs, build_datas d x]
theorem buildMembers_datas (d : Nat) : (kvs : List (Bytes × STree)) → (h : Heap) → (c : Id) → (buildMembers d kvs h c).datas = h.datas
  | [], h, c => by simp only [buildMembers]
  | (k, v) :: rest, h, c => by simp only [buildMembers]; rw [buildMembers_datas d rest, build_datas d v]
end

/-- `w` is a value inside `v` that is not shadowed by a later member of the same name; `id'` is its node when `v`'s is `id` -/
inductive SubAt : STree → Nat → STree → Nat → Prop
  | refl (v : STree) (id : Nat) : SubAt v id v id
  | elem (a b : Nat) (pre : List STree) (x : STree) (post : List STree) (id : Nat) (w : STree) (id' : Nat) :
      SubAt x (id + 1 + nodesL pre) w id' → SubAt (.arr a b (pre ++ x :: post)) id w id'
  | member (a b : Nat) (pre : List (Bytes × STree)) (key : Bytes) (x : STree) (post : List (Bytes × STree)) (id : Nat) (w : STree) (id' : Nat) :
      post.any (fun p => p.1 == key) = false → SubAt x (id + 1 + nodesM pre) w id' → SubAt (.obj a b (pre ++ (key, x) :: post)) id w id'

theorem RepElems.get {h : Heap} {d : Nat} : ∀ (pre : List STree) (x : STree) (post : List STree) (k cid : Nat) (m : ChildMap),
    RepElems h d (pre ++ x :: post) k cid m →
    Rep h d x (cid + nodesL pre) ∧ m.lookup (itoa (k + pre.length)) = some (cid + nodesL pre) ∧
      (h.get (cid + nodesL pre)).index = some (k + pre.length)
  | [], x, post, k, cid, m, hr => by
    simp only [List.nil_append, RepElems] at hr
    simpa [nodesL] using ⟨hr.2.2.1, hr.1, hr.2.1⟩
  | y :: ys, x, post, k, cid, m, hr => by
    simp only [List.cons_append, RepElems] at hr
    have := RepElems.get ys x post (k + 1) (cid + nodes y) m hr.2.2.2
    simp only [nodesL, List.length_cons]
    rw [show cid + (nodes y + nodesL ys) = cid + nodes y + nodesL ys by omega, show k + (ys.length + 1) = k + 1 + ys.length by omega]
    exact this

theorem RepMembers.get {h : Heap} {d : Nat} : ∀ (pre : List (Bytes × STree)) (key : Bytes) (x : STree) (post : List (Bytes × STree))
    (cid : Nat) (m : ChildMap), RepMembers h d (pre ++ (key, x) :: post) cid m → post.any (fun p => p.1 == key) = false →
    Rep h d x (cid + nodesM pre) ∧ m.lookup key = some (cid + nodesM pre) ∧ (h.get (cid + nodesM pre)).key = some key
  | [], key, x, post, cid, m, hr, hns => by
    simp only [List.nil_append, RepMembers] at hr
    rcases hr.1 with hsh | ⟨a, b, c⟩
    · rw [hns] at hsh; cases hsh
    · simpa [nodesM] using ⟨c, a, b⟩
  | (k', y) :: ys, key, x, post, cid, m, hr, hns => by
    simp only [List.cons_append, RepMembers] at hr
    have := RepMembers.get ys key x post (cid + nodes y) m hr.2 hns
    simp only [nodesM]
    rw [show cid + (nodes y + nodesM ys) = cid + nodes y + nodesM ys by omega]
    exact this

theorem WfL.get {data : Bytes} : ∀ (pre : List STree) (x : STree) (post : List STree), WfL data (pre ++ x :: post) → WfT data x
  | [], x, post, h => by simp only [List.nil_append, WfL] at h; exact h.1
  | y :: ys, x, post, h => by simp only [List.cons_append, WfL] at h; exact WfL.get ys x post h.2

theorem WfM.get {data : Bytes} : ∀ (pre : List (Bytes × STree)) (key : Bytes) (x : STree) (post : List (Bytes × STree)),
    WfM data (pre ++ (key, x) :: post) → WfT data x
  | [], key, x, post, h => by simp only [List.nil_append, WfM] at h; exact h.1
  | (k', y) :: ys, key, x, post, h => by simp only [List.cons_append, WfM] at h; exact WfM.get ys key x post h.2

/-- representation and consistency descend to every unshadowed value inside -/
theorem SubAt.rep {h : Heap} {d : Nat} {data : Bytes} {v : STree} {id : Nat} {w : STree} {id' : Nat} (hs : SubAt v id w id') :
    Rep h d v id → WfT data v → Rep h d w id' ∧ WfT data w := by
  induction hs with
  | refl v id => exact fun a b => ⟨a, b⟩
  | elem a b pre x post id w id' _ ih =>
    intro hr hw
    simp only [Rep] at hr
    simp only [WfT] at hw
    exact ih (RepElems.get pre x post 0 (id + 1) _ hr.2.2).1 (WfL.get pre x post hw.2)
  | member a b pre key x post id w id' hns _ ih =>
    intro hr hw
    simp only [Rep] at hr
    simp only [WfT] at hw
    exact ih (RepMembers.get pre key x post (id + 1) _ hr.2.2 hns).1 (WfM.get pre key x post hw.2)

def _root_.Ajson.Spec.STree.ntype : STree → NType
  | .null _ _ => .null | .num _ _ _ => .numeric | .str _ _ _ => .string | .bool _ _ _ => .bool | .arr _ _ _ => .array | .obj _ _ _ => .object

/-- the record of a node that represents `w` -/
theorem Rep.node {h : Heap} {d : Nat} {data : Bytes} {w : STree} {id : Nat} (hr : Rep h d w id) (hw : WfT data w) :
    (h.get id).type = w.ntype ∧ (h.get id).data = some d ∧ (h.get id).b0 = w.start ∧ (h.get id).b1 = w.stop ∧
    (h.get id).dirty = false ∧ (h.get id).cache = none ∧ w.start < w.stop := by
  cases w <;> simp only [Rep, WfT, Leaf, Cont] at hr hw <;> simp only [STree.ntype, STree.start, STree.stop]
  · exact ⟨hr.1, hr.2.1, hr.2.2.1, hr.2.2.2.1, hr.2.2.2.2.1, hr.2.2.2.2.2.2, hw.1⟩
  · exact ⟨hr.1, hr.2.1, hr.2.2.1, hr.2.2.2.1, hr.2.2.2.2.1, hr.2.2.2.2.2.2, hw.1⟩
  · exact ⟨hr.1, hr.2.1, hr.2.2.1, hr.2.2.2.1, hr.2.2.2.2.1, hr.2.2.2.2.2.2, by omega⟩
  · exact ⟨hr.1, hr.2.1, hr.2.2.1, hr.2.2.2.1, hr.2.2.2.2.1, hr.2.2.2.2.2.2, hw.1⟩
  · exact ⟨hr.1.1, hr.1.2.1, hr.1.2.2.1, hr.1.2.2.2.1, hr.1.2.2.2.2.1, hr.1.2.2.2.2.2, hw.1⟩
  · exact ⟨hr.1.1, hr.1.2.1, hr.1.2.2.1, hr.1.2.2.2.1, hr.1.2.2.2.2.1, hr.1.2.2.2.2.2, hw.1⟩

/-- `Source()` of a node that represents `w` is exactly the span of `w` in the input -/
theorem Rep.source {h : Heap} {d : Nat} {data : Bytes} {w : STree} {id : Nat} (hr : Rep h d w id) (hw : WfT data w)
    (hd : h.datas[d]? = some data) : h.source id = some (slice data w.start w.stop) := by
  obtain ⟨_, h2, h3, h4, h5, _, h7⟩ := hr.node hw
  have : ¬ w.stop = 0 := by omega
  simp [Heap.source, h5, this, h2, hd, h3, h4, slice]

theorem Rep.getNumeric {h : Heap} {d : Nat} {data : Bytes} {a b : Nat} {lit : Bytes} {id : Nat} (hr : Rep h d (.num a b lit) id)
    (hw : WfT data (.num a b lit)) (hd : h.datas[d]? = some data) :
    (h.getNumeric (some id)).2 = (match parseFloat64 lit with | .ok bits => .ok bits | .error _ => .err (errT .foreign)) := by
  have hs := hr.source hw hd
  obtain ⟨h1, _, _, _, _, h6, _⟩ := hr.node hw
  simp only [WfT] at hw
  simp only [STree.start, STree.stop] at hs
  rw [← hw.2] at hs
  simp only [STree.ntype] at h1
  unfold Heap.getNumeric
  simp only [typeOf, h1, bne_self_eq_false, Bool.false_eq_true, if_false]
  unfold Heap.getValue
  simp only [h6, h1, hs, Option.getD_some]
  cases parseFloat64 lit <;> rfl

theorem Rep.getString {h : Heap} {d : Nat} {data : Bytes} {a b : Nat} {raw : Bytes} {id : Nat} (hr : Rep h d (.str a b raw) id)
    (hw : WfT data (.str a b raw)) (hd : h.datas[d]? = some data) :
    ∃ s, unquoteBytes raw 34 = some s ∧ (h.getString (some id)).2 = .ok s := by
  have hs := hr.source hw hd
  obtain ⟨h1, _, _, _, _, h6, _⟩ := hr.node hw
  simp only [WfT] at hw
  obtain ⟨_, hraw, s, hu⟩ := hw
  simp only [STree.start, STree.stop] at hs
  rw [← hraw] at hs
  simp only [STree.ntype] at h1
  refine ⟨s, hu, ?_⟩
  unfold Heap.getString
  simp only [typeOf, h1, bne_self_eq_false, Bool.false_eq_true, if_false]
  unfold Heap.getValue
  have hq : UInt8.ofNat Gen.b_quotes = 34 := by decide
  simp only [h6, h1, hs, Option.getD_some, hq, hu]

theorem Rep.getBool {h : Heap} {d : Nat} {data : Bytes} {a b : Nat} {v : Bool} {id : Nat} (hr : Rep h d (.bool a b v) id)
    (hw : WfT data (.bool a b v)) (hd : h.datas[d]? = some data) : (h.getBool (some id)).2 = .ok v := by
  have hs := hr.source hw hd
  obtain ⟨h1, _, _, _, _, h6, _⟩ := hr.node hw
  simp only [WfT] at hw
  simp only [STree.start, STree.stop] at hs
  rw [hw.2] at hs
  simp only [STree.ntype] at h1
  unfold Heap.getBool
  simp only [typeOf, h1, bne_self_eq_false, Bool.false_eq_true, if_false]
  unfold Heap.getValue
  simp only [h6, h1, hs, Option.getD_some]
  cases v <;> simp (decide := true) [wTrue, wFalse]

/-- **what `Unmarshal` returns** for an RFC 8259 text: a heap whose node 0 represents the parsed tree over the input as data
cell 0 -/
theorem heapOrd_empty' : HeapOrd ({} : Heap) := by
  intro n hn; simp [Heap.size] at hn

theorem unmarshal_tree (data : Bytes) (v : STree) (hp : parseRef data = .ok v) :
    ∃ H, unmarshal data = .ok (H, 0) ∧ Rep H 0 v 0 ∧ WfT data v ∧ H.datas[0]? = some data := by
  have hb := unmarshalIn_builds {} heapOrd_empty' data v hp
  refine ⟨_, hb, ?_, (parseRef_wf data v hp).1, ?_⟩
  · have := (build_rep (({} : Heap).addData data).2 v (({} : Heap).addData data).1 none none
      (by intro n hn; simp [Heap.addData, Heap.size] at hn) trivial).1
    simpa [Heap.addData, Heap.size] using this
  · rw [build_datas]; simp [Heap.addData]

end Ajson.Proofs
