/-
`absSorted` (what `Unpack` returns, Proofs/UnpackValue) is `absVal` (the value the mutation theorems speak about, Proofs/Refine) with
the members of every object put in key order: `absSorted = absVal.map canon`. So every refinement theorem about `absVal` is a theorem
about what `Unpack` answers, up to the order in which a Go map would list its members (it has none).
-/
import Ajson.Proofs.UnpackValue
namespace Ajson.Proofs
open Ajson Ajson.Heap

def insertBy {α : Type} (key : α → Bytes) (p : α) : List α → List α
  | [] => [p]
  | q :: qs => if bytesLt (key p) (key q) then p :: q :: qs else q :: insertBy key p qs

def sortBy {α : Type} (key : α → Bytes) (l : List α) : List α := l.foldr (insertBy key) []

theorem insertSorted_eq (p : Bytes × Id) : ∀ l, insertSorted p l = insertBy (·.1) p l
  | [] => rfl
  | q :: qs => by unfold insertSorted insertBy; rw [insertSorted_eq p qs]

theorem sortByKey_eq (m : ChildMap) : sortByKey m = sortBy (·.1) m := by
  unfold sortByKey sortBy
  induction m with
  | nil => rfl
  | cons p ps ih => simp only [List.foldr_cons]; rw [ih, insertSorted_eq]

mutual
/-- the members of every object in key order -/
def canon : JVal → JVal
  | .arr xs => .arr (canonL xs)
  | .obj kvs => .obj (sortBy (·.1) (canonM kvs))
  | .null => .null
  | .num b => .num b
  | .str s => .str s
  | .bool b => .bool b
def canonL : List JVal → List JVal
  | [] => []
  | x :: xs => canon x :: canonL xs
def canonM : List (Bytes × JVal) → List (Bytes × JVal)
  | [] => []
  | (k, v) :: r => (k, canon v) :: canonM r
end

theorem canonL_eq : ∀ xs, canonL xs = xs.map canon
  | [] => rfl
  | x :: xs => by simp only [canonL, List.map_cons]; rw [canonL_eq xs]

theorem canonM_eq : ∀ kvs, canonM kvs = kvs.map (fun kv => (kv.1, canon kv.2))
  | [] => rfl
  | (k, v) :: r => by simp only [canonM, List.map_cons]; rw [canonM_eq r]

theorem mapM_map' {α β γ : Type} (g : α → Option β) (f : β → γ) : ∀ l : List α, l.mapM (fun x => (g x).map f) = (l.mapM g).map (List.map f)
  | [] => rfl
  | x :: xs => by
    simp only [List.mapM_cons]
    rw [mapM_map' g f xs]
    cases g x <;> cases xs.mapM g <;> rfl

theorem mapM_insertBy {α β : Type} (g : α → Option β) (ka : α → Bytes) (kb : β → Bytes) (hk : ∀ a b, g a = some b → kb b = ka a) (p : α) :
    ∀ l : List α, (insertBy ka p l).mapM g = (g p).bind (fun b => (l.mapM g).map (insertBy kb b))
  | [] => by
    simp only [insertBy, List.mapM_cons, List.mapM_nil]
    cases g p <;> rfl
  | q :: qs => by
    unfold insertBy
    split
    · rename_i hlt
      simp only [List.mapM_cons]
      cases hp : g p with
      | none => rfl
      | some b =>
        cases hq : g q with
        | none => rfl
        | some c =>
          cases qs.mapM g with
          | none => rfl
          | some cs =>
            show some (b :: c :: cs) = some (insertBy kb b (c :: cs))
            unfold insertBy
            rw [hk p b hp, hk q c hq, if_pos hlt]
    · rename_i hlt
      simp only [List.mapM_cons]
      rw [mapM_insertBy g ka kb hk p qs]
      cases hp : g p with
      | none => cases g q <;> rfl
      | some b =>
        cases hq : g q with
        | none => rfl
        | some c =>
          cases qs.mapM g with
          | none => rfl
          | some cs =>
            show some (c :: insertBy kb b cs) = some (insertBy kb b (c :: cs))
            conv => rhs; unfold insertBy
            rw [hk p b hp, hk q c hq, if_neg hlt]

theorem mapM_sortBy {α β : Type} (g : α → Option β) (ka : α → Bytes) (kb : β → Bytes) (hk : ∀ a b, g a = some b → kb b = ka a) :
    ∀ l : List α, (sortBy ka l).mapM g = (l.mapM g).map (sortBy kb)
  | [] => rfl
  | p :: ps => by
    unfold sortBy
    simp only [List.foldr_cons, List.mapM_cons]
    have ih := mapM_sortBy g ka kb hk ps
    unfold sortBy at ih
    rw [mapM_insertBy g ka kb hk p, ih]
    cases g p <;> cases ps.mapM g <;> rfl

/-- **what `Unpack` returns is the value the tree denotes, members in key order** -/
theorem absSorted_eq_canon (h : Heap) : ∀ (fuel : Nat) (n : Id), absSorted fuel h n = (absVal fuel h n).map canon
  | 0, _ => rfl
  | fuel+1, n => by
    unfold absSorted absVal
    cases h.typeOf n with
    | null => rfl
    | numeric => simp only []; cases scalarVal h n with | none => rfl | some c => cases c <;> rfl
    | string => simp only []; cases scalarVal h n with | none => rfl | some c => cases c <;> rfl
    | bool => simp only []; cases scalarVal h n with | none => rfl | some c => cases c <;> rfl
    | array =>
      simp only []
      rw [mapM_congr _ (fun c => (absVal fuel h c).map canon) _ (fun c _ => absSorted_eq_canon h fuel c), mapM_map']
      cases (arrayIds (h.childMap n)).mapM (fun c => absVal fuel h c) with
      | none => rfl
      | some xs => simp only [Option.map_some, canon, canonL_eq]
    | object =>
      simp only []
      rw [sortByKey_eq, mapM_congr _ (fun p => ((absVal fuel h p.2).map (fun v => (p.1, v))).map (fun kv => (kv.1, canon kv.2))) _ (fun p _ => by
        rw [absSorted_eq_canon h fuel p.2]; cases absVal fuel h p.2 <;> rfl)]
      rw [mapM_sortBy (fun (p : Bytes × Id) => ((absVal fuel h p.2).map (fun v => (p.1, v))).map (fun kv => (kv.1, canon kv.2)))
          (fun (p : Bytes × Id) => p.1) (fun (p : Bytes × JVal) => p.1) (fun a b e => by
        cases hv : absVal fuel h a.2 with
        | none => rw [hv] at e; cases e
        | some v => rw [hv] at e; cases e; rfl), mapM_map']
      cases (h.childMap n).mapM (fun p => (absVal fuel h p.2).map (fun v => (p.1, v))) with
      | none => rfl
      | some kvs => simp only [Option.map_some, canon, canonM_eq]

/-- **`Unpack` answers with the denoted value**: on a structurally sound heap an answer of `Unpack` is `canon` of `absVal` -/
theorem unpack_is_value (fuel : Nat) (h : Heap) (n : Id) (v : JVal) (hs : Struct h) (hn : n < h.size)
    (e : (h.unpack fuel n).2 = .ok v) : (absVal fuel h n).map canon = some v := by
  rw [← absSorted_eq_canon]; exact unpack_absSorted fuel h n v hs hn e

/-- reads do not change the value a node denotes, on any heap -/
theorem absVal_fills {h h' : Heap} (r : Fills h h') (fuel : Nat) (n : Id) : absVal fuel h' n = absVal fuel h n :=
  absVal_congr h h' (fun _ => True) (fun m _ => ⟨typeOf_congr r.1 m, fun _ => scalarVal_fills r m, childMap_same r.1 m, fun _ _ => trivial⟩) fuel n trivial

/-- **`Unpack` answers exactly the value the tree denotes, members in key order** -/
theorem unpack_iff_value (fuel : Nat) (h : Heap) (n : Id) (v : JVal) (hs : Struct h) (hn : n < h.size) :
    (h.unpack fuel n).2 = .ok v ↔ (absVal fuel h n).map canon = some v := by
  rw [← absSorted_eq_canon]; exact unpack_iff_absSorted fuel h n v hs hn

end Ajson.Proofs
