/-
`Unpack` with fuel = number of nodes never runs out of fuel on a sound acyclic heap, and fails only where a scalar has no value (a
number literal out of range): if every scalar of the heap has a value of its type, `Unpack` of every node answers.
-/
import Ajson.Proofs.UnpackCanon
import Ajson.Proofs.Acyclic
namespace Ajson.Proofs
open Ajson Ajson.Heap

/-- every scalar node has a value of its type -/
def ScalarsOK (h : Heap) : Prop := ∀ m : Id,
  (h.typeOf m = .numeric → ∃ b, scalarVal h m = some (.num b)) ∧
  (h.typeOf m = .string → ∃ s, scalarVal h m = some (.str s)) ∧
  (h.typeOf m = .bool → ∃ b, scalarVal h m = some (.bool b))

theorem mapM_total {α β : Type} (F : α → Option β) : ∀ (l : List α), (∀ x ∈ l, ∃ v, F x = some v) → ∃ vs, l.mapM F = some vs
  | [], _ => ⟨[], rfl⟩
  | x :: xs, hx => by
    obtain ⟨v, hv⟩ := hx x (by simp)
    obtain ⟨vs, hvs⟩ := mapM_total F xs (fun y hy => hx y (by simp [hy]))
    exact ⟨v :: vs, by simp only [List.mapM_cons, hv, hvs]; rfl⟩

/-- within the fuel a subtree needs, every node denotes a value — provided its scalars have values -/
theorem absSorted_total {h : Heap} {b : Nat} (sc : ScalarsOK h) : ∀ {n f : Nat}, SubTree h b n f → ∃ v, absSorted f h n = some v := by
  intro n f st
  induction st with
  | mk n f _ _ ih =>
    unfold absSorted
    cases ht : h.typeOf n with
    | null => exact ⟨_, rfl⟩
    | numeric => obtain ⟨x, hx⟩ := (sc n).1 ht; simp only [hx]; exact ⟨_, rfl⟩
    | string => obtain ⟨x, hx⟩ := (sc n).2.1 ht; simp only [hx]; exact ⟨_, rfl⟩
    | bool => obtain ⟨x, hx⟩ := (sc n).2.2 ht; simp only [hx]; exact ⟨_, rfl⟩
    | array =>
      simp only []
      obtain ⟨vs, hvs⟩ := mapM_total (fun c => absSorted f h c) (arrayIds (h.childMap n)) (fun c hc => by
        obtain ⟨kc, hkc, rfl⟩ := List.mem_map.mp (mem_arrayIds hc)
        exact ih kc hkc)
      rw [hvs]; exact ⟨_, rfl⟩
    | object =>
      simp only []
      obtain ⟨vs, hvs⟩ := mapM_total (fun (p : Bytes × Id) => (absSorted f h p.2).map (fun v => (p.1, v))) (sortByKey (h.childMap n)) (fun p hp => by
        obtain ⟨v, hv⟩ := ih p (mem_sortByKey hp)
        exact ⟨(p.1, v), by rw [hv]; rfl⟩)
      rw [hvs]; exact ⟨_, rfl⟩

theorem SubTree.more {h : Heap} {b : Nat} : ∀ {n f : Nat}, SubTree h b n f → SubTree h b n (f + 1) := by
  intro n f st
  induction st with
  | mk n f hn _ ih => exact SubTree.mk n (f + 1) hn ih

/-- **`Unpack` answers on every node of a sound acyclic heap whose scalars have values**, with fuel = number of nodes (and the
fuel the public `Unpack()` of the model passes, one more) -/
theorem unpack_total {h : Heap} (hs : Struct h) (ha : Acyc h) (sc : ScalarsOK h) (n : Nat) (hn : n < h.size) :
    (∃ v, (h.unpack h.size n).2 = .ok v) ∧ ∃ v, (h.unpack (h.size + 1) n).2 = .ok v := by
  obtain ⟨v, hv⟩ := absSorted_total sc (clone_hypothesis hs ha n hn)
  obtain ⟨w, hw⟩ := absSorted_total sc (clone_hypothesis hs ha n hn).more
  exact ⟨⟨v, (unpack_iff_absSorted h.size h n v hs hn).mpr hv⟩, ⟨w, (unpack_iff_absSorted (h.size + 1) h n w hs hn).mpr hw⟩⟩

end Ajson.Proofs
