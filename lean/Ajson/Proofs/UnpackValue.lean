/-
Unpack returns the plain data the tree denotes: whenever the model's `Unpack` succeeds, its result is `absSorted` — `absVal` of
`Proofs/Refine` with the members of every object listed in key order (a Go map has no order; the model lists them sorted). The proof
follows `Unpack` through the heap it threads (every read may fill cells): reads (`Fills`, Proofs/Fills) do not change what a node denotes.
No coherence hypothesis: the theorem holds on every structurally sound heap, so after any history of edits (`steps_sound`).
-/
import Ajson.Proofs.Refine
import Ajson.Proofs.Views
import Ajson.Proofs.Fills
namespace Ajson.Proofs
open Ajson Ajson.Heap

/-- `absVal` with the members of every object in key order -/
def absSorted : Nat → Heap → Id → Option JVal
  | 0, _, _ => none
  | fuel+1, h, n =>
    match h.typeOf n with
    | .null => some .null
    | .numeric => match scalarVal h n with | some (.num b) => some (.num b) | _ => none
    | .string => match scalarVal h n with | some (.str s) => some (.str s) | _ => none
    | .bool => match scalarVal h n with | some (.bool b) => some (.bool b) | _ => none
    | .array => ((arrayIds (h.childMap n)).mapM (fun c => absSorted fuel h c)).map JVal.arr
    | .object => ((sortByKey (h.childMap n)).mapM (fun p => (absSorted fuel h p.2).map (fun v => (p.1, v)))).map JVal.obj

theorem mem_insertSorted {p q : Bytes × Id} : ∀ {l : List (Bytes × Id)}, q ∈ insertSorted p l → q = p ∨ q ∈ l
  | [], h => by simp [insertSorted] at h; exact Or.inl h
  | r :: rs, h => by
    unfold insertSorted at h
    split at h
    · simp only [List.mem_cons] at h
      rcases h with h | h | h
      · exact Or.inl h
      · exact Or.inr (by simp [h])
      · exact Or.inr (by simp [h])
    · simp only [List.mem_cons] at h
      rcases h with h | h
      · exact Or.inr (by simp [h])
      · rcases mem_insertSorted h with h' | h'
        · exact Or.inl h'
        · exact Or.inr (by simp [h'])

theorem mem_sortByKey {m : ChildMap} {q : Bytes × Id} (h : q ∈ sortByKey m) : q ∈ m := by
  unfold sortByKey at h
  induction m with
  | nil => simp at h
  | cons p ps ih =>
    simp only [List.foldr_cons] at h
    rcases mem_insertSorted h with h' | h'
    · simp [h']
    · exact List.mem_cons_of_mem _ (ih h')

/-- what a node denotes depends only on types, scalar payloads and children maps (as for `absVal`) -/
theorem absSorted_congr (h h' : Heap) (P : Id → Prop)
    (hP : ∀ m, P m → h'.typeOf m = h.typeOf m ∧ ((h.typeOf m).isContainer = false → scalarVal h' m = scalarVal h m) ∧
      h'.childMap m = h.childMap m ∧ ∀ c ∈ (h.childMap m).vals, P c) :
    ∀ (fuel : Nat) (n : Id), P n → absSorted fuel h' n = absSorted fuel h n
  | 0, _, _ => rfl
  | fuel+1, n, hn => by
    obtain ⟨t, s, c, k⟩ := hP n hn
    unfold absSorted
    rw [t]
    cases ht : h.typeOf n with
    | null => rfl
    | numeric => simp only []; rw [s (by rw [ht]; rfl)]
    | string => simp only []; rw [s (by rw [ht]; rfl)]
    | bool => simp only []; rw [s (by rw [ht]; rfl)]
    | array =>
      simp only []
      rw [c, mapM_congr _ (fun c => absSorted fuel h c) _ (fun x hx => absSorted_congr h h' P hP fuel x (k x (mem_arrayIds hx)))]
    | object =>
      simp only []
      rw [c, mapM_congr _ (fun p => (absSorted fuel h p.2).map (fun v => (p.1, v))) _ (fun p hp => by
        rw [absSorted_congr h h' P hP fuel p.2 (k p.2 (List.mem_map.mpr ⟨p, mem_sortByKey hp, rfl⟩))])]

theorem childMap_same {h h' : Heap} (hs : SameButCaches h h') (m : Id) : h'.childMap m = h.childMap m := by
  have := hs.2.2 m
  have hc : (h'.get m).children = (h.get m).children := by
    have := congrArg NodeRec.children this
    exact this
  unfold childMap; rw [hc]

/-- **reads do not change what a node denotes** -/
theorem absSorted_read {h h' : Heap} (r : Fills h h') (fuel : Nat) (n : Id) : absSorted fuel h' n = absSorted fuel h n :=
  absSorted_congr h h' (fun _ => True) (fun m _ => ⟨typeOf_congr r.1 m, fun _ => scalarVal_fills r m, childMap_same r.1 m, fun _ _ => trivial⟩) fuel n trivial

/-- the structural invariant does not look at cache cells -/
theorem Struct.of_same {h h' : Heap} (hs : Struct h) (s : SameButCaches h h') : Struct h' := by
  have fld : ∀ m : Id, (h'.get m).parent = (h.get m).parent ∧ (h'.get m).children = (h.get m).children ∧ (h'.get m).key = (h.get m).key ∧
      (h'.get m).index = (h.get m).index ∧ (h'.get m).type = (h.get m).type ∧ (h'.get m).data = (h.get m).data ∧
      (h'.get m).b1 = (h.get m).b1 ∧ (h'.get m).dirty = (h.get m).dirty := by
    intro m
    have e := s.2.2 m
    refine ⟨?_, ?_, ?_, ?_, ?_, ?_, ?_, ?_⟩
    · have := congrArg NodeRec.parent e; exact this
    · have := congrArg NodeRec.children e; exact this
    · have := congrArg NodeRec.key e; exact this
    · have := congrArg NodeRec.index e; exact this
    · have := congrArg NodeRec.type e; exact this
    · have := congrArg NodeRec.data e; exact this
    · have := congrArg NodeRec.b1 e; exact this
    · have := congrArg NodeRec.dirty e; exact this
  have cm : ∀ m : Id, h'.childMap m = h.childMap m := childMap_same s
  intro p hp
  rw [s.2.1] at hp
  have ok := hs p hp
  obtain ⟨f1, f2, f3, f4, f5, f6, f7, f8⟩ := fld p
  refine ⟨?_, by rw [cm]; exact ok.nodup, by rw [cm, f5]; exact ok.dense, by rw [cm, f5, f2]; exact ok.shape, ?_, ?_⟩
  · intro kc hkc
    rw [cm] at hkc
    obtain ⟨a, b, c, d⟩ := ok.kids kc hkc
    obtain ⟨g1, _, g3, g4, _⟩ := fld kc.2
    refine ⟨by rw [s.2.1]; exact a, b, by rw [g1]; exact c, ?_⟩
    unfold PosOK at d ⊢
    rw [f5, g3, g4]; exact d
  · intro q hq
    rw [f1] at hq
    obtain ⟨a, b, c, d⟩ := ok.par q hq
    exact ⟨by rw [s.2.1]; exact a, by rw [(fld q).2.2.2.2.1]; exact b, by rw [cm]; exact c, by rw [f8, (fld q).2.2.2.2.2.2.2]; exact d⟩
  · intro hd
    rw [f8] at hd
    obtain ⟨a, b, c⟩ := ok.clean hd
    refine ⟨by rw [f6]; exact a, by rw [f7]; exact b, fun kc hkc => ?_⟩
    rw [cm] at hkc
    rw [(fld kc.2).2.2.2.2.2.2.2]; exact c kc hkc

/-- a fold that threads the heap through reads and appends one answer per item computes `mapM` of the answers on the first heap -/
theorem foldH_mapM {α γ : Type} (F : Heap → α → Option γ) (f : Heap → α → List γ → Heap × Outcome (List γ)) (Q : Heap → α → Prop)
    (hQ : ∀ h h' x, Fills h h' → Q h x → Q h' x)
    (hF : ∀ h h' x, Fills h h' → F h' x = F h x)
    (hstep : ∀ h x acc, Struct h → Q h x → Fills h (f h x acc).1 ∧
      ∀ acc', (f h x acc).2 = .ok acc' → ∃ v, F h x = some v ∧ acc' = acc ++ [v]) :
    ∀ (xs : List α) (h : Heap) (acc r : List γ), Struct h → (∀ x ∈ xs, Q h x) → (foldH f h xs acc).2 = .ok r →
      ∃ vs, xs.mapM (F h) = some vs ∧ r = acc ++ vs
  | [], h, acc, r, _, _, e => by
    simp only [foldH] at e
    injection e with e
    exact ⟨[], rfl, by simp [e]⟩
  | x :: xs, h, acc, r, g, q, e => by
    obtain ⟨rd, st⟩ := hstep h x acc g (q x (by simp))
    unfold foldH at e
    generalize hres : f h x acc = res at e rd st
    obtain ⟨h1, o⟩ := res
    cases o with
    | err _ => simp at e
    | panic _ => simp at e
    | ok acc' =>
      simp only [] at e rd
      obtain ⟨v, hv, hacc⟩ := st acc' rfl
      obtain ⟨vs, hvs, hr⟩ := foldH_mapM F f Q hQ hF hstep xs h1 acc' r (g.of_same rd.1) (fun y hy => hQ h h1 y rd (q y (by simp [hy]))) e
      rw [mapM_congr _ (F h) xs (fun y _ => hF h h1 y rd)] at hvs
      refine ⟨v :: vs, ?_, by rw [hr, hacc]; simp⟩
      simp only [List.mapM_cons, hv, hvs]
      rfl

/-- **`Unpack` returns what the tree denotes**: on a structurally sound heap, whenever `Unpack` answers, the answer is `absSorted` -/
theorem unpack_absSorted : ∀ (fuel : Nat) (h : Heap) (n : Id) (v : JVal), Struct h → n < h.size → (h.unpack fuel n).2 = .ok v →
    absSorted fuel h n = some v
  | 0, h, n, v, _, _, e => by unfold Heap.unpack at e; simp at e
  | fuel+1, h, n, v, g, hn, e => by
    unfold Heap.unpack at e
    unfold absSorted
    cases ht : h.typeOf n with
    | null => simp only [ht] at e ⊢; injection e with e; rw [e]
    | numeric =>
      simp only [ht] at e ⊢
      have ha : ∀ b, (h.getNumeric (some n)).2 = .ok b → _ := fun b => scalar_of_getNumeric (h := h) (n := n) (b := b)
      generalize h.getNumeric (some n) = res at e ha
      obtain ⟨h1, o⟩ := res
      cases o with
      | err _ => simp at e
      | panic _ => simp at e
      | ok b => simp only [] at e; injection e with e; rw [ha b rfl, ← e]
    | string =>
      simp only [ht] at e ⊢
      have ha : ∀ b, (h.getString (some n)).2 = .ok b → _ := fun b => scalar_of_getString (h := h) (n := n) (b := b)
      generalize h.getString (some n) = res at e ha
      obtain ⟨h1, o⟩ := res
      cases o with
      | err _ => simp at e
      | panic _ => simp at e
      | ok b => simp only [] at e; injection e with e; rw [ha b rfl, ← e]
    | bool =>
      simp only [ht] at e ⊢
      have ha : ∀ b, (h.getBool (some n)).2 = .ok b → _ := fun b => scalar_of_getBool (h := h) (n := n) (b := b)
      generalize h.getBool (some n) = res at e ha
      obtain ⟨h1, o⟩ := res
      cases o with
      | err _ => simp at e
      | panic _ => simp at e
      | ok b => simp only [] at e; injection e with e; rw [ha b rfl, ← e]
    | array =>
      simp only [ht] at e ⊢
      rw [placeByIndex_eq_arrayIds g n hn ht] at e
      simp only [] at e
      generalize hfold : foldH _ h (arrayIds (h.childMap n)) [] = res at e
      obtain ⟨h1, o⟩ := res
      cases o with
      | err _ => simp at e
      | panic _ => simp at e
      | ok vs =>
        simp only [] at e; injection e with e
        have key := foldH_mapM (fun h c => absSorted fuel h c) _ (fun h c => c < h.size)
          (fun h h' x r q => by rw [r.1.2.1]; exact q)
          (fun h h' x r => absSorted_read r fuel x)
          (fun h' c acc g' q => by
            refine ⟨?_, fun acc' ea => ?_⟩
            · have ih := unpack_fills fuel h' c
              split <;> (rename_i heq'; rw [heq'] at ih; exact ih)
            · have ih := unpack_absSorted fuel h' c
              generalize h'.unpack fuel c = res at ea ih
              obtain ⟨h2, o⟩ := res
              cases o with
              | err _ => simp at ea
              | panic _ => simp at ea
              | ok w => simp only [] at ea; injection ea with ea; exact ⟨w, ih w g' q rfl, ea.symm⟩)
          (arrayIds (h.childMap n)) h [] vs g
          (fun x hx => by
            obtain ⟨kc, hkc, rfl⟩ := List.mem_map.mp (mem_arrayIds hx)
            exact ((g n hn).kids kc hkc).1)
          (congrArg Prod.snd hfold)
        obtain ⟨ws, hws, hvs⟩ := key
        rw [hws, ← e, hvs]; rfl
    | object =>
      simp only [ht] at e ⊢
      generalize hfold : foldH _ h (sortByKey (h.childMap n)) [] = res at e
      obtain ⟨h1, o⟩ := res
      cases o with
      | err _ => simp at e
      | panic _ => simp at e
      | ok vs =>
        simp only [] at e; injection e with e
        have key := foldH_mapM (fun h (p : Bytes × Id) => (absSorted fuel h p.2).map (fun v => (p.1, v))) _ (fun h p => p.2 < h.size)
          (fun h h' x r q => by rw [r.1.2.1]; exact q)
          (fun h h' x r => by rw [absSorted_read r fuel x.2])
          (fun h' p acc g' q => by
            refine ⟨?_, fun acc' ea => ?_⟩
            · have ih := unpack_fills fuel h' p.2
              split <;> (rename_i heq'; rw [heq'] at ih; exact ih)
            · have ih := unpack_absSorted fuel h' p.2
              generalize h'.unpack fuel p.2 = res at ea ih
              obtain ⟨h2, o⟩ := res
              cases o with
              | err _ => simp at ea
              | panic _ => simp at ea
              | ok w => simp only [] at ea; injection ea with ea; exact ⟨(p.1, w), by rw [ih w g' q rfl]; rfl, ea.symm⟩)
          (sortByKey (h.childMap n)) h [] vs g
          (fun x hx => ((g n hn).kids x (mem_sortByKey hx)).1)
          (congrArg Prod.snd hfold)
        obtain ⟨ws, hws, hvs⟩ := key
        rw [hws, ← e, hvs]; rfl

/-! ### the converse: whenever the tree denotes a value, `Unpack` answers it -/

theorem foldH_mapM_conv {α γ : Type} (F : Heap → α → Option γ) (f : Heap → α → List γ → Heap × Outcome (List γ)) (Q : Heap → α → Prop)
    (hQ : ∀ h h' x, Fills h h' → Q h x → Q h' x)
    (hF : ∀ h h' x, Fills h h' → F h' x = F h x)
    (hstep : ∀ h x acc, Struct h → Q h x → Fills h (f h x acc).1 ∧
      ∀ v, F h x = some v → (f h x acc).2 = .ok (acc ++ [v])) :
    ∀ (xs : List α) (h : Heap) (acc vs : List γ), Struct h → (∀ x ∈ xs, Q h x) → xs.mapM (F h) = some vs →
      (foldH f h xs acc).2 = .ok (acc ++ vs)
  | [], h, acc, vs, _, _, e => by
    simp only [List.mapM_nil] at e
    cases e
    simp [foldH]
  | x :: xs, h, acc, vs, g, q, e => by
    obtain ⟨rd, st⟩ := hstep h x acc g (q x (by simp))
    simp only [List.mapM_cons] at e
    cases hv : F h x with
    | none => rw [hv] at e; cases e
    | some v =>
      cases hvs : xs.mapM (F h) with
      | none => rw [hv, hvs] at e; cases e
      | some ws =>
        rw [hv, hvs] at e
        cases e
        have s1 := st v hv
        unfold foldH
        generalize hres : f h x acc = res at rd s1
        obtain ⟨h1, o⟩ := res
        simp only [] at s1 rd
        subst s1
        simp only []
        rw [foldH_mapM_conv F f Q hQ hF hstep xs h1 (acc ++ [v]) ws (g.of_same rd.1) (fun y hy => hQ h h1 y rd (q y (by simp [hy])))
          (by rw [mapM_congr _ (F h) xs (fun y _ => hF h h1 y rd)]; exact hvs)]
        simp

theorem getNumeric_of_scalar {h : Heap} {n : Id} {b : UInt64} (ht : h.typeOf n = .numeric) (e : scalarVal h n = some (.num b)) :
    (h.getNumeric (some n)).2 = .ok b := by
  unfold Heap.getNumeric
  simp only [ht]
  unfold scalarVal at e
  generalize h.getValue n = res at e
  obtain ⟨h1, o⟩ := res
  simp only [] at e
  cases o with
  | ok w =>
    cases w with
    | none => cases e
    | some c => cases c <;> first | (cases e; rfl) | cases e
  | err _ => cases e
  | panic _ => cases e

theorem getString_of_scalar {h : Heap} {n : Id} {b : Bytes} (ht : h.typeOf n = .string) (e : scalarVal h n = some (.str b)) :
    (h.getString (some n)).2 = .ok b := by
  unfold Heap.getString
  simp only [ht]
  unfold scalarVal at e
  generalize h.getValue n = res at e
  obtain ⟨h1, o⟩ := res
  simp only [] at e
  cases o with
  | ok w =>
    cases w with
    | none => cases e
    | some c => cases c <;> first | (cases e; rfl) | cases e
  | err _ => cases e
  | panic _ => cases e

theorem getBool_of_scalar {h : Heap} {n : Id} {b : Bool} (ht : h.typeOf n = .bool) (e : scalarVal h n = some (.bool b)) :
    (h.getBool (some n)).2 = .ok b := by
  unfold Heap.getBool
  simp only [ht]
  unfold scalarVal at e
  generalize h.getValue n = res at e
  obtain ⟨h1, o⟩ := res
  simp only [] at e
  cases o with
  | ok w =>
    cases w with
    | none => cases e
    | some c => cases c <;> first | (cases e; rfl) | cases e
  | err _ => cases e
  | panic _ => cases e

/-- **whenever the tree denotes a value, `Unpack` answers it** (the only way for `Unpack` to fail on a sound tree with enough fuel is a
scalar without a value: a number literal out of range) -/
theorem absSorted_unpack : ∀ (fuel : Nat) (h : Heap) (n : Id) (v : JVal), Struct h → n < h.size → absSorted fuel h n = some v →
    (h.unpack fuel n).2 = .ok v
  | 0, h, n, v, _, _, e => by unfold absSorted at e; cases e
  | fuel+1, h, n, v, g, hn, e => by
    unfold absSorted at e
    unfold Heap.unpack
    cases ht : h.typeOf n with
    | null => simp only [ht] at e ⊢; cases e; rfl
    | numeric =>
      simp only [ht] at e ⊢
      split at e
      · rename_i b hb
        cases e
        have := getNumeric_of_scalar ht hb
        generalize h.getNumeric (some n) = res at this
        obtain ⟨h1, o⟩ := res
        simp only [] at this; subst this; rfl
      · cases e
    | string =>
      simp only [ht] at e ⊢
      split at e
      · rename_i b hb
        cases e
        have := getString_of_scalar ht hb
        generalize h.getString (some n) = res at this
        obtain ⟨h1, o⟩ := res
        simp only [] at this; subst this; rfl
      · cases e
    | bool =>
      simp only [ht] at e ⊢
      split at e
      · rename_i b hb
        cases e
        have := getBool_of_scalar ht hb
        generalize h.getBool (some n) = res at this
        obtain ⟨h1, o⟩ := res
        simp only [] at this; subst this; rfl
      · cases e
    | array =>
      simp only [ht] at e ⊢
      rw [placeByIndex_eq_arrayIds g n hn ht]
      simp only []
      cases hm : (arrayIds (h.childMap n)).mapM (fun c => absSorted fuel h c) with
      | none => rw [hm] at e; cases e
      | some vs =>
        rw [hm] at e; cases e
        have key := foldH_mapM_conv (fun h c => absSorted fuel h c)
          (fun h c (acc : List JVal) => match unpack fuel h c with
            | (h1, .ok v) => (h1, .ok (acc ++ [v]))
            | (h1, .err e) => (h1, .err e)
            | (h1, .panic s) => (h1, .panic s)) (fun h c => c < h.size)
          (fun h h' x r q => by rw [r.1.2.1]; exact q)
          (fun h h' x r => absSorted_read r fuel x)
          (fun h' c acc g' q => by
            refine ⟨?_, fun w ea => ?_⟩
            · have ih := unpack_fills fuel h' c
              split <;> (rename_i heq'; rw [heq'] at ih; exact ih)
            · have ih := absSorted_unpack fuel h' c w g' q ea
              generalize h'.unpack fuel c = res at ih
              obtain ⟨h2, o⟩ := res
              simp only [] at ih; subst ih; rfl)
          (arrayIds (h.childMap n)) h [] vs g
          (fun x hx => by
            obtain ⟨kc, hkc, rfl⟩ := List.mem_map.mp (mem_arrayIds hx)
            exact ((g n hn).kids kc hkc).1)
          hm
        generalize foldH _ h (arrayIds (h.childMap n)) [] = res at key
        obtain ⟨h1, o⟩ := res
        simp only [List.nil_append] at key; subst key; rfl
    | object =>
      simp only [ht] at e ⊢
      cases hm : (sortByKey (h.childMap n)).mapM (fun p => (absSorted fuel h p.2).map (fun v => (p.1, v))) with
      | none => rw [hm] at e; cases e
      | some vs =>
        rw [hm] at e; cases e
        have key := foldH_mapM_conv (fun h (p : Bytes × Id) => (absSorted fuel h p.2).map (fun v => (p.1, v)))
          (fun h (p : Bytes × Id) (acc : List (Bytes × JVal)) => match unpack fuel h p.2 with
            | (h1, .ok v) => (h1, .ok (acc ++ [(p.1, v)]))
            | (h1, .err e) => (h1, .err e)
            | (h1, .panic s) => (h1, .panic s)) (fun h p => p.2 < h.size)
          (fun h h' x r q => by rw [r.1.2.1]; exact q)
          (fun h h' x r => by rw [absSorted_read r fuel x.2])
          (fun h' p acc g' q => by
            refine ⟨?_, fun w ea => ?_⟩
            · have ih := unpack_fills fuel h' p.2
              split <;> (rename_i heq'; rw [heq'] at ih; exact ih)
            · cases hw : absSorted fuel h' p.2 with
              | none => rw [hw] at ea; cases ea
              | some w' =>
                rw [hw] at ea; cases ea
                have ih := absSorted_unpack fuel h' p.2 w' g' q hw
                generalize h'.unpack fuel p.2 = res at ih
                obtain ⟨h2, o⟩ := res
                simp only [] at ih; subst ih; rfl)
          (sortByKey (h.childMap n)) h [] vs g
          (fun x hx => ((g n hn).kids x (mem_sortByKey hx)).1)
          hm
        generalize foldH _ h (sortByKey (h.childMap n)) [] = res at key
        obtain ⟨h1, o⟩ := res
        simp only [List.nil_append] at key; subst key; rfl

/-- **`Unpack` answers exactly the value the tree denotes** -/
theorem unpack_iff_absSorted (fuel : Nat) (h : Heap) (n : Id) (v : JVal) (hs : Struct h) (hn : n < h.size) :
    (h.unpack fuel n).2 = .ok v ↔ absSorted fuel h n = some v :=
  ⟨unpack_absSorted fuel h n v hs hn, absSorted_unpack fuel h n v hs hn⟩

end Ajson.Proofs
