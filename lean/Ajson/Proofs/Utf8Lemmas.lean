/-
Round-trip facts about the UTF-8 model: encoding what was decoded gives the bytes back (well-formed
sequences) or U+FFFD (ill-formed byte).
-/
import Ajson.Model.Utf8

namespace Ajson

theorem ofNat_of_eq_toNat (b : UInt8) (n : Nat) (h : n = b.toNat) : UInt8.ofNat n = b := by
  subst h; exact UInt8.ofNat_toNat

theorem decodeRune_ascii (b : UInt8) (rest : Bytes) (h : b.toNat < 128) : decodeRune (b :: rest) = (b.toNat, 1) := by
  simp [decodeRune, h]

theorem encodeRune_ascii (b : UInt8) (h : b.toNat < 128) : encodeRune b.toNat = [b] := by
  simp [encodeRune, h]

/-- the size `decodeRune` reports is 1, 2, 3 or 4 for non-empty input, and never exceeds the input -/
theorem decodeRune_size (b : UInt8) (rest : Bytes) :
    1 ≤ (decodeRune (b :: rest)).2 ∧ (decodeRune (b :: rest)).2 ≤ (b :: rest).length := by
  unfold decodeRune
  simp only []
  repeat' split
  all_goals simp_all <;> omega

/-- a sequence `decodeRune` accepts as multi-byte is re-encoded to exactly those bytes -/
theorem encode_decode2 (b b1 : UInt8) (r : Bytes) (h1 : 0xC2 ≤ b.toNat) (h2 : b.toNat < 0xE0) (hc : isCont b1 = true) :
    decodeRune (b :: b1 :: r) = ((b.toNat % 32) * 64 + b1.toNat % 64, 2) ∧
    encodeRune ((b.toNat % 32) * 64 + b1.toNat % 64) = [b, b1] := by
  have hb := b.toNat_lt
  have hb1 := b1.toNat_lt
  constructor
  · have n1 : ¬ b.toNat < 0x80 := by omega
    have n2 : ¬ b.toNat < 0xC2 := by omega
    simp [decodeRune, n1, n2, h2, hc]
  · simp only [isCont, Bool.and_eq_true, decide_eq_true_eq] at hc
    have hr1 : ¬ ((b.toNat % 32) * 64 + b1.toNat % 64 < 0x80) := by omega
    have hr2 : (b.toNat % 32) * 64 + b1.toNat % 64 < 0x800 := by omega
    simp only [encodeRune, hr1, hr2, if_false, if_true]
    congr 1
    · exact ofNat_of_eq_toNat b _ (by omega)
    · congr 1; exact ofNat_of_eq_toNat b1 _ (by omega)

theorem encode_decode3 (b b1 b2 : UInt8) (r : Bytes) (h1 : 0xE0 ≤ b.toNat) (h2 : b.toNat < 0xF0)
    (hE0 : b.toNat = 0xE0 → 0xA0 ≤ b1.toNat) (h80 : 0x80 ≤ b1.toNat) (hED : b.toNat = 0xED → b1.toNat ≤ 0x9F) (hBF : b1.toNat ≤ 0xBF)
    (hc2 : isCont b2 = true) :
    decodeRune (b :: b1 :: b2 :: r) = ((b.toNat % 16) * 4096 + (b1.toNat % 64) * 64 + b2.toNat % 64, 3) ∧
    encodeRune ((b.toNat % 16) * 4096 + (b1.toNat % 64) * 64 + b2.toNat % 64) = [b, b1, b2] := by
  have hb := b.toNat_lt
  have hb1 := b1.toNat_lt
  have hb2 := b2.toNat_lt
  constructor
  · have n1 : ¬ b.toNat < 0x80 := by omega
    have n2 : ¬ b.toNat < 0xC2 := by omega
    have n3 : ¬ b.toNat < 0xE0 := by omega
    by_cases qE0 : b.toNat = 0xE0 <;> by_cases qED : b.toNat = 0xED
    · omega
    · have := hE0 qE0; simp [decodeRune, n1, n2, n3, h2, hc2, qE0, this, hBF]
    · have := hED qED; simp [decodeRune, n1, n2, n3, h2, hc2, qED, this, h80]
    · simp [decodeRune, n1, n2, n3, h2, hc2, qE0, qED, h80, hBF]
  · simp only [isCont, Bool.and_eq_true, decide_eq_true_eq] at hc2
    have hr : (b.toNat % 16) * 4096 + (b1.toNat % 64) * 64 + b2.toNat % 64 ≥ 0x800 := by omega
    have hsur : isSurrogate ((b.toNat % 16) * 4096 + (b1.toNat % 64) * 64 + b2.toNat % 64) = false := by
      simp only [isSurrogate, Bool.and_eq_false_iff, decide_eq_false_iff_not]
      by_cases hlt : b.toNat ≤ 0xED
      · left; omega
      · right; omega
    have hr1 : ¬ ((b.toNat % 16) * 4096 + (b1.toNat % 64) * 64 + b2.toNat % 64 < 0x80) := by omega
    have hr2 : ¬ ((b.toNat % 16) * 4096 + (b1.toNat % 64) * 64 + b2.toNat % 64 < 0x800) := by omega
    have hr3 : (b.toNat % 16) * 4096 + (b1.toNat % 64) * 64 + b2.toNat % 64 < 0x10000 := by omega
    have hr4 : ¬ ((b.toNat % 16) * 4096 + (b1.toNat % 64) * 64 + b2.toNat % 64 > 0x10FFFF) := by omega
    simp only [encodeRune, hr1, hr2, hsur, hr4, hr3, if_false, if_true, Bool.false_or, decide_false, Bool.false_eq_true]
    congr 1
    · exact ofNat_of_eq_toNat b _ (by omega)
    · congr 1
      · exact ofNat_of_eq_toNat b1 _ (by omega)
      · congr 1; exact ofNat_of_eq_toNat b2 _ (by omega)

theorem encode_decode4 (b b1 b2 b3 : UInt8) (r : Bytes) (h1 : 0xF0 ≤ b.toNat) (h2 : b.toNat < 0xF5)
    (hF0 : b.toNat = 0xF0 → 0x90 ≤ b1.toNat) (h80 : 0x80 ≤ b1.toNat) (hF4 : b.toNat = 0xF4 → b1.toNat ≤ 0x8F) (hBF : b1.toNat ≤ 0xBF)
    (hc2 : isCont b2 = true) (hc3 : isCont b3 = true) :
    decodeRune (b :: b1 :: b2 :: b3 :: r) = ((b.toNat % 8) * 262144 + (b1.toNat % 64) * 4096 + (b2.toNat % 64) * 64 + b3.toNat % 64, 4) ∧
    encodeRune ((b.toNat % 8) * 262144 + (b1.toNat % 64) * 4096 + (b2.toNat % 64) * 64 + b3.toNat % 64) = [b, b1, b2, b3] := by
  have hb := b.toNat_lt
  have hb1 := b1.toNat_lt
  have hb2 := b2.toNat_lt
  have hb3 := b3.toNat_lt
  constructor
  · have n1 : ¬ b.toNat < 0x80 := by omega
    have n2 : ¬ b.toNat < 0xC2 := by omega
    have n3 : ¬ b.toNat < 0xE0 := by omega
    have n4 : ¬ b.toNat < 0xF0 := by omega
    by_cases qF0 : b.toNat = 0xF0 <;> by_cases qF4 : b.toNat = 0xF4
    · omega
    · have := hF0 qF0; simp [decodeRune, n1, n2, n3, n4, h2, hc2, hc3, qF0, this, hBF]
    · have := hF4 qF4; simp [decodeRune, n1, n2, n3, n4, h2, hc2, hc3, qF4, this, h80]
    · simp [decodeRune, n1, n2, n3, n4, h2, hc2, hc3, qF0, qF4, h80, hBF]
  · simp only [isCont, Bool.and_eq_true, decide_eq_true_eq] at hc2 hc3
    have hr : (b.toNat % 8) * 262144 + (b1.toNat % 64) * 4096 + (b2.toNat % 64) * 64 + b3.toNat % 64 ≥ 0x10000 := by omega
    have hr4 : (b.toNat % 8) * 262144 + (b1.toNat % 64) * 4096 + (b2.toNat % 64) * 64 + b3.toNat % 64 ≤ 0x10FFFF := by omega
    have hsur : isSurrogate ((b.toNat % 8) * 262144 + (b1.toNat % 64) * 4096 + (b2.toNat % 64) * 64 + b3.toNat % 64) = false := by
      simp only [isSurrogate, Bool.and_eq_false_iff, decide_eq_false_iff_not]
      right; omega
    have hr1 : ¬ ((b.toNat % 8) * 262144 + (b1.toNat % 64) * 4096 + (b2.toNat % 64) * 64 + b3.toNat % 64 < 0x80) := by omega
    have hr2 : ¬ ((b.toNat % 8) * 262144 + (b1.toNat % 64) * 4096 + (b2.toNat % 64) * 64 + b3.toNat % 64 < 0x800) := by omega
    have hr3 : ¬ ((b.toNat % 8) * 262144 + (b1.toNat % 64) * 4096 + (b2.toNat % 64) * 64 + b3.toNat % 64 < 0x10000) := by omega
    have hr5 : ¬ ((b.toNat % 8) * 262144 + (b1.toNat % 64) * 4096 + (b2.toNat % 64) * 64 + b3.toNat % 64 > 0x10FFFF) := by omega
    simp only [encodeRune, hr1, hr2, hsur, hr5, hr3, if_false, Bool.false_or, decide_false, Bool.false_eq_true]
    congr 1
    · exact ofNat_of_eq_toNat b _ (by omega)
    · congr 1
      · exact ofNat_of_eq_toNat b1 _ (by omega)
      · congr 1
        · exact ofNat_of_eq_toNat b2 _ (by omega)
        · congr 1; exact ofNat_of_eq_toNat b3 _ (by omega)

end Ajson
