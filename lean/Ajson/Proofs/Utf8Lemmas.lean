/-
Round-trip facts about the UTF-8 model: encoding what was decoded gives the bytes back (well-formed
sequences) or U+FFFD (ill-formed byte).
-/
import Ajson.Model.Utf8

namespace Ajson

theorem ofNat_of_eq_toNat (b : UInt8) (n : Nat) (h : n = b.toNat) : UInt8.ofNat n = b := by
  subst h; exact UInt8.ofNat_toNat

theorem decodeRune_ascii (b : UInt8) (rest : Bytes) (h : b.toNat < 128) : decodeRune (b :: rest) = (b.toNat, 1) := by
  simp [decodeRune, h]

theorem encodeRune_ascii (b : UInt8) (h : b.toNat < 128) : encodeRune b.toNat = [b] := by
  simp [encodeRune, h]

/-- the size `decodeRune` reports is 1, 2, 3 or 4 for non-empty input, and never exceeds the input -/
theorem decodeRune_size (b : UInt8) (rest : Bytes) :
    1 ≤ (decodeRune (b :: rest)).2 ∧ (decodeRune (b :: rest)).2 ≤ (b :: rest).length := by
  unfold decodeRune
  simp only []
  repeat' split
  all_goals simp_all <;> omega

/-- a sequence `decodeRune` accepts as multi-byte is re-encoded to exactly those bytes -/
theorem encode_decode (b : UInt8) (rest : Bytes) (hsz : (decodeRune (b :: rest)).2 ≥ 2) :
    encodeRune (decodeRune (b :: rest)).1 = (b :: rest).take (decodeRune (b :: rest)).2 := by
  unfold decodeRune at hsz ⊢
  simp only [] at hsz ⊢
  have hb := b.toNat_lt
  split at hsz
  · simp at hsz
  · split at hsz
    · simp at hsz
    · split at hsz
      · -- two bytes
        rename_i h1 h2 h3
        rw [if_neg h1, if_neg h2, if_pos h3]
        cases rest with
        | nil => simp at hsz
        | cons b1 r1 =>
          simp only [] at hsz ⊢
          have hb1 := b1.toNat_lt
          by_cases hc : isCont b1 = true
          · simp only [hc, if_true] at hsz ⊢
            simp only [isCont, Bool.and_eq_true, decide_eq_true_eq] at hc
            have hr1 : ¬ ((b.toNat % 32) * 64 + b1.toNat % 64 < 0x80) := by omega
            have hr2 : (b.toNat % 32) * 64 + b1.toNat % 64 < 0x800 := by omega
            simp only [encodeRune, hr1, hr2, if_false, if_true, List.take]
            congr 1
            · exact ofNat_of_eq_toNat b _ (by omega)
            · congr 1; exact ofNat_of_eq_toNat b1 _ (by omega)
          · simp [hc] at hsz
      · split at hsz
        · -- three bytes
          rename_i h1 h2 h3 h4
          rw [if_neg h1, if_neg h2, if_neg h3, if_pos h4]
          match rest, hsz with
          | [], hsz => simp at hsz
          | [_], hsz => simp at hsz
          | b1 :: b2 :: r2, hsz =>
            simp only [] at hsz ⊢
            have hb1 := b1.toNat_lt
            have hb2 := b2.toNat_lt
            split at hsz
            · rename_i hc
              rw [if_pos hc]
              simp only [Bool.and_eq_true, decide_eq_true_eq, isCont, beq_iff_eq] at hc
              obtain ⟨⟨hlo, hhi⟩, hc2⟩ := hc
              have e0 : (b == 0xE0) = decide (b.toNat = 0xE0) := by
                by_cases hq : b = 0xE0 <;> simp [hq]
                intro hh; exact hq (UInt8.toNat_inj.mp (by simpa using hh))
              have eD : (b == 0xED) = decide (b.toNat = 0xED) := by
                by_cases hq : b = 0xED <;> simp [hq]
                intro hh; exact hq (UInt8.toNat_inj.mp (by simpa using hh))
              rw [e0] at hlo; rw [eD] at hhi
              have hlo' : (if b.toNat = 0xE0 then 0xA0 else 0x80) ≤ b1.toNat := by
                by_cases hq : b.toNat = 0xE0 <;> simp [hq] at hlo ⊢ <;> exact hlo
              have hhi' : b1.toNat ≤ (if b.toNat = 0xED then 0x9F else 0xBF) := by
                by_cases hq : b.toNat = 0xED <;> simp [hq] at hhi ⊢ <;> exact hhi
              have hr : (b.toNat % 16) * 4096 + (b1.toNat % 64) * 64 + b2.toNat % 64 ≥ 0x800 := by
                by_cases hq : b.toNat = 0xE0 <;> simp [hq] at hlo' <;> omega
              have hns : ¬ (0xD800 ≤ (b.toNat % 16) * 4096 + (b1.toNat % 64) * 64 + b2.toNat % 64 ∧
                  (b.toNat % 16) * 4096 + (b1.toNat % 64) * 64 + b2.toNat % 64 < 0xE000) := by
                by_cases hq : b.toNat = 0xED <;> simp [hq] at hhi' <;> omega
              have hr3 : (b.toNat % 16) * 4096 + (b1.toNat % 64) * 64 + b2.toNat % 64 < 0x10000 := by omega
              have hsur : isSurrogate ((b.toNat % 16) * 4096 + (b1.toNat % 64) * 64 + b2.toNat % 64) = false := by
                simp only [isSurrogate, Bool.and_eq_false_iff, decide_eq_false_iff_not]
                by_cases hq : 0xD800 ≤ (b.toNat % 16) * 4096 + (b1.toNat % 64) * 64 + b2.toNat % 64
                · right; omega
                · left; exact hq
              have hr1 : ¬ ((b.toNat % 16) * 4096 + (b1.toNat % 64) * 64 + b2.toNat % 64 < 0x80) := by omega
              have hr2 : ¬ ((b.toNat % 16) * 4096 + (b1.toNat % 64) * 64 + b2.toNat % 64 < 0x800) := by omega
              have hr4 : ¬ ((b.toNat % 16) * 4096 + (b1.toNat % 64) * 64 + b2.toNat % 64 > 0x10FFFF) := by omega
              simp only [encodeRune, hr1, hr2, hsur, hr4, hr3, if_false, if_true, Bool.false_or, decide_false, List.take, Bool.false_eq_true]
              congr 1
              · exact ofNat_of_eq_toNat b _ (by omega)
              · congr 1
                · exact ofNat_of_eq_toNat b1 _ (by omega)
                · congr 1; exact ofNat_of_eq_toNat b2 _ (by omega)
            · simp at hsz
        · split at hsz
          · -- four bytes
            rename_i h1 h2 h3 h4 h5
            rw [if_neg h1, if_neg h2, if_neg h3, if_neg h4, if_pos h5]
            match rest, hsz with
            | [], hsz => simp at hsz
            | [_], hsz => simp at hsz
            | [_, _], hsz => simp at hsz
            | b1 :: b2 :: b3 :: r3, hsz =>
              simp only [] at hsz ⊢
              have hb1 := b1.toNat_lt
              have hb2 := b2.toNat_lt
              have hb3 := b3.toNat_lt
              split at hsz
              · rename_i hc
                rw [if_pos hc]
                simp only [Bool.and_eq_true, decide_eq_true_eq, isCont] at hc
                obtain ⟨⟨⟨hlo, hhi⟩, hc2⟩, hc3⟩ := hc
                have e0 : (b == 0xF0) = decide (b.toNat = 0xF0) := by
                  by_cases hq : b = 0xF0 <;> simp [hq]
                  intro hh; exact hq (UInt8.toNat_inj.mp (by simpa using hh))
                have e4 : (b == 0xF4) = decide (b.toNat = 0xF4) := by
                  by_cases hq : b = 0xF4 <;> simp [hq]
                  intro hh; exact hq (UInt8.toNat_inj.mp (by simpa using hh))
                rw [e0] at hlo; rw [e4] at hhi
                have hlo' : (if b.toNat = 0xF0 then 0x90 else 0x80) ≤ b1.toNat := by
                  by_cases hq : b.toNat = 0xF0 <;> simp [hq] at hlo ⊢ <;> exact hlo
                have hhi' : b1.toNat ≤ (if b.toNat = 0xF4 then 0x8F else 0xBF) := by
                  by_cases hq : b.toNat = 0xF4 <;> simp [hq] at hhi ⊢ <;> exact hhi
                have hr : (b.toNat % 8) * 262144 + (b1.toNat % 64) * 4096 + (b2.toNat % 64) * 64 + b3.toNat % 64 ≥ 0x10000 := by
                  by_cases hq : b.toNat = 0xF0 <;> simp [hq] at hlo' <;> omega
                have hr4 : (b.toNat % 8) * 262144 + (b1.toNat % 64) * 4096 + (b2.toNat % 64) * 64 + b3.toNat % 64 ≤ 0x10FFFF := by
                  by_cases hq : b.toNat = 0xF4 <;> simp [hq] at hhi' <;> omega
                have hsur : isSurrogate ((b.toNat % 8) * 262144 + (b1.toNat % 64) * 4096 + (b2.toNat % 64) * 64 + b3.toNat % 64) = false := by
                  simp only [isSurrogate, Bool.and_eq_false_iff, decide_eq_false_iff_not]
                  right; omega
                have hr1 : ¬ ((b.toNat % 8) * 262144 + (b1.toNat % 64) * 4096 + (b2.toNat % 64) * 64 + b3.toNat % 64 < 0x80) := by omega
                have hr2 : ¬ ((b.toNat % 8) * 262144 + (b1.toNat % 64) * 4096 + (b2.toNat % 64) * 64 + b3.toNat % 64 < 0x800) := by omega
                have hr3 : ¬ ((b.toNat % 8) * 262144 + (b1.toNat % 64) * 4096 + (b2.toNat % 64) * 64 + b3.toNat % 64 < 0x10000) := by omega
                have hr5 : ¬ ((b.toNat % 8) * 262144 + (b1.toNat % 64) * 4096 + (b2.toNat % 64) * 64 + b3.toNat % 64 > 0x10FFFF) := by omega
                simp only [encodeRune, hr1, hr2, hsur, hr5, hr3, if_false, Bool.false_or, decide_false, List.take, Bool.false_eq_true]
                congr 1
                · exact ofNat_of_eq_toNat b _ (by omega)
                · congr 1
                  · exact ofNat_of_eq_toNat b1 _ (by omega)
                  · congr 1
                    · exact ofNat_of_eq_toNat b2 _ (by omega)
                    · congr 1; exact ofNat_of_eq_toNat b3 _ (by omega)
              · simp at hsz
          · simp at hsz

end Ajson
