/-
C06, second sentence: the read views describe the same children. On a sound heap the children of an array PLACED BY THEIR INDEX FIELD
(what Inheritors, GetArray and Value do) are the children LOOKED UP BY THEIR DECIMAL KEY (what GetIndex does), position by position.
-/
import Ajson.Proofs.Refine
namespace Ajson.Proofs
open Ajson Ajson.Heap

/-- in a map with pairwise different keys, the first entry satisfying a predicate that determines the key is the entry under that key -/
theorem find_by_index {h : Heap} {n : Nat} (ok : NodeOK h n) (harr : (h.get n).type = .array) (i : Nat) (hi : i < (h.childMap n).length) :
    ((h.childMap n).find? (fun p => (h.get p.2).index == some i)).map (·.2) = (h.childMap n).lookup (itoa i) := by
  obtain ⟨c, hc⟩ := Option.isSome_iff_exists.mp (ok.dense harr i hi)
  have hmem := mem_of_lookup hc
  -- every entry carries the index its key spells
  have hidx : ∀ p ∈ h.childMap n, ∃ j, (h.get p.2).index = some j ∧ p.1 = itoa j := by
    intro p hp
    have := (ok.kids p hp).2.2.2
    unfold PosOK at this
    simp only [harr, if_true] at this
    cases hx : (h.get p.2).index with
    | none => rw [hx] at this; cases this
    | some j => rw [hx] at this; exact ⟨j, rfl, by simpa using this.symm⟩
  have hci : (h.get c).index = some i := by
    obtain ⟨j, hj, he⟩ := hidx (itoa i, c) hmem
    rw [hj, itoa_inj he]
  cases hf : (h.childMap n).find? (fun p => (h.get p.2).index == some i) with
  | none =>
    have := List.find?_eq_none.mp hf (itoa i, c) hmem
    simp [hci] at this
  | some p =>
    have hp := List.mem_of_find?_eq_some hf
    have hpi := List.find?_some hf
    obtain ⟨j, hj, he⟩ := hidx p hp
    have hji : j = i := by rw [hj] at hpi; simpa using hpi
    subst hji
    have : p = (itoa j, c) := keys_unique _ ok.nodup p (itoa j, c) hp hmem he
    rw [this, hc]; rfl

/-- **placing by index = looking up by key**: on a sound heap `placeByIndex` of an array's children map succeeds and returns exactly
the children found under the keys "0", "1", …, in that order -/
theorem placeByIndex_eq_arrayIds {h : Heap} (hs : Struct h) (n : Nat) (hn : n < h.size) (harr : (h.get n).type = .array) :
    h.placeByIndex (h.childMap n) = .ok (arrayIds (h.childMap n)) := by
  have ok := hs n hn
  have hidx : ∀ p ∈ h.childMap n, ∃ j, (h.get p.2).index = some j ∧ j < (h.childMap n).length := by
    intro p hp
    have := (ok.kids p hp).2.2.2
    unfold PosOK at this
    simp only [harr, if_true] at this
    cases hx : (h.get p.2).index with
    | none => rw [hx] at this; cases this
    | some j =>
      rw [hx] at this
      obtain ⟨t, ht, he⟩ := array_keys_itoa _ ok.nodup (ok.dense harr) p.1 (List.mem_map.mpr ⟨p, hp, rfl⟩)
      have : itoa j = itoa t := by simpa [he] using this
      exact ⟨j, rfl, by rw [itoa_inj this]; exact ht⟩
  have hslots : (List.range (h.childMap n).length).map (fun i => ((h.childMap n).find? (fun p => (h.get p.2).index == some i)).map (·.2)) =
      (List.range (h.childMap n).length).map (fun i => (h.childMap n).lookup (itoa i)) := by
    apply List.map_congr_left
    intro i hi
    exact find_by_index ok harr i (List.mem_range.mp hi)
  have hnone : ((List.range (h.childMap n).length).map (fun i => (h.childMap n).lookup (itoa i))).any Option.isNone = false := by
    rw [List.any_eq_false]
    intro x hx
    obtain ⟨i, hi, he⟩ := List.mem_map.mp hx
    have := ok.dense harr i (List.mem_range.mp hi)
    rw [← he]
    cases hl : (h.childMap n).lookup (itoa i) with
    | none => rw [hl] at this; cases this
    | some c => simp
  unfold Heap.placeByIndex
  simp only [hslots, hnone, Bool.false_eq_true, if_false]
  split
  · rename_i hc
    obtain ⟨p, hp, hpp⟩ := List.any_eq_true.mp hc
    obtain ⟨j, hj, hlt⟩ := hidx p hp
    rw [hj] at hpp
    simp at hpp
    omega
  · unfold arrayIds
    rw [List.filterMap_map]
    rfl

/-- **the views of an array agree**: `Inheritors()` lists, position by position, what `GetIndex(i)` returns, and there are `Size()`
of them -/
theorem inheritors_array {h : Heap} (hs : Struct h) (n : Nat) (hn : n < h.size) (harr : (h.get n).type = .array) :
    h.inheritors n = .ok (arrayIds (h.childMap n)) ∧ (arrayIds (h.childMap n)).length = h.nchildren n ∧
    ∀ i, i < h.nchildren n → ∃ c, (arrayIds (h.childMap n))[i]? = some c ∧ h.getIndex (some n) (i : Int) = .ok c := by
  refine ⟨?_, ?_, fun i hi => ?_⟩
  · unfold Heap.inheritors
    have h1 : h.isObject n = false := by simp [isObject, typeOf, harr]
    have h2 : h.isArray n = true := by simp [isArray, typeOf, harr]
    simp only [h1, h2, Bool.false_eq_true, if_false, if_true]
    exact placeByIndex_eq_arrayIds hs n hn harr
  · by_cases hz : 0 < (h.childMap n).length
    · obtain ⟨_, _, _, hl⟩ := arrayIds_is_getIndex hs n hn harr 0 hz
      exact hl
    · have : h.childMap n = [] := List.eq_nil_of_length_eq_zero (by omega)
      unfold Heap.nchildren
      rw [this]; rfl
  · obtain ⟨c, h1, h2, _⟩ := arrayIds_is_getIndex hs n hn harr i hi
    exact ⟨c, h1, h2⟩

/-- `GetArray()` on a node whose cell is empty fills it with exactly that list -/
theorem getArray_fresh {h : Heap} (hs : Struct h) (n : Nat) (hn : n < h.size) (harr : (h.get n).type = .array)
    (hc : (h.get n).cache = none) : (h.getArray (some n)).2 = .ok (arrayIds (h.childMap n)) := by
  have hp := placeByIndex_eq_arrayIds hs n hn harr
  unfold childMap at hp
  unfold Heap.getArray Heap.getValue
  have ht : h.typeOf n = .array := harr
  simp only [ht, bne_self_eq_false, Bool.false_eq_true, if_false, hc, harr, hp]
  rfl

end Ajson.Proofs
