/-
The structural heap invariant as propositions (`Struct`, the clauses of `Heap.wfNode`), and its preservation by the mutators.
Part 1: definitions, `mark()`.
-/
import Ajson.Spec.WF
import Ajson.Proofs.HeapBasics
import Ajson.Proofs.MutBasics
import Ajson.Proofs.MapLemmas
namespace Ajson.Proofs
open Ajson Ajson.Heap

/-- the position of a child matches its key in the parent's map -/
def PosOK (h : Heap) (p : Nat) (kc : Bytes × Id) : Prop :=
  if (h.get p).type = .array then (h.get kc.2).index.map itoa = some kc.1 else (h.get kc.2).key = some kc.1

/-- the structural part of the heap invariant for one node (`Heap.wfNode` as propositions) -/
structure NodeOK (h : Heap) (p : Nat) : Prop where
  kids : ∀ kc ∈ h.childMap p, (kc.2 : Nat) < h.size ∧ (kc.2 : Nat) ≠ p ∧ (h.get kc.2).parent = some p ∧ PosOK h p kc
  nodup : (h.childMap p).keys.Nodup
  dense : (h.get p).type = .array → ∀ i : Nat, i < (h.childMap p).length → ((h.childMap p).lookup (itoa i)).isSome = true
  shape : if (h.get p).type.isContainer = true then (h.get p).children.isSome = true else h.childMap p = []
  par : ∀ q : Nat, (h.get p).parent = some q → q < h.size ∧ (h.get q).type.isContainer = true ∧ (p : Id) ∈ (h.childMap q).vals ∧
    ((h.get p).dirty = true → (h.get q).dirty = true)
  clean : (h.get p).dirty = false → (h.get p).data.isSome = true ∧ (h.get p).b1 ≠ 0 ∧ ∀ kc ∈ h.childMap p, (h.get kc.2).dirty = false

/-- every allocated node is structurally sound -/
def Struct (h : Heap) : Prop := ∀ p : Nat, p < h.size → NodeOK h p

/-! ### `mark()` -/

/-- number of clean nodes -/
def cleanCount (h : Heap) : Nat := ((List.range h.size).filter (fun m => !(h.get m).dirty)).length

theorem filter_length_lt {α : Type} (l : List α) (p q : α → Bool) (hpq : ∀ x, q x = true → p x = true) (x : α) (hx : x ∈ l)
    (hp : p x = true) (hq : q x = false) : (l.filter q).length < (l.filter p).length := by
  induction l with
  | nil => cases hx
  | cons y ys ih =>
    have hle : (ys.filter q).length ≤ (ys.filter p).length := by
      clear ih hx
      induction ys with
      | nil => simp
      | cons z zs ihz =>
        simp only [List.filter_cons]
        by_cases hqz : q z = true
        · simp [hqz, hpq z hqz]; exact ihz
        · simp only [hqz, Bool.false_eq_true, if_false]
          split
          · simp only [List.length_cons]; omega
          · exact ihz
    simp only [List.filter_cons]
    rcases List.mem_cons.mp hx with rfl | hx'
    · simp only [hp, hq, if_true, Bool.false_eq_true, if_false, List.length_cons]; omega
    · have := ih hx'
      by_cases hqy : q y = true
      · simp [hqy, hpq y hqy]; exact this
      · simp only [hqy, Bool.false_eq_true, if_false]
        split
        · simp only [List.length_cons]; omega
        · exact this

theorem cleanCount_set_dirty (h : Heap) (n : Nat) (hn : n < h.size) (hc : (h.get n).dirty = false) :
    cleanCount (h.set n { h.get n with dirty := true }) < cleanCount h := by
  unfold cleanCount
  rw [size_set]
  apply filter_length_lt _ _ _ _ n (List.mem_range.mpr hn)
  · simp [hc]
  · simp [get_set, hn]
  · intro x hx
    rw [get_set] at hx
    split at hx
    · simp at hx
    · exact hx

theorem cleanCount_zero (h : Heap) (hz : cleanCount h = 0) (n : Nat) (hn : n < h.size) : (h.get n).dirty = true := by
  unfold cleanCount at hz
  have := List.length_eq_zero_iff.mp hz
  have hm : n ∈ List.range h.size := List.mem_range.mpr hn
  by_cases hd : (h.get n).dirty = true
  · exact hd
  · have : n ∈ (List.range h.size).filter (fun m => !(h.get m).dirty) := List.mem_filter.mpr ⟨hm, by simpa using hd⟩
    rw [‹(List.range h.size).filter _ = []›] at this
    cases this

/-- only dirty flags changed, and only from false to true -/
def DirtyOnly (h h' : Heap) : Prop :=
  h'.size = h.size ∧ ∀ m : Nat, h'.get m = h.get m ∨ h'.get m = { h.get m with dirty := true }

/-- dirtiness is closed upwards -/
def UpClosed (h : Heap) : Prop := ∀ m : Nat, m < h.size → ∀ q : Nat, (h.get m).parent = some q → (h.get m).dirty = true → (h.get q).dirty = true

theorem DirtyOnly.fields {h h' : Heap} (d : DirtyOnly h h') (m : Nat) :
    (h'.get m).parent = (h.get m).parent ∧ (h'.get m).children = (h.get m).children ∧ (h'.get m).type = (h.get m).type ∧
    (h'.get m).key = (h.get m).key ∧ (h'.get m).index = (h.get m).index ∧ (h'.get m).data = (h.get m).data ∧
    (h'.get m).b1 = (h.get m).b1 ∧ ((h.get m).dirty = true → (h'.get m).dirty = true) := by
  rcases d.2 m with e | e <;> rw [e] <;> simp

theorem Struct.upClosed {h : Heap} (hs : Struct h) : UpClosed h :=
  fun m hm q hq hd => ((hs m hm).par q hq).2.2.2 hd

theorem Struct.of_dirtyOnly {h h' : Heap} (hs : Struct h) (d : DirtyOnly h h') (hu : UpClosed h') : Struct h' := by
  intro p hp
  rw [d.1] at hp
  have ok := hs p hp
  obtain ⟨f1, f2, f3, f4, f5, f6, f7, f8⟩ := d.fields p
  have hcm : h'.childMap p = h.childMap p := by unfold childMap; rw [f2]
  refine ⟨?_, by rw [hcm]; exact ok.nodup, by rw [hcm, f3]; exact ok.dense, by rw [hcm, f3, f2]; exact ok.shape, ?_, ?_⟩
  · intro kc hkc
    rw [hcm] at hkc
    obtain ⟨a, b, c, e⟩ := ok.kids kc hkc
    obtain ⟨g1, _, _, g4, g5, _, _, _⟩ := d.fields kc.2
    refine ⟨by rw [d.1]; exact a, b, by rw [g1]; exact c, ?_⟩
    unfold PosOK at e ⊢
    rw [f3, g4, g5]; exact e
  · intro q hq
    rw [f1] at hq
    obtain ⟨a, b, c, _⟩ := ok.par q hq
    obtain ⟨_, g2, g3, _⟩ := d.fields q
    refine ⟨by rw [d.1]; exact a, by rw [g3]; exact b, ?_, fun hd => hu p (by rw [d.1]; exact hp) q (by rw [f1]; exact hq) hd⟩
    have : h'.childMap q = h.childMap q := by unfold childMap; rw [g2]
    rw [this]; exact c
  · intro hcl
    have hcl0 : (h.get p).dirty = false := by
      cases hd : (h.get p).dirty with
      | false => rfl
      | true => rw [f8 hd] at hcl; cases hcl
    obtain ⟨a, b, c⟩ := ok.clean hcl0
    refine ⟨by rw [f6]; exact a, by rw [f7]; exact b, ?_⟩
    intro kc hkc
    rw [hcm] at hkc
    obtain ⟨k1, _, k3, _⟩ := ok.kids kc hkc
    cases hd : (h'.get kc.2).dirty with
    | false => rfl
    | true =>
      have hpar : (h'.get kc.2).parent = some p := by rw [(d.fields kc.2).1]; exact k3
      have := hu kc.2 (by rw [d.1]; exact k1) p hpar hd
      rw [hcl] at this; cases this

/-- the loop invariant of `mark()`: dirtiness is closed upwards except possibly at the node `o` the loop is about to visit -/
def ClosedBut (h : Heap) (o : Option Id) : Prop :=
  ∀ m : Nat, m < h.size → ∀ q : Nat, (h.get m).parent = some q → (h.get m).dirty = true → (h.get q).dirty = true ∨ o = some q

theorem markAux_closed : ∀ (fuel : Nat) (h : Heap) (o : Option Id), ClosedBut h o → cleanCount h ≤ fuel →
    (∀ n : Nat, o = some n → n < h.size) → (∀ m : Nat, m < h.size → ∀ q : Nat, (h.get m).parent = some q → q < h.size) →
    UpClosed (markAux fuel h o)
  | 0, h, o, hc, hf, ho, _ => by
    simp only [markAux]
    intro m hm q hq hd
    rcases hc m hm q hq hd with h1 | h1
    · exact h1
    · exact cleanCount_zero h (by omega) q (ho q h1)
  | fuel+1, h, none, hc, _, _, _ => by
    simp only [markAux]
    intro m hm q hq hd
    rcases hc m hm q hq hd with h1 | h1
    · exact h1
    · cases h1
  | fuel+1, h, some n, hc, hf, ho, hr => by
    unfold markAux
    simp only []
    have hn := ho n rfl
    by_cases hd : (h.get n).dirty = true
    · simp only [hd, if_true]
      intro m hm q hq hdm
      rcases hc m hm q hq hdm with h1 | h1
      · exact h1
      · cases h1; exact hd
    · simp only [hd, Bool.false_eq_true, if_false]
      have hd' : (h.get n).dirty = false := by simpa using hd
      apply markAux_closed fuel
      · intro m hm q hq hdm
        simp only [size_set] at hm
        by_cases hmn : m = n
        · subst hmn
          rw [get_set_same _ _ _ hn] at hq
          right; simpa using hq
        · rw [get_set_other _ _ _ _ hmn] at hq hdm
          rcases hc m hm q hq hdm with h1 | h1
          · left
            rw [get_set]; split
            · rfl
            · exact h1
          · left
            cases h1
            rw [get_set_same _ _ _ hn]
      · have := cleanCount_set_dirty h n hn hd'
        exact Nat.le_of_lt_succ (Nat.lt_of_lt_of_le this hf)
      · intro q hq
        simp only [size_set]
        exact hr n hn q hq
      · intro m hm q hq
        simp only [size_set] at hm ⊢
        rw [get_set] at hq
        split at hq
        · rename_i hcn; rw [hcn.1] at hm; exact hr n hn q hq
        · exact hr m hm q hq

theorem cleanCount_le (h : Heap) : cleanCount h ≤ h.size := by
  unfold cleanCount
  have := List.length_filter_le (fun m => !(h.get m).dirty) (List.range h.size)
  simpa using this

/-- **`mark()` preserves the invariant** and leaves the marked node dirty -/
theorem Struct.mark {h : Heap} (hs : Struct h) (n : Nat) (hn : n < h.size) : Struct (h.mark n) ∧ DirtyOnly h (h.mark n) := by
  have hd : DirtyOnly h (h.mark n) := ⟨size_markAux _ _ _, fun m => mark_get h n m⟩
  refine ⟨hs.of_dirtyOnly hd ?_, hd⟩
  unfold Heap.mark
  apply markAux_closed
  · intro m hm q hq hdm; left; exact hs.upClosed m hm q hq hdm
  · exact cleanCount_le h
  · intro n' hn'; cases hn'; exact hn
  · intro m hm q hq; exact ((hs m hm).par q hq).1


/-! ### SetNull / SetNumeric / SetString / SetBool -/
theorem foldl_detach_size (kids : List Id) (h : Heap) :
    (kids.foldl (fun h c => h.modify c (fun r => { r with parent := none })) h).size = h.size := by
  induction kids generalizing h with
  | nil => rfl
  | cons c cs ih => simp only [List.foldl_cons]; rw [ih]; simp

theorem foldl_detach_get (kids : List Id) (h : Heap) (m : Nat) :
    (kids.foldl (fun h c => h.modify c (fun r => { r with parent := none })) h).get m =
      if (m : Id) ∈ kids ∧ m < h.size then { h.get m with parent := none } else h.get m := by
  induction kids generalizing h with
  | nil => simp
  | cons c cs ih =>
    simp only [List.foldl_cons]
    rw [ih]
    simp only [size_modify, List.mem_cons]
    by_cases hmc : m = c
    · subst hmc
      by_cases hlt : m < h.size
      · simp [get_modify, hlt]
      · simp [get_modify, hlt]
    · have : (m : Id) ≠ c := hmc
      rw [get_modify_other _ _ _ _ hmc]
      by_cases hin : (m : Id) ∈ cs
      · simp [hin]
      · simp [hin, this]

/-- `clear()` followed by a retype to a scalar payload: what `update` does for SetNull/SetNumeric/SetString/SetBool after `mark` -/
def setScalar (h : Heap) (n : Id) (t : NType) (c : Option CacheVal) : Heap :=
  ((h.clear n).modify n (fun r => { r with type := t, cache := none })).modify n (fun r => { r with cache := c })

theorem setScalar_size (h : Heap) (n : Id) (t : NType) (c : Option CacheVal) : (setScalar h n t c).size = h.size := by
  simp [setScalar, clear, foldl_detach_size]

theorem setScalar_other (h : Heap) (n : Nat) (t : NType) (c : Option CacheVal) (m : Nat) (hmn : m ≠ n) :
    (setScalar h n t c).get m = if (m : Id) ∈ (h.childMap n).vals ∧ m < h.size then { h.get m with parent := none } else h.get m := by
  unfold setScalar clear
  simp only []
  rw [get_modify_other _ _ _ _ hmn, get_modify_other _ _ _ _ hmn, get_modify_other _ _ _ _ hmn, foldl_detach_get]

theorem setScalar_self (h : Heap) (n : Nat) (t : NType) (c : Option CacheVal) (hn : n < h.size) (hnk : (n : Id) ∉ (h.childMap n).vals) :
    ((setScalar h n t c).get n).type = t ∧ ((setScalar h n t c).get n).cache = c ∧ ((setScalar h n t c).get n).children = none ∧
    ((setScalar h n t c).get n).dirty = (h.get n).dirty ∧ ((setScalar h n t c).get n).parent = (h.get n).parent ∧
    ((setScalar h n t c).get n).key = (h.get n).key ∧ ((setScalar h n t c).get n).index = (h.get n).index := by
  unfold setScalar clear
  simp [get_modify, foldl_detach_size, hn, foldl_detach_get, hnk]

theorem struct_setScalar {h : Heap} (hs : Struct h) (n : Nat) (hn : n < h.size) (hd : (h.get n).dirty = true) (t : NType)
    (ht : t.isContainer = false) (c : Option CacheVal) : Struct (setScalar h n t c) := by
  have okn := hs n hn
  have hK : ∀ x : Id, x ∈ (h.childMap n).vals → (x : Nat) < h.size ∧ (x : Nat) ≠ n ∧ (h.get x).parent = some n := by
    intro x hx
    obtain ⟨kc, hkc, he⟩ := List.mem_map.mp hx
    have := okn.kids kc hkc
    rw [he] at this
    exact ⟨this.1, this.2.1, this.2.2.1⟩
  have hnk : (n : Id) ∉ (h.childMap n).vals := fun hx => (hK n hx).2.1 rfl
  obtain ⟨s1, s2, s3, s4, s5, s6, s7⟩ := setScalar_self h n t c hn hnk
  have hcmn : (setScalar h n t c).childMap n = [] := by unfold childMap; rw [s3]; rfl
  have hother := setScalar_other h n t c
  have hcm : ∀ p : Nat, p ≠ n → (setScalar h n t c).childMap p = h.childMap p := by
    intro p hp
    unfold childMap
    rw [hother p hp]; split <;> rfl
  -- fields of a node other than n
  have hf : ∀ p : Nat, p ≠ n → ((setScalar h n t c).get p).type = (h.get p).type ∧ ((setScalar h n t c).get p).dirty = (h.get p).dirty ∧
      ((setScalar h n t c).get p).key = (h.get p).key ∧ ((setScalar h n t c).get p).index = (h.get p).index ∧
      ((setScalar h n t c).get p).data = (h.get p).data ∧ ((setScalar h n t c).get p).b1 = (h.get p).b1 ∧
      ((setScalar h n t c).get p).children = (h.get p).children := by
    intro p hp; rw [hother p hp]; split <;> simp
  have hpar : ∀ p : Nat, p ≠ n → (p : Id) ∉ (h.childMap n).vals → ((setScalar h n t c).get p).parent = (h.get p).parent := by
    intro p hp hpk; rw [hother p hp]; simp [hpk]
  have hparK : ∀ p : Nat, (p : Id) ∈ (h.childMap n).vals → ((setScalar h n t c).get p).parent = none := by
    intro p hpk
    have := hK p hpk
    rw [hother p this.2.1]; simp [hpk, this.1]
  intro p hp
  rw [setScalar_size] at hp
  by_cases hpn : p = n
  · subst hpn
    refine ⟨(by rw [hcmn]; intro kc hkc; cases hkc), (by rw [hcmn]; exact List.nodup_nil), ?_, ?_, ?_, ?_⟩
    · intro hta; rw [s1] at hta; subst hta; cases ht
    · rw [s1, ht]; simpa using hcmn
    · intro q hq
      rw [s5] at hq
      obtain ⟨a, b, c', e⟩ := okn.par q hq
      have hqn : q ≠ p := by
        intro e'; subst e'; exact hnk c'
      obtain ⟨f1, f2, _, _, _, _, _⟩ := hf q hqn
      refine ⟨by rw [setScalar_size]; exact a, by rw [f1]; exact b, by rw [hcm q hqn]; exact c', fun _ => by rw [f2]; exact e hd⟩
    · intro hcl; rw [s4, hd] at hcl; cases hcl
  · have ok := hs p hp
    obtain ⟨f1, f2, f3, f4, f5, f6, f7⟩ := hf p hpn
    refine ⟨?_, by rw [hcm p hpn]; exact ok.nodup, by rw [hcm p hpn, f1]; exact ok.dense, by rw [hcm p hpn, f1, f7]; exact ok.shape, ?_, ?_⟩
    · intro kc hkc
      rw [hcm p hpn] at hkc
      obtain ⟨a, b, c', e⟩ := ok.kids kc hkc
      have hnotK : (kc.2 : Id) ∉ (h.childMap n).vals := by
        intro hx
        have := (hK kc.2 hx).2.2
        rw [c'] at this
        exact hpn (Option.some.inj this)
      refine ⟨by rw [setScalar_size]; exact a, b, ?_, ?_⟩
      · by_cases hkn : (kc.2 : Nat) = n
        · rw [hkn, s5, ← hkn]; exact c'
        · rw [hpar kc.2 hkn hnotK]; exact c'
      · unfold PosOK at e ⊢
        rw [f1]
        by_cases hkn : (kc.2 : Nat) = n
        · rw [hkn, s6, s7, ← hkn]; exact e
        · obtain ⟨_, _, g3, g4, _⟩ := hf kc.2 hkn
          rw [g3, g4]; exact e
    · intro q hq
      by_cases hpk : (p : Id) ∈ (h.childMap n).vals
      · rw [hparK p hpk] at hq; cases hq
      · rw [hpar p hpn hpk] at hq
        obtain ⟨a, b, c', e⟩ := ok.par q hq
        have hqn : q ≠ n := by intro e'; subst e'; exact hpk c'
        obtain ⟨g1, g2, _⟩ := hf q hqn
        exact ⟨by rw [setScalar_size]; exact a, by rw [g1]; exact b, by rw [hcm q hqn]; exact c', by rw [f2, g2]; exact e⟩
    · intro hcl
      rw [f2] at hcl
      obtain ⟨a, b, c'⟩ := ok.clean hcl
      refine ⟨by rw [f5]; exact a, by rw [f6]; exact b, ?_⟩
      intro kc hkc
      rw [hcm p hpn] at hkc
      have := c' kc hkc
      by_cases hkn : (kc.2 : Nat) = n
      · rw [hkn] at this; rw [hd] at this; cases this
      · rw [(hf kc.2 hkn).2.1]; exact this

theorem modify_same (h : Heap) (n : Id) (f : NodeRec → NodeRec) (hf : f (h.get n) = h.get n) : h.modify n f = h := by
  rw [modify_eq]
  split
  · rename_i hlt
    rw [hf]
    unfold Heap.set Heap.get
    cases h with
    | mk nodes datas =>
      simp only [Heap.mk.injEq, and_true]
      apply List.ext_getElem?
      intro i
      rw [List.getElem?_set]
      split
      · rename_i hin
        subst hin
        simp only [Heap.size] at hlt
        simp [hlt, List.getD_eq_getElem?_getD]
      · rfl
  · rfl

/-- **SetNull / SetNumeric / SetString / SetBool preserve the invariant** (any receiver: scalar or container, root or child) -/
theorem struct_update_scalar {h : Heap} (hs : Struct h) (n : Nat) (hn : n < h.size) (v : SetVal)
    (hv : v.type.isContainer = false) : Struct (h.update (some n) v).1 ∧ (h.update (some n) v).2 = .ok () := by
  have hm := hs.mark n hn
  have hd : ((h.mark n).get n).dirty = true := mark_self_dirty h n hn
  have hsz : n < (h.mark n).size := by rw [hm.2.1]; exact hn
  cases v with
  | null =>
    have e : (h.update (some n) .null) = (setScalar (h.mark n) n .null none, .ok ()) := by
      simp only [Heap.update, Heap.validate, setScalar, SetVal.type]
      congr 1
      symm
      apply modify_same
      rw [get_modify]; simp
      split <;> rfl
    rw [e]; exact ⟨struct_setScalar hm.1 n hsz hd .null rfl none, rfl⟩
  | num b =>
    have e : (h.update (some n) (.num b)) = (setScalar (h.mark n) n .numeric (some (.num b)), .ok ()) := by
      simp only [Heap.update, Heap.validate, setScalar, SetVal.type]
    rw [e]; exact ⟨struct_setScalar hm.1 n hsz hd .numeric rfl _, rfl⟩
  | str s =>
    have e : (h.update (some n) (.str s)) = (setScalar (h.mark n) n .string (some (.str s)), .ok ()) := by
      simp only [Heap.update, Heap.validate, setScalar, SetVal.type]
    rw [e]; exact ⟨struct_setScalar hm.1 n hsz hd .string rfl _, rfl⟩
  | bool b =>
    have e : (h.update (some n) (.bool b)) = (setScalar (h.mark n) n .bool (some (.bool b)), .ok ()) := by
      simp only [Heap.update, Heap.validate, setScalar, SetVal.type]
    rw [e]; exact ⟨struct_setScalar hm.1 n hsz hd .bool rfl _, rfl⟩
  | arr ids => simp [SetVal.type, NType.isContainer] at hv
  | obj kv => simp [SetVal.type, NType.isContainer] at hv


/-- a change of fields the invariant does not look at (cache, b0) -/
theorem struct_modify_irrelevant {h : Heap} (hs : Struct h) (n : Id) (f : NodeRec → NodeRec)
    (hf : ∀ r, (f r).parent = r.parent ∧ (f r).children = r.children ∧ (f r).type = r.type ∧ (f r).key = r.key ∧
      (f r).index = r.index ∧ (f r).data = r.data ∧ (f r).b1 = r.b1 ∧ (f r).dirty = r.dirty) : Struct (h.modify n f) := by
  have hfld : ∀ m : Nat, ((h.modify n f).get m).parent = (h.get m).parent ∧ ((h.modify n f).get m).children = (h.get m).children ∧
      ((h.modify n f).get m).type = (h.get m).type ∧ ((h.modify n f).get m).key = (h.get m).key ∧
      ((h.modify n f).get m).index = (h.get m).index ∧ ((h.modify n f).get m).data = (h.get m).data ∧
      ((h.modify n f).get m).b1 = (h.get m).b1 ∧ ((h.modify n f).get m).dirty = (h.get m).dirty := by
    intro m
    rw [get_modify]
    split
    · rename_i hc; rw [hc.1]; exact hf _
    · exact ⟨rfl, rfl, rfl, rfl, rfl, rfl, rfl, rfl⟩
  have hcm : ∀ m : Nat, (h.modify n f).childMap m = h.childMap m := by
    intro m; unfold childMap; rw [(hfld m).2.1]
  intro p hp
  rw [size_modify] at hp
  have ok := hs p hp
  obtain ⟨f1, f2, f3, f4, f5, f6, f7, f8⟩ := hfld p
  refine ⟨?_, by rw [hcm]; exact ok.nodup, by rw [hcm, f3]; exact ok.dense, by rw [hcm, f3, f2]; exact ok.shape, ?_, ?_⟩
  · intro kc hkc
    rw [hcm] at hkc
    obtain ⟨a, b, c, e⟩ := ok.kids kc hkc
    obtain ⟨g1, _, _, g4, g5, _⟩ := hfld kc.2
    refine ⟨by rw [size_modify]; exact a, b, by rw [g1]; exact c, ?_⟩
    unfold PosOK at e ⊢; rw [f3, g4, g5]; exact e
  · intro q hq
    rw [f1] at hq
    obtain ⟨a, b, c, e⟩ := ok.par q hq
    obtain ⟨_, _, g3, _, _, _, _, g8⟩ := hfld q
    exact ⟨by rw [size_modify]; exact a, by rw [g3]; exact b, by rw [hcm]; exact c, by rw [f8, g8]; exact e⟩
  · intro hcl
    rw [f8] at hcl
    obtain ⟨a, b, c⟩ := ok.clean hcl
    refine ⟨by rw [f6]; exact a, by rw [f7]; exact b, ?_⟩
    intro kc hkc
    rw [hcm] at hkc
    rw [(hfld kc.2).2.2.2.2.2.2.2]; exact c kc hkc

/-! ### removing a member of an object -/

theorem keys_erase (m : ChildMap) (k : Bytes) : (m.erase k).keys = m.keys.filter (fun x => !(x == k)) := by
  unfold ChildMap.erase ChildMap.keys
  induction m with
  | nil => rfl
  | cons p ps ih =>
    simp only [List.filter_cons, List.map_cons]
    by_cases hp : (p.1 == k) = true
    · simp [hp, ih]
    · simp [hp, ih]

theorem mem_erase {m : ChildMap} {k : Bytes} {kc : Bytes × Id} (h : kc ∈ m.erase k) : kc ∈ m ∧ kc.1 ≠ k := by
  unfold ChildMap.erase at h
  obtain ⟨a, b⟩ := List.mem_filter.mp h
  exact ⟨a, by simpa using b⟩

theorem mem_erase_of {m : ChildMap} {k : Bytes} {kc : Bytes × Id} (h : kc ∈ m) (hk : kc.1 ≠ k) : kc ∈ m.erase k := by
  unfold ChildMap.erase
  exact List.mem_filter.mpr ⟨h, by simpa using hk⟩

theorem keys_unique : ∀ (m : ChildMap), m.keys.Nodup → ∀ a b : Bytes × Id, a ∈ m → b ∈ m → a.1 = b.1 → a = b
  | [], _, a, _, ha, _, _ => by cases ha
  | p :: ps, hn, a, b, ha, hb, hab => by
    simp only [ChildMap.keys, List.map_cons, List.nodup_cons] at hn
    rcases List.mem_cons.mp ha with rfl | ha' <;> rcases List.mem_cons.mp hb with rfl | hb'
    · rfl
    · exact absurd (List.mem_map.mpr ⟨b, hb', hab.symm⟩) hn.1
    · exact absurd (List.mem_map.mpr ⟨a, ha', hab⟩) hn.1
    · exact keys_unique ps hn.2 a b ha' hb' hab

/-- `remove()` of a member of an object, after `mark()` and the cache reset -/
def detachObj (h : Heap) (n value : Id) (k : Bytes) : Heap :=
  (h.modify n (fun r => { r with children := r.children.map (·.erase k) })).modify value (fun r => { r with parent := none })

theorem struct_detachObj {h : Heap} (hs : Struct h) (n value : Nat) (hn : n < h.size) (hv : value < h.size)
    (hpar : (h.get value).parent = some n) (hobj : (h.get n).type ≠ .array) (k : Bytes) (hk : (h.get value).key = some k)
    (hd : (h.get n).dirty = true) : Struct (detachObj h n value k) := by
  have okn := hs n hn
  have okv := hs value hv
  have hvn : value ≠ n := by
    intro e; subst e
    obtain ⟨_, _, c, _⟩ := okv.par value hpar
    obtain ⟨kc, hkc, he⟩ := List.mem_map.mp c
    have := (okv.kids kc hkc).2.1
    exact this he
  -- the entry of `value` in n's map is (k, value)
  obtain ⟨_, _, hmem, _⟩ := okv.par n hpar
  obtain ⟨kc0, hkc0, he0⟩ := List.mem_map.mp hmem
  have hk0 : kc0.1 = k := by
    have := (okn.kids kc0 hkc0).2.2.2
    unfold PosOK at this
    rw [if_neg hobj, he0, hk] at this
    exact (Option.some.inj this).symm
  have huniq : ∀ kc ∈ h.childMap n, kc.1 = k → kc.2 = value := by
    intro kc hkc hkk
    have := keys_unique _ okn.nodup kc kc0 hkc hkc0 (by rw [hkk, hk0])
    rw [this]; exact he0
  have huniq2 : ∀ kc ∈ h.childMap n, kc.2 = value → kc.1 = k := by
    intro kc hkc hkv
    have := (okn.kids kc hkc).2.2.2
    unfold PosOK at this
    rw [if_neg hobj, hkv, hk] at this
    exact (Option.some.inj this).symm
  -- records after the two writes
  have hget : ∀ m : Nat, (detachObj h n value k).get m =
      if m = value then { h.get value with parent := none }
      else if m = n then { h.get n with children := (h.get n).children.map (·.erase k) } else h.get m := by
    intro m
    unfold detachObj
    by_cases hmv : m = value
    · subst hmv
      rw [get_modify]; simp only [size_modify, hv, and_self, if_true]
      rw [get_modify_other _ _ _ _ hvn]
    · rw [get_modify_other _ _ _ _ hmv]
      simp only [hmv, if_false]
      by_cases hmn : m = n
      · subst hmn; rw [get_modify]; simp [hn]
      · rw [get_modify_other _ _ _ _ hmn]; simp [hmn]
  have hsize : (detachObj h n value k).size = h.size := by simp [detachObj]
  have hcmn : (detachObj h n value k).childMap n = (h.childMap n).erase k := by
    unfold childMap
    rw [hget n]; simp only [Ne.symm hvn, if_false, if_true]
    cases (h.get n).children <;> simp [ChildMap.erase]
  have hcm : ∀ m : Nat, m ≠ n → (detachObj h n value k).childMap m = h.childMap m := by
    intro m hm
    unfold childMap
    rw [hget m]
    split
    · rename_i e; rw [e]
    · simp [hm]
  have hfld : ∀ m : Nat, ((detachObj h n value k).get m).type = (h.get m).type ∧ ((detachObj h n value k).get m).dirty = (h.get m).dirty ∧
      ((detachObj h n value k).get m).key = (h.get m).key ∧ ((detachObj h n value k).get m).index = (h.get m).index ∧
      ((detachObj h n value k).get m).data = (h.get m).data ∧ ((detachObj h n value k).get m).b1 = (h.get m).b1 ∧
      (m ≠ value → ((detachObj h n value k).get m).parent = (h.get m).parent) := by
    intro m
    rw [hget m]
    split
    · rename_i e; subst e; simp
    · split
      · rename_i e; subst e; simp
      · simp
  have hparv : ((detachObj h n value k).get value).parent = none := by rw [hget value]; simp
  intro p hp
  rw [hsize] at hp
  have ok := hs p hp
  obtain ⟨f1, f2, f3, f4, f5, f6, f7⟩ := hfld p
  by_cases hpn : p = n
  · subst hpn
    refine ⟨?_, ?_, ?_, ?_, ?_, ?_⟩
    · intro kc hkc
      rw [hcmn] at hkc
      obtain ⟨hin, hne⟩ := mem_erase hkc
      obtain ⟨a, b, c, e⟩ := ok.kids kc hin
      have hkv : (kc.2 : Nat) ≠ value := fun e' => hne (huniq2 kc hin e')
      obtain ⟨g1, _, g3, g4, _, _, g7⟩ := hfld kc.2
      refine ⟨by rw [hsize]; exact a, b, by rw [g7 hkv]; exact c, ?_⟩
      unfold PosOK at e ⊢; rw [f1, g3, g4]; exact e
    · rw [hcmn, keys_erase]; exact ok.nodup.sublist List.filter_sublist
    · intro hta; rw [f1] at hta; exact absurd hta hobj
    · rw [f1]
      have := ok.shape
      by_cases hc : (h.get p).type.isContainer = true
      · simp only [hc, if_true] at this ⊢
        rw [hget p]; simp only [Ne.symm hvn, if_false, if_true]
        cases hch : (h.get p).children with
        | none => rw [hch] at this; cases this
        | some m => rfl
      · simp only [hc, Bool.false_eq_true, if_false] at this ⊢
        rw [hcmn, this]; rfl
    · intro q hq
      rw [f7 (Ne.symm hvn)] at hq
      obtain ⟨a, b, c, e⟩ := ok.par q hq
      have hqp : q ≠ p := by
        intro e'; subst e'
        obtain ⟨kc, hkc, he⟩ := List.mem_map.mp c
        exact (ok.kids kc hkc).2.1 he
      obtain ⟨g1, g2, _⟩ := hfld q
      exact ⟨by rw [hsize]; exact a, by rw [g1]; exact b, by rw [hcm q hqp]; exact c, by rw [f2, g2]; exact e⟩
    · intro hcl; rw [f2, hd] at hcl; cases hcl
  · refine ⟨?_, by rw [hcm p hpn]; exact ok.nodup, by rw [hcm p hpn, f1]; exact ok.dense, ?_, ?_, ?_⟩
    · intro kc hkc
      rw [hcm p hpn] at hkc
      obtain ⟨a, b, c, e⟩ := ok.kids kc hkc
      have hkv : (kc.2 : Nat) ≠ value := by
        intro e'; rw [e'] at c; rw [hpar] at c; exact hpn (Option.some.inj c).symm
      obtain ⟨g1, _, g3, g4, _, _, g7⟩ := hfld kc.2
      refine ⟨by rw [hsize]; exact a, b, by rw [g7 hkv]; exact c, ?_⟩
      unfold PosOK at e ⊢; rw [f1, g3, g4]; exact e
    · rw [hcm p hpn, f1]
      have := ok.shape
      by_cases hc : (h.get p).type.isContainer = true
      · simp only [hc, if_true] at this ⊢
        rw [hget p]
        split
        · rename_i e; subst e; exact this
        · first | exact this | (simp only [hpn, if_false]; exact this) | (split <;> first | exact this | (rename_i e2; exact absurd e2 hpn))
      · simp only [hc, Bool.false_eq_true, if_false] at this ⊢; exact this
    · intro q hq
      by_cases hpv : p = value
      · subst hpv; rw [hparv] at hq; cases hq
      · rw [f7 hpv] at hq
        obtain ⟨a, b, c, e⟩ := ok.par q hq
        obtain ⟨g1, g2, _⟩ := hfld q
        refine ⟨by rw [hsize]; exact a, by rw [g1]; exact b, ?_, by rw [f2, g2]; exact e⟩
        by_cases hqn : q = n
        · subst hqn
          rw [hcmn]
          obtain ⟨kc, hkc, he⟩ := List.mem_map.mp c
          have hne : kc.1 ≠ k := fun e' => hpv ((huniq kc hkc e').symm ▸ he.symm ▸ rfl)
          exact List.mem_map.mpr ⟨kc, mem_erase_of hkc hne, he⟩
        · rw [hcm q hqn]; exact c
    · intro hcl
      rw [f2] at hcl
      obtain ⟨a, b, c⟩ := ok.clean hcl
      refine ⟨by rw [f5]; exact a, by rw [f6]; exact b, ?_⟩
      intro kc hkc
      rw [hcm p hpn] at hkc
      rw [(hfld kc.2).2.1]; exact c kc hkc

/-- **deleting a member of an object preserves the invariant** (`remove`, hence DeleteNode / DeleteKey / PopKey / Delete on
a member) -/
theorem struct_remove_object {h : Heap} (hs : Struct h) (n value : Nat) (hv : value < h.size)
    (hpar : (h.get value).parent = some n) (hobj : (h.get n).type = .object) :
    Struct (h.remove n value).1 ∧ (h.remove n value).2 = .ok () := by
  have okv := hs value hv
  obtain ⟨hn, hcont, hmem, _⟩ := okv.par n hpar
  obtain ⟨kc0, hkc0, he0⟩ := List.mem_map.mp hmem
  have hkey : (h.get value).key = some kc0.1 := by
    have := ((hs n hn).kids kc0 hkc0).2.2.2
    unfold PosOK at this
    rw [hobj, he0] at this
    simpa using this
  have hm := hs.mark n hn
  have hdn : ((h.mark n).get n).dirty = true := mark_self_dirty h n hn
  obtain ⟨m1, _, m3, m4, _⟩ := hm.2.fields value
  obtain ⟨_, _, n3, _⟩ := hm.2.fields n
  -- the heap after mark and the cache reset
  have hs2 : Struct ((h.mark n).modify n (fun r => { r with cache := none })) :=
    struct_modify_irrelevant hm.1 n _ (fun r => ⟨rfl, rfl, rfl, rfl, rfl, rfl, rfl, rfl⟩)
  have g : ∀ m : Nat, (((h.mark n).modify n (fun r => { r with cache := none })).get m).parent = ((h.mark n).get m).parent ∧
      (((h.mark n).modify n (fun r => { r with cache := none })).get m).type = ((h.mark n).get m).type ∧
      (((h.mark n).modify n (fun r => { r with cache := none })).get m).key = ((h.mark n).get m).key ∧
      (((h.mark n).modify n (fun r => { r with cache := none })).get m).dirty = ((h.mark n).get m).dirty ∧
      (((h.mark n).modify n (fun r => { r with cache := none })).get m).index = ((h.mark n).get m).index := by
    intro m; rw [get_modify]; split
    · rename_i hc; rw [hc.1]; exact ⟨rfl, rfl, rfl, rfl, rfl⟩
    · exact ⟨rfl, rfl, rfl, rfl, rfl⟩
  have hsz2 : ((h.mark n).modify n (fun r => { r with cache := none })).size = h.size := by simp [hm.2.1]
  have key := struct_detachObj hs2 n value (by rw [hsz2]; exact hn) (by rw [hsz2]; exact hv)
    (by rw [(g value).1, m1]; exact hpar) (by rw [(g n).2.1, n3, hobj]; decide) kc0.1 (by rw [(g value).2.2.1, m4]; exact hkey)
    (by rw [(g n).2.2.2.1]; exact hdn)
  have hic : h.isContainer n = true := by simpa [isContainer, typeOf] using hcont
  have hia : ((h.mark n).modify n (fun r => { r with cache := none })).isArray n = false := by
    simp [isArray, typeOf, (g n).2.1, n3, hobj]
  have hpe : ((h.get value).parent != some n) = false := by simp [hpar]
  have e : h.remove n value = (detachObj ((h.mark n).modify n (fun r => { r with cache := none })) n value kc0.1, .ok ()) := by
    unfold Heap.remove
    simp only [hic, Bool.not_true, Bool.false_eq_true, if_false, hpe, hia, (g value).2.2.1, m4, hkey]
    rfl
  rw [e]; exact ⟨key, rfl⟩


/-! ### the relaxed invariant; AppendObject -/
/-- the invariant with the two obligations relaxed that `mark(n)` is about to restore: a dirty child of `n` under a clean `n` -/
structure NodeOKBut (h : Heap) (n : Nat) (p : Nat) : Prop where
  kids : ∀ kc ∈ h.childMap p, (kc.2 : Nat) < h.size ∧ (kc.2 : Nat) ≠ p ∧ (h.get kc.2).parent = some p ∧ PosOK h p kc
  nodup : (h.childMap p).keys.Nodup
  dense : (h.get p).type = .array → ∀ i : Nat, i < (h.childMap p).length → ((h.childMap p).lookup (itoa i)).isSome = true
  shape : if (h.get p).type.isContainer = true then (h.get p).children.isSome = true else h.childMap p = []
  par : ∀ q : Nat, (h.get p).parent = some q → q < h.size ∧ (h.get q).type.isContainer = true ∧ (p : Id) ∈ (h.childMap q).vals ∧
    ((h.get p).dirty = true → (h.get q).dirty = true ∨ q = n)
  clean : p ≠ n → (h.get p).dirty = false → (h.get p).data.isSome = true ∧ (h.get p).b1 ≠ 0 ∧ ∀ kc ∈ h.childMap p, (h.get kc.2).dirty = false

def StructBut (h : Heap) (n : Nat) : Prop := ∀ p : Nat, p < h.size → NodeOKBut h n p

theorem Struct.toBut {h : Heap} (hs : Struct h) (n : Nat) : StructBut h n := fun p hp =>
  let ok := hs p hp
  ⟨ok.kids, ok.nodup, ok.dense, ok.shape, fun q hq => let r := ok.par q hq; ⟨r.1, r.2.1, r.2.2.1, fun hd => Or.inl (r.2.2.2 hd)⟩,
    fun _ => ok.clean⟩

theorem StructBut.toStruct {h : Heap} {n : Nat} (hs : StructBut h n) (hd : (h.get n).dirty = true) : Struct h := fun p hp =>
  let ok := hs p hp
  ⟨ok.kids, ok.nodup, ok.dense, ok.shape,
    fun q hq => let r := ok.par q hq; ⟨r.1, r.2.1, r.2.2.1, fun hdp => by rcases r.2.2.2 hdp with h1 | h1; exact h1; rw [h1]; exact hd⟩,
    fun hcl => by
      by_cases hpn : p = n
      · rw [hpn, hd] at hcl; cases hcl
      · exact ok.clean hpn hcl⟩

/-- **`mark(n)` restores the full invariant** from the relaxed one -/
theorem StructBut.mark {h : Heap} {n : Nat} (hs : StructBut h n) (hn : n < h.size) : Struct (h.mark n) := by
  have d : DirtyOnly h (h.mark n) := ⟨size_markAux _ _ _, fun m => mark_get h n m⟩
  have hdn : ((h.mark n).get n).dirty = true := mark_self_dirty h n hn
  have hu : UpClosed (h.mark n) := by
    unfold Heap.mark
    apply markAux_closed
    · intro m hm q hq hdm
      rcases ((hs m hm).par q hq).2.2.2 hdm with h1 | h1
      · left; exact h1
      · right; rw [h1]
    · exact cleanCount_le h
    · intro n' hn'; cases hn'; exact hn
    · intro m hm q hq; exact ((hs m hm).par q hq).1
  intro p hp
  rw [d.1] at hp
  have ok := hs p hp
  obtain ⟨f1, f2, f3, f4, f5, f6, f7, f8⟩ := d.fields p
  have hcm : (h.mark n).childMap p = h.childMap p := by unfold childMap; rw [f2]
  refine ⟨?_, by rw [hcm]; exact ok.nodup, by rw [hcm, f3]; exact ok.dense, by rw [hcm, f3, f2]; exact ok.shape, ?_, ?_⟩
  · intro kc hkc
    rw [hcm] at hkc
    obtain ⟨a, b, c, e⟩ := ok.kids kc hkc
    obtain ⟨g1, _, _, g4, g5, _, _, _⟩ := d.fields kc.2
    refine ⟨by rw [d.1]; exact a, b, by rw [g1]; exact c, ?_⟩
    unfold PosOK at e ⊢
    rw [f3, g4, g5]; exact e
  · intro q hq
    rw [f1] at hq
    obtain ⟨a, b, c, _⟩ := ok.par q hq
    obtain ⟨_, g2, g3, _⟩ := d.fields q
    refine ⟨by rw [d.1]; exact a, by rw [g3]; exact b, ?_, fun hd => hu p (by rw [d.1]; exact hp) q (by rw [f1]; exact hq) hd⟩
    have : (h.mark n).childMap q = h.childMap q := by unfold childMap; rw [g2]
    rw [this]; exact c
  · intro hcl
    have hpn : p ≠ n := by intro e; rw [e, hdn] at hcl; cases hcl
    have hcl0 : (h.get p).dirty = false := by
      cases hd : (h.get p).dirty with
      | false => rfl
      | true => rw [f8 hd] at hcl; cases hcl
    obtain ⟨a, b, c⟩ := ok.clean hpn hcl0
    refine ⟨by rw [f6]; exact a, by rw [f7]; exact b, ?_⟩
    intro kc hkc
    rw [hcm] at hkc
    obtain ⟨k1, _, k3, _⟩ := ok.kids kc hkc
    cases hd : ((h.mark n).get kc.2).dirty with
    | false => rfl
    | true =>
      have hpar : ((h.mark n).get kc.2).parent = some p := by rw [(d.fields kc.2).1]; exact k3
      have := hu kc.2 (by rw [d.1]; exact k1) p hpar hd
      rw [hcl] at this; cases this

theorem not_mem_keys_of_lookup_none (m : ChildMap) (k : Bytes) (h : m.lookup k = none) : k ∉ m.keys := by
  intro hk
  obtain ⟨p, hp, he⟩ := List.mem_map.mp hk
  unfold ChildMap.lookup at h
  rw [Option.map_eq_none_iff, List.find?_eq_none] at h
  exact h p hp (by simp [he])

/-- `appendNode(key, value)` on an object once `value` is detached and no other member has that name -/
def attachObj (h : Heap) (n value : Id) (k : Bytes) : Heap :=
  ((h.modify value (fun r => { r with parent := some n, key := some k })).modify n (fun r => { r with cache := none })).modify n
    (fun r => { r with children := some ((r.children.getD []).insert k value) })

theorem struct_attachObj {h : Heap} (hs : Struct h) (n value : Nat) (hn : n < h.size) (hv : value < h.size) (hvn : value ≠ n)
    (hroot : (h.get value).parent = none) (hobj : (h.get n).type = .object) (k : Bytes) (hfresh : (h.childMap n).lookup k = none) :
    StructBut (attachObj h n value k) n := by
  have okn := hs n hn
  have hget : ∀ m : Nat, (attachObj h n value k).get m =
      if m = n then { h.get n with cache := none, children := some ((h.childMap n).insert k value) }
      else if m = value then { h.get value with parent := some n, key := some k } else h.get m := by
    intro m
    unfold attachObj
    by_cases hmn : m = n
    · subst hmn
      rw [get_modify]; simp only [size_modify, hn, and_self, if_true]
      rw [get_modify]; simp only [size_modify, hn, and_self, if_true]
      rw [get_modify_other _ _ _ _ (Ne.symm hvn)]
      simp [childMap]
    · rw [get_modify_other _ _ _ _ hmn, get_modify_other _ _ _ _ hmn]
      simp only [hmn, if_false]
      by_cases hmv : m = value
      · subst hmv; rw [get_modify]; simp [hv]
      · rw [get_modify_other _ _ _ _ hmv]; simp [hmv]
  have hsize : (attachObj h n value k).size = h.size := by simp [attachObj]
  have hcmn : (attachObj h n value k).childMap n = h.childMap n ++ [(k, (value : Id))] := by
    unfold childMap; rw [hget n]; simp only [if_true, Option.getD_some]
    exact insert_fresh _ _ _ hfresh
  have hcm : ∀ m : Nat, m ≠ n → (attachObj h n value k).childMap m = h.childMap m := by
    intro m hm
    unfold childMap; rw [hget m]; simp only [hm, if_false]
    split
    · rename_i e; rw [e]
    · rfl
  have hfld : ∀ m : Nat, ((attachObj h n value k).get m).type = (h.get m).type ∧ ((attachObj h n value k).get m).dirty = (h.get m).dirty ∧
      ((attachObj h n value k).get m).index = (h.get m).index ∧ ((attachObj h n value k).get m).data = (h.get m).data ∧
      ((attachObj h n value k).get m).b1 = (h.get m).b1 ∧
      (m ≠ value → ((attachObj h n value k).get m).parent = (h.get m).parent ∧ ((attachObj h n value k).get m).key = (h.get m).key) := by
    intro m
    rw [hget m]
    split
    · rename_i e; subst e; simp
    · split
      · rename_i e; subst e; simp
      · simp
  have hvrec : ((attachObj h n value k).get value).parent = some n ∧ ((attachObj h n value k).get value).key = some k := by
    rw [hget value]; simp [hvn]
  -- `value` is not a child of anybody
  have hnokid : ∀ p : Nat, p < h.size → ∀ kc ∈ h.childMap p, (kc.2 : Nat) ≠ value := by
    intro p hp kc hkc e
    have := ((hs p hp).kids kc hkc).2.2.1
    rw [e, hroot] at this; cases this
  intro p hp
  rw [hsize] at hp
  have ok := hs p hp
  obtain ⟨f1, f2, f3, f4, f5, f6⟩ := hfld p
  by_cases hpn : p = n
  · subst hpn
    refine ⟨?_, ?_, ?_, ?_, ?_, fun hne => absurd rfl hne⟩
    · intro kc hkc
      rw [hcmn, List.mem_append] at hkc
      rcases hkc with hkc | hkc
      · obtain ⟨a, b, c, e⟩ := ok.kids kc hkc
        have hkv := hnokid p hp kc hkc
        obtain ⟨g1, _, g3, _, _, g6⟩ := hfld kc.2
        refine ⟨by rw [hsize]; exact a, b, by rw [(g6 hkv).1]; exact c, ?_⟩
        unfold PosOK at e ⊢; rw [f1, g3, (g6 hkv).2]; exact e
      · have : kc = (k, (value : Id)) := by simpa using hkc
        subst this
        refine ⟨by rw [hsize]; exact hv, hvn, hvrec.1, ?_⟩
        unfold PosOK; rw [f1, hobj]; simp [hvrec.2]
    · rw [hcmn]
      simp only [ChildMap.keys, List.map_append, List.map_cons, List.map_nil]
      rw [List.nodup_append]
      refine ⟨ok.nodup, by simp, ?_⟩
      intro a ha b hb
      have : b = k := by simpa using hb
      subst this
      intro e; subst e
      exact not_mem_keys_of_lookup_none _ _ hfresh ha
    · intro hta; rw [f1, hobj] at hta; cases hta
    · rw [f1, hobj]; simp only [NType.isContainer, if_true]
      rw [hget p]; simp
    · intro q hq
      rw [(f6 (Ne.symm hvn)).1] at hq
      obtain ⟨a, b, c, e⟩ := ok.par q hq
      have hqp : q ≠ p := by
        intro e'; subst e'
        obtain ⟨kc, hkc, he⟩ := List.mem_map.mp c
        exact (ok.kids kc hkc).2.1 he
      obtain ⟨g1, g2, _⟩ := hfld q
      exact ⟨by rw [hsize]; exact a, by rw [g1]; exact b, by rw [hcm q hqp]; exact c, fun hd => Or.inl (by rw [g2]; exact e (by rw [← f2]; exact hd))⟩
  · have hkids : ∀ kc ∈ h.childMap p, (kc.2 : Nat) < (attachObj h n value k).size ∧ (kc.2 : Nat) ≠ p ∧
        ((attachObj h n value k).get kc.2).parent = some p ∧ PosOK (attachObj h n value k) p kc := by
      intro kc hkc
      obtain ⟨a, b, c, e⟩ := ok.kids kc hkc
      have hkv := hnokid p hp kc hkc
      obtain ⟨g1, _, g3, _, _, g6⟩ := hfld kc.2
      refine ⟨by rw [hsize]; exact a, b, by rw [(g6 hkv).1]; exact c, ?_⟩
      unfold PosOK at e ⊢; rw [f1, g3, (g6 hkv).2]; exact e
    have hshape : if ((attachObj h n value k).get p).type.isContainer = true then ((attachObj h n value k).get p).children.isSome = true
        else (attachObj h n value k).childMap p = [] := by
      rw [hcm p hpn, f1]
      have := ok.shape
      by_cases hc : (h.get p).type.isContainer = true
      · simp only [hc, if_true] at this ⊢
        rw [hget p]; simp only [hpn, if_false]
        split
        · rename_i e; subst e; exact this
        · exact this
      · simp only [hc, Bool.false_eq_true, if_false] at this ⊢; exact this
    have hclean : p ≠ n → ((attachObj h n value k).get p).dirty = false → ((attachObj h n value k).get p).data.isSome = true ∧
        ((attachObj h n value k).get p).b1 ≠ 0 ∧ ∀ kc ∈ (attachObj h n value k).childMap p, ((attachObj h n value k).get kc.2).dirty = false := by
      intro _ hcl
      rw [f2] at hcl
      obtain ⟨a, b, c⟩ := ok.clean hcl
      refine ⟨by rw [f4]; exact a, by rw [f5]; exact b, ?_⟩
      intro kc hkc
      rw [hcm p hpn] at hkc
      rw [(hfld kc.2).2.1]; exact c kc hkc
    refine ⟨by rw [hcm p hpn]; exact hkids, by rw [hcm p hpn]; exact ok.nodup, by rw [hcm p hpn, f1]; exact ok.dense, hshape, ?_, hclean⟩
    intro q hq
    by_cases hpv : p = value
    · subst hpv
      rw [hvrec.1] at hq
      cases hq
      refine ⟨by rw [hsize]; exact hn, by rw [(hfld n).1, hobj]; rfl, ?_, fun _ => Or.inr rfl⟩
      rw [hcmn]; simp [ChildMap.vals]
    · rw [(f6 hpv).1] at hq
      obtain ⟨a, b, c, e⟩ := ok.par q hq
      obtain ⟨g1, g2, _⟩ := hfld q
      refine ⟨by rw [hsize]; exact a, by rw [g1]; exact b, ?_, fun hd => Or.inl (by rw [g2]; exact e (by rw [← f2]; exact hd))⟩
      by_cases hqn : q = n
      · subst hqn
        rw [hcmn]; simp only [ChildMap.vals, List.map_append, List.mem_append]
        left; exact c
      · rw [hcm q hqn]; exact c

theorem modify_congr (h : Heap) (n : Id) (f g : NodeRec → NodeRec) (hfg : f (h.get n) = g (h.get n)) : h.modify n f = h.modify n g := by
  rw [modify_eq, modify_eq, hfg]

/-- **AppendObject of a detached node under a new key preserves the invariant** -/
theorem struct_appendObject_fresh {h : Heap} (hs : Struct h) (n value : Nat) (hn : n < h.size) (hv : value < h.size)
    (hobj : (h.get n).type = .object) (hloop : h.isParentOrSelfNode n value = false) (hroot : (h.get value).parent = none)
    (k : Bytes) (hfresh : (h.childMap n).lookup k = none) :
    Struct (h.appendObject n k value).1 ∧ (h.appendObject n k value).2 = .ok () := by
  have hvn : value ≠ n := by
    intro e; subst e
    simp [isParentOrSelfNode] at hloop
  have hio : h.isObject n = true := by simp [isObject, typeOf, hobj]
  obtain ⟨m, hm⟩ := Option.isSome_iff_exists.mp (by have := (hs n hn).shape; rw [hobj] at this; simpa [NType.isContainer] using this)
  have e : h.appendNode n (some k) value = (attachObj h n value k, .ok ()) := by
    unfold Heap.appendNode
    simp only [hloop, Bool.false_eq_true, if_false, hroot]
    have hcm3 : ((h.modify value (fun r => { r with parent := some n, key := some k })).modify n (fun r => { r with cache := none })).childMap n
        = h.childMap n := by
      unfold childMap
      rw [get_modify]; simp only [size_modify, hn, and_self, if_true]
      rw [get_modify_other _ _ _ _ (Ne.symm hvn)]
    have hch3 : (((h.modify value (fun r => { r with parent := some n, key := some k })).modify n (fun r => { r with cache := none })).get n).children
        = some m := by
      rw [get_modify]; simp only [size_modify, hn, and_self, if_true]
      rw [get_modify_other _ _ _ _ (Ne.symm hvn)]; exact hm
    simp only [hcm3, hfresh, hch3]
    unfold attachObj
    congr 1
    apply modify_congr
    simp only [hch3, Option.getD_some]
  have hsb := struct_attachObj hs n value hn hv hvn hroot hobj k hfresh
  unfold Heap.appendObject
  simp only [hio, Bool.not_true, Bool.false_eq_true, if_false, e]
  exact ⟨hsb.mark (by simp [attachObj]; exact hn), trivial⟩


/-! ### AppendArray -/
theorem nodup_subset_length {α : Type} [DecidableEq α] : ∀ (l1 l2 : List α), l1.Nodup → (∀ x ∈ l1, x ∈ l2) → l1.length ≤ l2.length
  | [], _, _, _ => Nat.zero_le _
  | a :: t, l2, hn, hs => by
    have ha : a ∈ l2 := hs a (by simp)
    have hnt := (List.nodup_cons.mp hn)
    have hsub : ∀ x ∈ t, x ∈ l2.erase a := by
      intro x hx
      have hxa : x ≠ a := by intro e; subst e; exact hnt.1 hx
      exact (List.mem_erase_of_ne hxa).mpr (hs x (by simp [hx]))
    have := nodup_subset_length t (l2.erase a) hnt.2 hsub
    rw [List.length_erase_of_mem ha] at this
    have hpos : 0 < l2.length := List.length_pos_of_mem ha
    simp only [List.length_cons]; omega

theorem range_itoa_nodup (n : Nat) : ((List.range n).map itoa).Nodup := by
  induction n with
  | zero => simp
  | succ n ih =>
    rw [List.range_succ, List.map_append, List.nodup_append]
    refine ⟨ih, by simp, ?_⟩
    intro a ha b hb e
    obtain ⟨i, hi, he⟩ := List.mem_map.mp ha
    have hb' : b = itoa n := by simpa using hb
    subst he; subst hb'
    have := itoa_inj e
    simp at hi; omega

/-- in a map whose keys cover "0" … "len-1" the next index is a fresh key -/
theorem array_next_fresh (m : ChildMap) (hdense : ∀ i : Nat, i < m.length → (m.lookup (itoa i)).isSome = true) :
    m.lookup (itoa m.length) = none := by
  cases hl : m.lookup (itoa m.length) with
  | none => rfl
  | some c =>
    exfalso
    have hsub : ∀ x ∈ (List.range (m.length + 1)).map itoa, x ∈ m.keys := by
      intro x hx
      obtain ⟨i, hi, he⟩ := List.mem_map.mp hx
      have hi' : i < m.length + 1 := List.mem_range.mp hi
      subst he
      by_cases hlt : i < m.length
      · obtain ⟨c', hc'⟩ := Option.isSome_iff_exists.mp (hdense i hlt)
        exact mem_keys_of_lookup _ _ _ hc'
      · have : i = m.length := by omega
        rw [this]; exact mem_keys_of_lookup _ _ _ hl
    have := nodup_subset_length _ _ (range_itoa_nodup _) hsub
    simp [ChildMap.keys] at this
    omega

/-- `appendNode(nil, value)` on an array once `value` is detached -/
def attachArr (h : Heap) (n value : Id) : Heap :=
  (((h.modify value (fun r => { r with parent := some n, key := none })).modify n (fun r => { r with cache := none })).modify value
    (fun r => { r with index := some (h.childMap n).length })).modify n
    (fun r => { r with children := some ((r.children.getD []).insert (itoa (h.childMap n).length) value) })

theorem struct_attachArr {h : Heap} (n value : Nat) (hs : StructBut h n) (hn : n < h.size) (hv : value < h.size) (hvn : value ≠ n)
    (hroot : (h.get value).parent = none) (harr : (h.get n).type = .array) : StructBut (attachArr h n value) n := by
  have okn := hs n hn
  have hfresh := array_next_fresh (h.childMap n) (okn.dense harr)
  have hget : ∀ m : Nat, (attachArr h n value).get m =
      if m = n then { h.get n with cache := none, children := some ((h.childMap n).insert (itoa (h.childMap n).length) value) }
      else if m = value then { h.get value with parent := some n, key := none, index := some (h.childMap n).length } else h.get m := by
    intro m
    unfold attachArr
    by_cases hmn : m = n
    · subst hmn
      rw [get_modify]; simp only [size_modify, hn, and_self, if_true]
      rw [get_modify_other _ _ _ _ (Ne.symm hvn)]
      rw [get_modify]; simp only [size_modify, hn, and_self, if_true]
      rw [get_modify_other _ _ _ _ (Ne.symm hvn)]
      simp [childMap]
    · rw [get_modify_other _ _ _ _ hmn]
      simp only [hmn, if_false]
      by_cases hmv : m = value
      · subst hmv
        rw [get_modify]; simp only [size_modify, hv, and_self, if_true]
        rw [get_modify_other _ _ _ _ hmn]
        rw [get_modify]; simp [hv]
      · rw [get_modify_other _ _ _ _ hmv, get_modify_other _ _ _ _ hmn, get_modify_other _ _ _ _ hmv]; simp [hmv]
  have hsize : (attachArr h n value).size = h.size := by simp [attachArr]
  have hcmn : (attachArr h n value).childMap n = h.childMap n ++ [(itoa (h.childMap n).length, (value : Id))] := by
    unfold childMap; rw [hget n]; simp only [if_true, Option.getD_some]
    exact insert_fresh _ _ _ hfresh
  have hcm : ∀ m : Nat, m ≠ n → (attachArr h n value).childMap m = h.childMap m := by
    intro m hm
    unfold childMap; rw [hget m]; simp only [hm, if_false]
    split
    · rename_i e; rw [e]
    · rfl
  have hfld : ∀ m : Nat, ((attachArr h n value).get m).type = (h.get m).type ∧ ((attachArr h n value).get m).dirty = (h.get m).dirty ∧
      ((attachArr h n value).get m).data = (h.get m).data ∧ ((attachArr h n value).get m).b1 = (h.get m).b1 ∧
      (m ≠ value → ((attachArr h n value).get m).parent = (h.get m).parent ∧ ((attachArr h n value).get m).key = (h.get m).key ∧
        ((attachArr h n value).get m).index = (h.get m).index) := by
    intro m
    rw [hget m]
    split
    · rename_i e; subst e; simp
    · split
      · rename_i e; subst e; simp
      · simp
  have hvrec : ((attachArr h n value).get value).parent = some n ∧ ((attachArr h n value).get value).index = some (h.childMap n).length := by
    rw [hget value]; simp [hvn]
  have hnokid : ∀ p : Nat, p < h.size → ∀ kc ∈ h.childMap p, (kc.2 : Nat) ≠ value := by
    intro p hp kc hkc e
    have := ((hs p hp).kids kc hkc).2.2.1
    rw [e, hroot] at this; cases this
  intro p hp
  rw [hsize] at hp
  have ok := hs p hp
  obtain ⟨f1, f2, f4, f5, f6⟩ := hfld p
  have hkidsOld : ∀ kc ∈ h.childMap p, (kc.2 : Nat) < (attachArr h n value).size ∧ (kc.2 : Nat) ≠ p ∧
      ((attachArr h n value).get kc.2).parent = some p ∧ PosOK (attachArr h n value) p kc := by
    intro kc hkc
    obtain ⟨a, b, c, e⟩ := ok.kids kc hkc
    have hkv := hnokid p hp kc hkc
    obtain ⟨g1, _, _, _, g6⟩ := hfld kc.2
    refine ⟨by rw [hsize]; exact a, b, by rw [(g6 hkv).1]; exact c, ?_⟩
    unfold PosOK at e ⊢; rw [f1, (g6 hkv).2.1, (g6 hkv).2.2]; exact e
  by_cases hpn : p = n
  · subst hpn
    refine ⟨?_, ?_, ?_, ?_, ?_, fun hne => absurd rfl hne⟩
    · intro kc hkc
      rw [hcmn, List.mem_append] at hkc
      rcases hkc with hkc | hkc
      · exact hkidsOld kc hkc
      · have : kc = (itoa (h.childMap p).length, (value : Id)) := by simpa using hkc
        subst this
        refine ⟨by rw [hsize]; exact hv, hvn, hvrec.1, ?_⟩
        unfold PosOK; rw [f1, harr]; simp [hvrec.2]
    · rw [hcmn]
      simp only [ChildMap.keys, List.map_append, List.map_cons, List.map_nil]
      rw [List.nodup_append]
      refine ⟨ok.nodup, by simp, ?_⟩
      intro a ha b hb
      have : b = itoa (h.childMap p).length := by simpa using hb
      subst this
      intro e; subst e
      exact not_mem_keys_of_lookup_none _ _ hfresh ha
    · intro _ i hi
      rw [hcmn] at hi ⊢
      simp only [List.length_append, List.length_cons, List.length_nil] at hi
      rw [lookup_append_single]
      by_cases hlt : i < (h.childMap p).length
      · obtain ⟨c, hc⟩ := Option.isSome_iff_exists.mp (ok.dense harr i hlt)
        rw [hc]; rfl
      · have : i = (h.childMap p).length := by omega
        subst this
        rw [hfresh]; simp
    · rw [f1, harr]; simp only [NType.isContainer, if_true]
      rw [hget p]; simp
    · intro q hq
      rw [(f6 (Ne.symm hvn)).1] at hq
      obtain ⟨a, b, c, e⟩ := ok.par q hq
      have hqp : q ≠ p := by
        intro e'; subst e'
        obtain ⟨kc, hkc, he⟩ := List.mem_map.mp c
        exact (ok.kids kc hkc).2.1 he
      obtain ⟨g1, g2, _⟩ := hfld q
      exact ⟨by rw [hsize]; exact a, by rw [g1]; exact b, by rw [hcm q hqp]; exact c, fun hd => by rw [g2]; exact e (by rw [← f2]; exact hd)⟩
  · have hshape : if ((attachArr h n value).get p).type.isContainer = true then ((attachArr h n value).get p).children.isSome = true
        else (attachArr h n value).childMap p = [] := by
      rw [hcm p hpn, f1]
      have := ok.shape
      by_cases hc : (h.get p).type.isContainer = true
      · simp only [hc, if_true] at this ⊢
        rw [hget p]; simp only [hpn, if_false]
        split
        · rename_i e; subst e; exact this
        · exact this
      · simp only [hc, Bool.false_eq_true, if_false] at this ⊢; exact this
    have hclean : p ≠ n → ((attachArr h n value).get p).dirty = false → ((attachArr h n value).get p).data.isSome = true ∧
        ((attachArr h n value).get p).b1 ≠ 0 ∧ ∀ kc ∈ (attachArr h n value).childMap p, ((attachArr h n value).get kc.2).dirty = false := by
      intro _ hcl
      rw [f2] at hcl
      obtain ⟨a, b, c⟩ := ok.clean hpn hcl
      refine ⟨by rw [f4]; exact a, by rw [f5]; exact b, ?_⟩
      intro kc hkc
      rw [hcm p hpn] at hkc
      rw [(hfld kc.2).2.1]; exact c kc hkc
    refine ⟨by rw [hcm p hpn]; exact hkidsOld, by rw [hcm p hpn]; exact ok.nodup, by rw [hcm p hpn, f1]; exact ok.dense, hshape, ?_, hclean⟩
    intro q hq
    by_cases hpv : p = value
    · subst hpv
      rw [hvrec.1] at hq
      cases hq
      refine ⟨by rw [hsize]; exact hn, by rw [(hfld n).1, harr]; rfl, ?_, fun _ => Or.inr rfl⟩
      rw [hcmn]; simp [ChildMap.vals]
    · rw [(f6 hpv).1] at hq
      obtain ⟨a, b, c, e⟩ := ok.par q hq
      obtain ⟨g1, g2, _⟩ := hfld q
      refine ⟨by rw [hsize]; exact a, by rw [g1]; exact b, ?_, fun hd => by rw [g2]; exact e (by rw [← f2]; exact hd)⟩
      by_cases hqn : q = n
      · subst hqn
        rw [hcmn]; simp only [ChildMap.vals, List.map_append, List.mem_append]
        left; exact c
      · rw [hcm q hqn]; exact c

/-- **AppendArray of a detached node preserves the invariant** -/
theorem struct_appendArray_one {h : Heap} (hs : Struct h) (n value : Nat) (hn : n < h.size) (hv : value < h.size)
    (harr : (h.get n).type = .array) (hloop : h.isParentOrSelfNode n value = false) (hroot : (h.get value).parent = none) :
    Struct (h.appendArray n [value]).1 ∧ (h.appendArray n [value]).2 = .ok () := by
  have hvn : value ≠ n := by
    intro e; subst e
    simp [isParentOrSelfNode] at hloop
  have hia : h.isArray n = true := by simp [isArray, typeOf, harr]
  obtain ⟨m, hm⟩ := Option.isSome_iff_exists.mp (by have := (hs n hn).shape; rw [harr] at this; simpa [NType.isContainer] using this)
  have hlen : m.length = (h.childMap n).length := by unfold childMap; rw [hm]; rfl
  have e : h.appendNode n none value = (attachArr h n value, .ok ()) := by
    unfold Heap.appendNode
    simp only [hloop, Bool.false_eq_true, if_false, hroot]
    have hch3 : (((h.modify value (fun r => { r with parent := some n, key := none })).modify n (fun r => { r with cache := none })).get n).children
        = some m := by
      rw [get_modify]; simp only [size_modify, hn, and_self, if_true]
      rw [get_modify_other _ _ _ _ (Ne.symm hvn)]; exact hm
    simp only [hch3]
    unfold attachArr
    rw [hlen]
    congr 1
    apply modify_congr
    have : (((((h.modify value (fun r => { r with parent := some n, key := none })).modify n (fun r => { r with cache := none })).modify value
        (fun r => { r with index := some (h.childMap n).length })).get n).children) = some m := by
      rw [get_modify_other _ _ _ _ (Ne.symm hvn)]; exact hch3
    simp only [this, Option.getD_some]
  have hsb := struct_attachArr n value (hs.toBut n) hn hv hvn hroot harr
  have hany : ([value].any (fun c => h.isParentOrSelfNode n c)) = false := by simp [hloop]
  unfold Heap.appendArray
  simp only [hia, Bool.not_true, Bool.false_eq_true, if_false, hany, List.map_cons, List.map_nil, Heap.appendAll, e]
  exact ⟨hsb.mark (by simp [attachArr]; exact hn), trivial⟩

end Ajson.Proofs
