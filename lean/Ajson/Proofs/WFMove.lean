/-
Moving nodes: `remove` preserves every stable projection, detaches the node; `appendNode` on an attached node is `remove`
followed by `appendNode`; AppendArray of any node that passes the loop guard keeps invariant and acyclicity.
-/
import Ajson.Proofs.Acyclic
namespace Ajson.Proofs
open Ajson Ajson.Heap

/-- a projection of a node record that `remove` cannot change -/
structure Stable {α : Type} (π : NodeRec → α) : Prop where
  dirty : ∀ r b, π { r with dirty := b } = π r
  cache : ∀ r c, π { r with cache := c } = π r
  children : ∀ r c, π { r with children := c } = π r
  index : ∀ r i, π { r with index := i } = π r
  parent : ∀ r p, π { r with parent := p } = π r

theorem modify_proj {α : Type} (π : NodeRec → α) (X : Heap) (a m : Id) (f : NodeRec → NodeRec) (hf : ∀ r, π (f r) = π r) :
    π ((X.modify a f).get m) = π (X.get m) := by
  rw [get_modify]; split
  · rename_i hc; rw [hc.1]; exact hf _
  · rfl

theorem mark_proj {α : Type} {π : NodeRec → α} (st : Stable π) (h : Heap) (n m : Id) : π ((h.mark n).get m) = π (h.get m) := by
  rcases mark_get h n m with e | e <;> rw [e]
  exact st.dirty _ _

theorem diBody_proj {α : Type} {π : NodeRec → α} (st : Stable π) (H : Heap) (n : Id) (i : Nat) (m : Id) :
    π ((diBody H n i).get m) = π (H.get m) := by
  unfold diBody
  simp only []
  refine (modify_proj π _ _ _ _ ?_).trans ?_
  · intro r; exact st.children _ _
  cases (H.childMap n).lookup (itoa i) with
  | none => rfl
  | some cur =>
    simp only []
    refine (modify_proj π _ _ _ _ ?_).trans ?_
    · intro r; exact st.children _ _
    refine (modify_proj π _ _ _ _ ?_).trans ?_
    · intro r; exact st.index _ _
    rfl

theorem dropindexLoop_proj {α : Type} {π : NodeRec → α} (st : Stable π) : ∀ (fuel : Nat) (H : Heap) (n : Id) (i : Nat) (m : Id),
    π ((dropindexLoop fuel H n i).get m) = π (H.get m)
  | 0, H, n, i, m => rfl
  | fuel+1, H, n, i, m => by
    rw [dropindexLoop_succ]
    split
    · rw [dropindexLoop_proj st fuel _ n (i + 1) m, diBody_proj st]
    · rfl

theorem size_diBody (H : Heap) (n : Id) (i : Nat) : (diBody H n i).size = H.size := by
  unfold diBody
  simp only [size_modify]
  cases (H.childMap n).lookup (itoa i) <;> simp

theorem size_dropindexLoop : ∀ (fuel : Nat) (H : Heap) (n : Id) (i : Nat), (dropindexLoop fuel H n i).size = H.size
  | 0, H, n, i => rfl
  | fuel+1, H, n, i => by
    rw [dropindexLoop_succ]
    split
    · rw [size_dropindexLoop fuel _ n (i + 1), size_diBody]
    · rfl

/-- `remove` changes neither the number of nodes nor any stable projection (type, key, data, borders) of any record -/
theorem remove_proj {α : Type} {π : NodeRec → α} (st : Stable π) (h : Heap) (n value : Id) (m : Id) :
    π ((h.remove n value).1.get m) = π (h.get m) ∧ (h.remove n value).1.size = h.size := by
  have h2 : ∀ x : Id, π (((h.mark n).modify n (fun r => { r with cache := none })).get x) = π (h.get x) := by
    intro x
    refine (modify_proj π _ _ _ _ ?_).trans (mark_proj st h n x)
    intro r; exact st.cache _ _
  have hs2 : ((h.mark n).modify n (fun r => { r with cache := none })).size = h.size := by
    simp [Heap.mark, size_markAux]
  unfold Heap.remove
  split
  · exact ⟨rfl, rfl⟩
  · split
    · exact ⟨rfl, rfl⟩
    · simp only []
      split
      · split
        · exact ⟨h2 m, hs2⟩
        · simp only []
          constructor
          · refine (modify_proj π _ _ _ _ ?_).trans ?_
            · intro r; exact st.parent _ _
            unfold Heap.dropindex
            rw [dropindexLoop_proj st]
            refine (modify_proj π _ _ _ _ ?_).trans (h2 m)
            intro r; exact st.children _ _
          · unfold Heap.dropindex
            simp [size_dropindexLoop, hs2]
      · split
        · exact ⟨h2 m, hs2⟩
        · simp only []
          constructor
          · refine (modify_proj π _ _ _ _ ?_).trans ?_
            · intro r; exact st.parent _ _
            refine (modify_proj π _ _ _ _ ?_).trans (h2 m)
            intro r; exact st.children _ _
          · simp [hs2]

theorem stable_type : Stable (fun r : NodeRec => r.type) := ⟨fun _ _ => rfl, fun _ _ => rfl, fun _ _ => rfl, fun _ _ => rfl, fun _ _ => rfl⟩

/-- after a successful `remove` the removed node has no parent -/
theorem remove_detached (h : Heap) (n value : Id) (hv : (value : Nat) < h.size) (hok : (h.remove n value).2 = .ok ()) :
    ((h.remove n value).1.get value).parent = none := by
  have hs2 : ((h.mark n).modify n (fun r => { r with cache := none })).size = h.size := by
    simp [Heap.mark, size_markAux]
  unfold Heap.remove at hok ⊢
  split
  · rename_i hc; simp only [hc, if_true] at hok; cases hok
  · rename_i hc
    simp only [hc, if_false] at hok
    split
    · rename_i hc2; simp only [hc2, if_true] at hok; cases hok
    · rename_i hc2
      simp only [hc2, if_false] at hok ⊢
      split
      · rename_i hc3
        simp only [hc3, if_true] at hok
        split
        · rename_i hi; simp only [hi] at hok; cases hok
        · rw [get_modify]
          unfold Heap.dropindex
          simp [size_dropindexLoop, hs2, hv]
      · rename_i hc3
        simp only [hc3, if_false] at hok
        split
        · rename_i hi; simp only [hi] at hok; cases hok
        · rw [get_modify]; simp [hs2, hv]

theorem Acyc.no_self_parent {h : Heap} (ha : Acyc h) (n : Id) : (h.get n).parent ≠ some n := by
  intro hp
  exact ha n 0 (by simp [up, hp])

/-- one `appendNode(nil, value)` on an array for a detached `value` that passes the loop guard. The receiver may still be clean
afterwards (`StructBut`): the caller marks it. -/
theorem appendNode_array_detached {h : Heap} (hs : Struct h) (ha : Acyc h) (n value : Nat) (hn : n < h.size) (hv : value < h.size)
    (harr : (h.get n).type = .array) (hloop : h.isParentOrSelfNode n value = false) (hroot : (h.get value).parent = none) :
    (h.appendNode n none value).2 = .ok () ∧ StructBut (h.appendNode n none value).1 n ∧ Acyc (h.appendNode n none value).1 ∧
    (h.appendNode n none value).1.size = h.size ∧ (∀ m : Id, ((h.appendNode n none value).1.get m).type = (h.get m).type) := by
  have hno : ¬ Anc h value n := by
    intro hc
    have := (loop_guard_exact hs.pir ha n hn value).mpr hc
    rw [hloop] at this; cases this
  have hvn : value ≠ n := by intro e; subst e; exact hno (Anc.refl' h _)
  obtain ⟨m, hm⟩ := Option.isSome_iff_exists.mp (by have := (hs n hn).shape; rw [harr] at this; simpa [NType.isContainer] using this)
  have hlen : m.length = (h.childMap n).length := by unfold childMap; rw [hm]; rfl
  have e : h.appendNode n none value = (attachArr h n value, .ok ()) := by
    unfold Heap.appendNode
    simp only [hloop, Bool.false_eq_true, if_false, hroot]
    have hch3 : (((h.modify value (fun r => { r with parent := some n, key := none })).modify n (fun r => { r with cache := none })).get n).children
        = some m := by
      rw [get_modify]; simp only [size_modify, hn, and_self, if_true]
      rw [get_modify_other _ _ _ _ (Ne.symm hvn)]; exact hm
    simp only [hch3]
    unfold attachArr
    rw [hlen]
    congr 1
    apply modify_congr
    have : (((((h.modify value (fun r => { r with parent := some n, key := none })).modify n (fun r => { r with cache := none })).modify value
        (fun r => { r with index := some (h.childMap n).length })).get n).children) = some m := by
      rw [get_modify_other _ _ _ _ (Ne.symm hvn)]; exact hch3
    simp only [this, Option.getD_some]
  rw [e]
  refine ⟨rfl, struct_attachArr n value (hs.toBut n) hn hv hvn hroot harr, ?_, by simp [attachArr], ?_⟩
  · apply acyc_add_edge ha value n hno
    · intro x hx
      unfold attachArr
      refine (modify_parent_same _ _ _ _ ?_).trans ?_
      · exact fun _ => rfl
      rw [get_modify_other _ _ _ _ hx]
      refine (modify_parent_same _ _ _ _ ?_).trans ?_
      · exact fun _ => rfl
      rw [get_modify_other _ _ _ _ hx]
    · unfold attachArr
      refine (modify_parent_same _ _ _ _ ?_).trans ?_
      · exact fun _ => rfl
      refine (modify_parent_same _ _ _ _ ?_).trans ?_
      · exact fun _ => rfl
      refine (modify_parent_same _ _ _ _ ?_).trans ?_
      · exact fun _ => rfl
      rw [get_modify]; simp [hv]
  · intro x
    unfold attachArr
    refine (modify_proj (fun r => r.type) _ _ _ _ ?_).trans ?_
    · exact fun _ => rfl
    refine (modify_proj (fun r => r.type) _ _ _ _ ?_).trans ?_
    · exact fun _ => rfl
    refine (modify_proj (fun r => r.type) _ _ _ _ ?_).trans ?_
    · exact fun _ => rfl
    refine (modify_proj (fun r => r.type) _ _ _ _ ?_).trans ?_
    · exact fun _ => rfl
    rfl

/-- `appendNode` on an attached node is `remove` from its container followed by `appendNode` of the now detached node -/
theorem appendNode_of_attached {h : Heap} (hs : Struct h) (ha : Acyc h) (n value p : Nat) (hn : n < h.size) (hv : value < h.size)
    (hp : (h.get value).parent = some p) (key : Option Bytes) (hloop : h.isParentOrSelfNode n value = false) :
    h.appendNode n key value = (h.remove p value).1.appendNode n key value ∧
    Struct (h.remove p value).1 ∧ Acyc (h.remove p value).1 ∧ (h.remove p value).1.size = h.size ∧
    (∀ m : Id, ((h.remove p value).1.get m).type = (h.get m).type) ∧ ((h.remove p value).1.get value).parent = none ∧
    (h.remove p value).1.isParentOrSelfNode n value = false := by
  obtain ⟨r1, r2⟩ := struct_remove hs p value hv hp
  have ha1 := acyc_remove ha p value
  have hsz := (remove_proj stable_type h p value 0).2
  have hroot1 := remove_detached h p value hv r2
  have hno : ¬ Anc h value n := by
    intro hc
    have := (loop_guard_exact hs.pir ha n hn value).mpr hc
    rw [hloop] at this; cases this
  have hno1 : ¬ Anc (h.remove p value).1 value n := by
    rintro ⟨k, hk⟩
    exact hno ⟨k, up_of_parent_sub (remove_parent_sub h p value) n k value hk⟩
  have hloop1 : (h.remove p value).1.isParentOrSelfNode n value = false := by
    cases hl : (h.remove p value).1.isParentOrSelfNode n value with
    | false => rfl
    | true => exact absurd ((loop_guard_exact r1.pir ha1 n (by rw [hsz]; exact hn) value).mp hl) hno1
  refine ⟨?_, r1, ha1, hsz, fun m => (remove_proj stable_type h p value m).1, hroot1, hloop1⟩
  have hrm : h.remove p value = ((h.remove p value).1, Outcome.ok ()) := by rw [← r2]
  conv => lhs; unfold Heap.appendNode
  conv => rhs; unfold Heap.appendNode
  simp only [hloop, hloop1, Bool.false_eq_true, if_false, hp, hroot1]
  rw [hrm]

/-- one `appendNode(nil, value)` on an array: whatever `value` is attached to, it is moved to the end of `n` — provided the loop
guard lets it pass -/
theorem appendNode_array_step {h : Heap} (hs : Struct h) (ha : Acyc h) (n value : Nat) (hn : n < h.size) (hv : value < h.size)
    (harr : (h.get n).type = .array) (hloop : h.isParentOrSelfNode n value = false) :
    (h.appendNode n none value).2 = .ok () ∧ StructBut (h.appendNode n none value).1 n ∧ Acyc (h.appendNode n none value).1 ∧
    (h.appendNode n none value).1.size = h.size ∧ (∀ m : Id, ((h.appendNode n none value).1.get m).type = (h.get m).type) := by
  cases hp : (h.get value).parent with
  | none => exact appendNode_array_detached hs ha n value hn hv harr hloop hp
  | some p =>
    obtain ⟨e, r1, ha1, hsz, hty, hroot1, hloop1⟩ := appendNode_of_attached hs ha n value p hn hv hp none hloop
    rw [e]
    obtain ⟨a, b, c, d, f⟩ := appendNode_array_detached r1 ha1 n value (by rw [hsz]; exact hn) (by rw [hsz]; exact hv)
      (by rw [hty]; exact harr) hloop1 hroot1
    exact ⟨a, b, c, by rw [d, hsz], fun m => by rw [f, hty]⟩

/-- **AppendArray of any node** — detached or attached anywhere (then it is moved) — keeps the invariant and acyclicity, whenever the
loop guard lets it pass -/
theorem struct_appendArray_any {h : Heap} (hs : Struct h) (ha : Acyc h) (n value : Nat) (hn : n < h.size) (hv : value < h.size)
    (harr : (h.get n).type = .array) (hloop : h.isParentOrSelfNode n value = false) :
    (h.appendArray n [value]).2 = .ok () ∧ Struct (h.appendArray n [value]).1 ∧ Acyc (h.appendArray n [value]).1 := by
  obtain ⟨r1, r2, r3, r4, _⟩ := appendNode_array_step hs ha n value hn hv harr hloop
  have hia : h.isArray n = true := by simp [isArray, typeOf, harr]
  have hany : ([value].any (fun c => h.isParentOrSelfNode n c)) = false := by simp [hloop]
  unfold Heap.appendArray
  simp only [hia, Bool.not_true, Bool.false_eq_true, if_false, hany, List.map_cons, List.map_nil, Heap.appendAll]
  generalize h.appendNode n none value = res at r1 r2 r3 r4
  obtain ⟨h1, o⟩ := res
  simp only [] at r1; subst r1
  simp only []
  exact ⟨trivial, r2.mark (by rw [r4]; exact hn), acyc_mark r3 n⟩

end Ajson.Proofs
