/-
Deleting an element of an array preserves the structural invariant: the renumbering loop of `dropindex` is analysed with an
abstraction of the children map as a partial function from positions to nodes (`Encodes`, `shifted`).
-/
import Ajson.Proofs.WFInv
namespace Ajson.Proofs
open Ajson Ajson.Heap

theorem lookup_erase (m : ChildMap) (k k' : Bytes) : (m.erase k).lookup k' = if k == k' then none else m.lookup k' := by
  unfold ChildMap.erase ChildMap.lookup
  induction m with
  | nil => simp
  | cons p ps ih =>
    simp only [List.filter_cons]
    by_cases hpk : (p.1 == k) = true
    · have e : p.1 = k := by simpa using hpk
      simp only [hpk, Bool.not_true, Bool.false_eq_true, if_false, ih, List.find?_cons]
      by_cases hkk : (k == k') = true
      · simp [hkk]
      · have : (p.1 == k') = false := by rw [e]; simpa using hkk
        simp [hkk, this]
    · simp only [hpk, Bool.not_false, if_true, List.find?_cons]
      by_cases hpk' : (p.1 == k') = true
      · have hne : (k == k') = false := by
          have a : p.1 = k' := by simpa using hpk'
          have b : ¬ p.1 = k := by simpa using hpk
          apply beq_false_of_ne; intro e; exact b (by rw [a, e])
        simp [hpk', hne]
      · simp only [hpk']
        exact ih

theorem mem_of_lookup {m : ChildMap} {k : Bytes} {c : Id} (h : m.lookup k = some c) : (k, c) ∈ m := by
  unfold ChildMap.lookup at h
  rw [Option.map_eq_some_iff] at h
  obtain ⟨p, hf, he⟩ := h
  have hm := List.mem_of_find?_eq_some hf
  have hk := List.find?_some hf
  have : p.1 = k := by simpa using hk
  have : p = (k, c) := by cases p; simp_all
  rw [← this]; exact hm

theorem lookup_of_mem {m : ChildMap} (hn : m.keys.Nodup) {kc : Bytes × Id} (h : kc ∈ m) : m.lookup kc.1 = some kc.2 := by
  cases hl : m.lookup kc.1 with
  | none =>
    exfalso
    exact not_mem_keys_of_lookup_none m kc.1 hl (List.mem_map.mpr ⟨kc, h, rfl⟩)
  | some c =>
    have := keys_unique m hn (kc.1, c) kc (mem_of_lookup hl) h rfl
    rw [← this]

/-- the children map `m` of an array encodes the partial function `f` from positions to nodes -/
structure Encodes (m : ChildMap) (f : Nat → Option Id) : Prop where
  nodup : m.keys.Nodup
  look : ∀ t : Nat, m.lookup (itoa t) = f t
  keys : ∀ k ∈ m.keys, ∃ t : Nat, k = itoa t

def upd (f : Nat → Option Id) (t : Nat) (v : Option Id) : Nat → Option Id := fun s => if s = t then v else f s

theorem Encodes.insert {m : ChildMap} {f : Nat → Option Id} (e : Encodes m f) (t : Nat) (c : Id) (hf : f t = none) :
    Encodes (m.insert (itoa t) c) (upd f t (some c)) := by
  have hfresh : m.lookup (itoa t) = none := by rw [e.look t]; exact hf
  refine ⟨?_, ?_, ?_⟩
  · rw [keys_insert_fresh _ _ _ hfresh, List.nodup_append]
    refine ⟨e.nodup, by simp, ?_⟩
    intro a ha b hb hab
    have : b = itoa t := by simpa using hb
    subst this; subst hab
    exact not_mem_keys_of_lookup_none _ _ hfresh ha
  · intro s
    rw [lookup_insert]
    unfold upd
    by_cases hst : s = t
    · subst hst; simp
    · have : (itoa t == itoa s) = false := by apply beq_false_of_ne; intro e'; exact hst (itoa_inj e').symm
      simp [this, hst, e.look s]
  · intro k hk
    rw [keys_insert_fresh _ _ _ hfresh, List.mem_append] at hk
    rcases hk with hk | hk
    · exact e.keys k hk
    · exact ⟨t, by simpa using hk⟩

theorem Encodes.erase {m : ChildMap} {f : Nat → Option Id} (e : Encodes m f) (t : Nat) :
    Encodes (m.erase (itoa t)) (upd f t none) := by
  refine ⟨?_, ?_, ?_⟩
  · rw [keys_erase]; exact e.nodup.sublist List.filter_sublist
  · intro s
    rw [lookup_erase]
    unfold upd
    by_cases hst : s = t
    · subst hst; simp
    · have : (itoa t == itoa s) = false := by apply beq_false_of_ne; intro e'; exact hst (itoa_inj e').symm
      simp [this, hst, e.look s]
  · intro k hk
    rw [keys_erase] at hk
    exact e.keys k (List.mem_filter.mp hk).1

theorem array_keys_itoa (m : ChildMap) (hn : m.keys.Nodup) (hdense : ∀ i : Nat, i < m.length → (m.lookup (itoa i)).isSome = true) :
    ∀ k ∈ m.keys, ∃ t : Nat, t < m.length ∧ k = itoa t := by
  intro k hk
  by_cases hin : k ∈ (List.range m.length).map itoa
  · obtain ⟨t, ht, he⟩ := List.mem_map.mp hin
    exact ⟨t, List.mem_range.mp ht, he.symm⟩
  · exfalso
    have hnd : ((List.range m.length).map itoa ++ [k]).Nodup := by
      rw [List.nodup_append]
      refine ⟨range_itoa_nodup _, by simp, ?_⟩
      intro a ha b hb e
      have : b = k := by simpa using hb
      subst this; subst e
      exact hin ha
    have hsub : ∀ x ∈ (List.range m.length).map itoa ++ [k], x ∈ m.keys := by
      intro x hx
      rw [List.mem_append] at hx
      rcases hx with hx | hx
      · obtain ⟨i, hi, he⟩ := List.mem_map.mp hx
        subst he
        obtain ⟨c, hc⟩ := Option.isSome_iff_exists.mp (hdense i (List.mem_range.mp hi))
        exact mem_keys_of_lookup _ _ _ hc
      · have : x = k := by simpa using hx
        rw [this]; exact hk
    have := nodup_subset_length _ _ hnd hsub
    simp [ChildMap.keys] at this
    omega

/-- the positions of an array's children, as a function -/
def posOf (g : Heap) (n : Nat) : Nat → Option Id := fun t => (g.childMap n).lookup (itoa t)

theorem encodes_of_array {g : Heap} {n : Nat} (ok : NodeOK g n) (ha : (g.get n).type = .array) : Encodes (g.childMap n) (posOf g n) :=
  ⟨ok.nodup, fun _ => rfl, fun k hk => let ⟨t, _, he⟩ := array_keys_itoa _ ok.nodup (ok.dense ha) k hk; ⟨t, he⟩⟩

/-- positions during the renumbering loop of `dropindex(idx)`, when the loop is at `i` -/
def shifted (f : Nat → Option Id) (idx i : Nat) : Nat → Option Id :=
  fun t => if t < idx then f t else if t + 1 < i then f (t + 1) else if i ≤ t then f t else none

theorem shifted_start (f : Nat → Option Id) (idx : Nat) : shifted f idx (idx + 1) = upd f idx none := by
  funext t; unfold shifted upd
  by_cases h1 : t < idx
  · have : t ≠ idx := by omega
    simp [h1, this]
  · by_cases h2 : t = idx
    · subst h2; simp; omega
    · have a : ¬ t + 1 < idx + 1 := by omega
      have b : idx + 1 ≤ t := by omega
      simp [h1, a, b, h2]

theorem shifted_step (f : Nat → Option Id) (idx i : Nat) (hi : idx + 1 ≤ i) :
    shifted f idx (i + 1) = upd (upd (shifted f idx i) (i - 1) (shifted f idx i i)) i none := by
  funext t; unfold shifted upd
  by_cases h0 : t = i
  · subst h0
    have a : ¬ t < idx := by omega
    simp [a]; omega
  · by_cases h1 : t = i - 1
    · subst h1
      have a : ¬ (i - 1 < idx) := by omega
      have b : i - 1 + 1 < i + 1 := by omega
      have c : ¬ i < idx := by omega
      have d : ¬ i + 1 < i := by omega
      have e : i - 1 + 1 = i := by omega
      simp [h0, a, b, c, d, e]
    · simp only [h0, h1, if_false]
      by_cases h2 : t < idx
      · simp [h2]
      · simp only [h2, if_false]
        by_cases h3 : t + 1 < i
        · have : t + 1 < i + 1 := by omega
          simp [h3, this]
        · have a : ¬ t + 1 < i + 1 := by omega
          have b : i ≤ t := by omega
          have c : i + 1 ≤ t := by omega
          simp [h3, a, b, c]

theorem erase_length : ∀ (m : ChildMap) (k : Bytes), m.keys.Nodup → k ∈ m.keys → (m.erase k).length + 1 = m.length
  | [], k, _, hk => by cases hk
  | p :: ps, k, hn, hk => by
    simp only [ChildMap.keys, List.map_cons, List.nodup_cons] at hn
    unfold ChildMap.erase
    simp only [List.filter_cons]
    by_cases hpk : (p.1 == k) = true
    · have e : p.1 = k := by simpa using hpk
      simp only [hpk, Bool.not_true, Bool.false_eq_true, if_false, List.length_cons]
      have : List.filter (fun q => !(q.1 == k)) ps = ps := by
        apply List.filter_eq_self.mpr
        intro q hq
        have : q.1 ≠ k := by intro e'; exact hn.1 (List.mem_map.mpr ⟨q, hq, by rw [e', e]⟩)
        simpa using this
      rw [this]
    · simp only [hpk, Bool.not_false, if_true, List.length_cons]
      have hk' : k ∈ ChildMap.keys ps := by
        simp only [ChildMap.keys, List.map_cons, List.mem_cons] at hk
        rcases hk with hk | hk
        · exact absurd hk.symm (by simpa using hpk)
        · exact hk
      have := erase_length ps k hn.2 hk'
      unfold ChildMap.erase at this
      omega

/-- the state of the renumbering loop of `dropindex(idx)` at position `i`, relative to the heap `g` before the deletion -/
structure DI (g H : Heap) (n idx i : Nat) : Prop where
  size : H.size = g.size
  enc : Encodes (H.childMap n) (shifted (posOf g n) idx i)
  len : H.nchildren n + 1 = g.nchildren n
  nrec : (H.get n).parent = (g.get n).parent ∧ (H.get n).type = (g.get n).type ∧ (H.get n).key = (g.get n).key ∧
    (H.get n).index = (g.get n).index ∧ (H.get n).data = (g.get n).data ∧ (H.get n).b1 = (g.get n).b1 ∧
    (H.get n).dirty = (g.get n).dirty ∧ (H.get n).children.isSome = true
  other : ∀ x : Nat, x ≠ n → (∀ j : Nat, idx < j → j < i → posOf g n j ≠ some x) → H.get x = g.get x
  moved : ∀ (j : Nat) (x : Id), idx < j → j < i → posOf g n j = some x → H.get x = { g.get x with index := some (j - 1) }

/-- different positions of an array hold different nodes -/
theorem posOf_inj {g : Heap} {n : Nat} (ok : NodeOK g n) (ha : (g.get n).type = .array) (j j' : Nat) (x : Id)
    (h1 : posOf g n j = some x) (h2 : posOf g n j' = some x) : j = j' := by
  have a := (ok.kids _ (mem_of_lookup h1)).2.2.2
  have b := (ok.kids _ (mem_of_lookup h2)).2.2.2
  unfold PosOK at a b
  simp only [ha, if_true] at a b
  rw [a] at b
  exact itoa_inj (Option.some.inj b)

theorem posOf_kid {g : Heap} {n : Nat} (ok : NodeOK g n) (j : Nat) (x : Id) (h1 : posOf g n j = some x) :
    (x : Nat) < g.size ∧ (x : Nat) ≠ n ∧ (g.get x).parent = some n :=
  let r := ok.kids _ (mem_of_lookup h1); ⟨r.1, r.2.1, r.2.2.1⟩

/-- one iteration of the renumbering loop -/
def diBody (H : Heap) (n : Id) (i : Nat) : Heap :=
  let h1 := match (H.childMap n).lookup (itoa i) with
    | some cur =>
      (H.modify cur (fun r => { r with index := some (i - 1) })).modify n
        (fun r => { r with children := some ((r.children.getD []).insert (itoa (i - 1)) cur) })
    | none => H
  h1.modify n (fun r => { r with children := r.children.map (·.erase (itoa i)) })

theorem dropindexLoop_succ (fuel : Nat) (H : Heap) (n : Id) (i : Nat) :
    dropindexLoop (fuel + 1) H n i = if i ≤ H.nchildren n then dropindexLoop fuel (diBody H n i) n (i + 1) else H := by
  rfl

theorem DI.step {g H : Heap} {n idx i : Nat} (hs : Struct g) (hn : n < g.size) (ha : (g.get n).type = .array)
    (di : DI g H n idx i) (h1 : idx + 1 ≤ i) (h2 : i < g.nchildren n) : DI g (diBody H n i) n idx (i + 1) := by
  have okn := hs n hn
  -- the node at position i
  obtain ⟨cur, hcur⟩ := Option.isSome_iff_exists.mp (okn.dense ha i h2)
  have hpos : posOf g n i = some cur := hcur
  have hlook : (H.childMap n).lookup (itoa i) = some cur := by
    rw [di.enc.look i]; unfold shifted
    have a : ¬ i < idx := by omega
    have b : ¬ i + 1 < i := by omega
    simp [a, b, hpos]
  obtain ⟨k1, k2, k3⟩ := posOf_kid okn i cur hpos
  have hcurH : H.get cur = g.get cur := by
    apply di.other cur k2
    intro j hj1 hj2 hj
    have := posOf_inj okn ha j i cur hj hpos
    omega
  have hnH : n < H.size := by rw [di.size]; exact hn
  have hcH : (cur : Nat) < H.size := by rw [di.size]; exact k1
  have hfree : shifted (posOf g n) idx i (i - 1) = none := by
    unfold shifted
    have a : ¬ (i - 1 < idx) := by omega
    have b : ¬ (i - 1 + 1 < i) := by omega
    have c : ¬ (i ≤ i - 1) := by omega
    simp [a, b, c]
  have hsh : shifted (posOf g n) idx i i = some cur := by rw [← di.enc.look i]; exact hlook
  -- the heap after the body
  have hbody : diBody H n i = ((H.modify cur (fun r => { r with index := some (i - 1) })).modify n
        (fun r => { r with children := some ((r.children.getD []).insert (itoa (i - 1)) cur) })).modify n
        (fun r => { r with children := r.children.map (·.erase (itoa i)) }) := by
    unfold diBody; simp only [hlook]
  have hget : ∀ x : Nat, (diBody H n i).get x =
      if x = n then { H.get n with children := some (((H.childMap n).insert (itoa (i - 1)) cur).erase (itoa i)) }
      else if x = cur then { H.get cur with index := some (i - 1) } else H.get x := by
    intro x
    rw [hbody]
    by_cases hxn : x = n
    · subst hxn
      rw [get_modify]; simp only [size_modify, hnH, and_self, if_true]
      rw [get_modify]; simp only [size_modify, hnH, and_self, if_true]
      rw [get_modify_other _ _ _ _ (Ne.symm k2)]
      simp [childMap]
    · rw [get_modify_other _ _ _ _ hxn, get_modify_other _ _ _ _ hxn]
      simp only [hxn, if_false]
      by_cases hxc : x = cur
      · subst hxc; rw [get_modify]; simp [hcH]
      · rw [get_modify_other _ _ _ _ hxc]; simp [hxc]
  have hcmn : (diBody H n i).childMap n = ((H.childMap n).insert (itoa (i - 1)) cur).erase (itoa i) := by
    unfold childMap; rw [hget n]; simp [childMap]
  have henc : Encodes ((diBody H n i).childMap n) (shifted (posOf g n) idx (i + 1)) := by
    rw [hcmn, shifted_step _ _ _ h1, hsh]
    exact (di.enc.insert (i - 1) cur hfree).erase i
  refine ⟨by rw [hbody]; simp [di.size], henc, ?_, ?_, ?_, ?_⟩
  · -- the number of children is unchanged
    unfold nchildren
    rw [hcmn]
    have hfresh : (H.childMap n).lookup (itoa (i - 1)) = none := by rw [di.enc.look]; exact hfree
    have e1 := (di.enc.insert (i - 1) cur hfree)
    have hmem : itoa i ∈ ((H.childMap n).insert (itoa (i - 1)) cur).keys := by
      rw [keys_insert_fresh _ _ _ hfresh, List.mem_append]
      left; exact mem_keys_of_lookup _ _ _ hlook
    have := erase_length _ (itoa i) e1.nodup hmem
    rw [insert_fresh _ _ _ hfresh] at this ⊢
    simp only [List.length_append, List.length_cons, List.length_nil] at this
    have hl := di.len
    unfold nchildren at hl
    omega
  · rw [hget n]; simp only [if_true]
    exact ⟨di.nrec.1, di.nrec.2.1, di.nrec.2.2.1, di.nrec.2.2.2.1, di.nrec.2.2.2.2.1, di.nrec.2.2.2.2.2.1, di.nrec.2.2.2.2.2.2.1, rfl⟩
  · intro x hxn hx
    rw [hget x]; simp only [hxn, if_false]
    have hxc : x ≠ cur := by
      intro e; exact hx i (by omega) (by omega) (by rw [hpos, e])
    simp only [hxc, if_false]
    exact di.other x hxn (fun j a b => hx j a (by omega))
  · intro j x hj1 hj2 hjx
    have hxn : (x : Nat) ≠ n := (posOf_kid okn j x hjx).2.1
    rw [hget x]; simp only [hxn, if_false]
    by_cases hji : j = i
    · subst hji
      have : x = cur := by rw [hpos] at hjx; exact (Option.some.inj hjx).symm
      subst this
      simp only [if_true]; rw [hcurH]
    · have hxc : (x : Nat) ≠ cur := by
        intro e
        have := posOf_inj okn ha j i cur (by rw [hjx]; congr 1) hpos
        exact hji this
      simp only [hxc, if_false]
      exact di.moved j x hj1 (by omega) hjx

theorem dropindexLoop_di {g : Heap} {n idx : Nat} (hs : Struct g) (hn : n < g.size) (ha : (g.get n).type = .array) :
    ∀ (fuel : Nat) (H : Heap) (i : Nat), DI g H n idx i → idx + 1 ≤ i → i ≤ g.nchildren n → g.nchildren n ≤ fuel + i →
    DI g (dropindexLoop fuel H n i) n idx (g.nchildren n)
  | 0, H, i, di, _, h2, h3 => by
    have : i = g.nchildren n := by omega
    subst this; exact di
  | fuel+1, H, i, di, h1, h2, h3 => by
    rw [dropindexLoop_succ]
    have hl := di.len
    by_cases hc : i ≤ H.nchildren n
    · rw [if_pos hc]
      have hlt : i < g.nchildren n := by omega
      exact dropindexLoop_di hs hn ha fuel _ (i + 1) (di.step hs hn ha h1 hlt) (by omega) (by omega) (by omega)
    · rw [if_neg hc]
      have : i = g.nchildren n := by omega
      subst this; exact di

/-- the state in which `remove()` enters the renumbering loop -/
theorem di_init {g : Heap} {n idx : Nat} (hs : Struct g) (hn : n < g.size) (ha : (g.get n).type = .array) (hidx : idx < g.nchildren n) :
    DI g (g.modify n (fun r => { r with children := r.children.map (·.erase (itoa idx)) })) n idx (idx + 1) := by
  have okn := hs n hn
  obtain ⟨m, hm⟩ := Option.isSome_iff_exists.mp (by have := okn.shape; rw [ha] at this; simpa [NType.isContainer] using this)
  have hcm : g.childMap n = m := by unfold childMap; rw [hm]; rfl
  have hgetn : (g.modify n (fun r => { r with children := r.children.map (·.erase (itoa idx)) })).get n =
      { g.get n with children := some (m.erase (itoa idx)) } := by
    rw [get_modify]; simp [hn, hm]
  have hcmn : (g.modify n (fun r => { r with children := r.children.map (·.erase (itoa idx)) })).childMap n = (g.childMap n).erase (itoa idx) := by
    unfold childMap; rw [hgetn, hm]; rfl
  obtain ⟨c, hc⟩ := Option.isSome_iff_exists.mp (okn.dense ha idx hidx)
  refine ⟨by simp, ?_, ?_, ?_, ?_, ?_⟩
  · rw [hcmn, shifted_start]; exact (encodes_of_array okn ha).erase idx
  · unfold nchildren; rw [hcmn]
    exact erase_length _ _ okn.nodup (mem_keys_of_lookup _ _ _ hc)
  · rw [hgetn]; exact ⟨rfl, rfl, rfl, rfl, rfl, rfl, rfl, rfl⟩
  · intro x hx _; rw [get_modify_other _ _ _ _ hx]
  · intro j x h1 h2; omega

/-- every record after the loop agrees with the one before the deletion, except `children` of the array and `index` of the
children that moved down -/
theorem DI.fields {g H : Heap} {n idx i : Nat} (di : DI g H n idx i) (x : Nat) (hx : x ≠ n) :
    (H.get x).parent = (g.get x).parent ∧ (H.get x).children = (g.get x).children ∧ (H.get x).type = (g.get x).type ∧
    (H.get x).key = (g.get x).key ∧ (H.get x).data = (g.get x).data ∧ (H.get x).b1 = (g.get x).b1 ∧
    (H.get x).dirty = (g.get x).dirty ∧
    ((∀ j : Nat, idx < j → j < i → posOf g n j ≠ some x) → (H.get x).index = (g.get x).index) := by
  by_cases hm : ∃ j : Nat, idx < j ∧ j < i ∧ posOf g n j = some x
  · obtain ⟨j, h1, h2, h3⟩ := hm
    rw [di.moved j x h1 h2 h3]
    exact ⟨rfl, rfl, rfl, rfl, rfl, rfl, rfl, fun hno => absurd h3 (hno j h1 h2)⟩
  · have : ∀ j : Nat, idx < j → j < i → posOf g n j ≠ some x := fun j a b c => hm ⟨j, a, b, c⟩
    rw [di.other x hx this]
    exact ⟨rfl, rfl, rfl, rfl, rfl, rfl, rfl, fun _ => rfl⟩

theorem posOf_none_of_ge {g : Heap} {n : Nat} (ok : NodeOK g n) (ha : (g.get n).type = .array) (t : Nat) (ht : g.nchildren n ≤ t) :
    posOf g n t = none := by
  cases hp : posOf g n t with
  | none => rfl
  | some c =>
    exfalso
    obtain ⟨s, hs, he⟩ := array_keys_itoa _ ok.nodup (ok.dense ha) (itoa t) (mem_keys_of_lookup _ _ _ hp)
    have := itoa_inj he
    unfold nchildren at ht; omega

/-- **the heap after deleting an element of an array** (erase, renumber, detach) satisfies the invariant -/
theorem struct_after_dropindex {g H : Heap} {n idx : Nat} (hs : Struct g) (hn : n < g.size) (ha : (g.get n).type = .array)
    (hd : (g.get n).dirty = true) (value : Nat) (hval : posOf g n idx = some value) (hidx : idx < g.nchildren n)
    (di : DI g H n idx (g.nchildren n)) : Struct (H.modify value (fun r => { r with parent := none })) := by
  have okn := hs n hn
  obtain ⟨v1, v2, v3⟩ := posOf_kid okn idx value hval
  have hvH : value < H.size := by rw [di.size]; exact v1
  have hsize : (H.modify value (fun r => { r with parent := none })).size = g.size := by simp [di.size]
  -- records of the final heap
  have hgetv : (H.modify value (fun r => { r with parent := none })).get value = { H.get value with parent := none } := by
    rw [get_modify]; simp [hvH]
  have hgeto : ∀ x : Nat, x ≠ value → (H.modify value (fun r => { r with parent := none })).get x = H.get x :=
    fun x hx => get_modify_other _ _ _ _ hx
  have hcmF : ∀ x : Nat, (H.modify value (fun r => { r with parent := none })).childMap x = H.childMap x := by
    intro x; unfold childMap
    by_cases hx : x = value
    · subst hx; rw [hgetv]
    · rw [hgeto x hx]
  have hcmo : ∀ x : Nat, x ≠ n → H.childMap x = g.childMap x := by
    intro x hx; unfold childMap; rw [(di.fields x hx).2.1]
  -- fields of an arbitrary node of the final heap
  have hF : ∀ x : Nat, ((H.modify value (fun r => { r with parent := none })).get x).type = (g.get x).type ∧
      ((H.modify value (fun r => { r with parent := none })).get x).dirty = (g.get x).dirty ∧
      ((H.modify value (fun r => { r with parent := none })).get x).data = (g.get x).data ∧
      ((H.modify value (fun r => { r with parent := none })).get x).b1 = (g.get x).b1 ∧
      ((H.modify value (fun r => { r with parent := none })).get x).key = (g.get x).key ∧
      (x ≠ value → ((H.modify value (fun r => { r with parent := none })).get x).parent = (g.get x).parent) := by
    intro x
    by_cases hxn : x = n
    · subst hxn
      rw [hgeto x (Ne.symm v2)]
      exact ⟨di.nrec.2.1, di.nrec.2.2.2.2.2.2.1, di.nrec.2.2.2.2.1, di.nrec.2.2.2.2.2.1, di.nrec.2.2.1, fun _ => di.nrec.1⟩
    · obtain ⟨a, _, c, d, e, f, g', _⟩ := di.fields x hxn
      by_cases hxv : x = value
      · subst hxv; rw [hgetv]; exact ⟨c, g', e, f, d, fun h => absurd rfl h⟩
      · rw [hgeto x hxv]; exact ⟨c, g', e, f, d, fun _ => a⟩
  have hidxF : ∀ x : Nat, x ≠ n → (∀ j : Nat, idx < j → j < g.nchildren n → posOf g n j ≠ some x) →
      ((H.modify value (fun r => { r with parent := none })).get x).index = (g.get x).index := by
    intro x hxn hno
    by_cases hxv : x = value
    · subst hxv; rw [hgetv]; exact (di.fields x hxn).2.2.2.2.2.2.2 hno
    · rw [hgeto x hxv]; exact (di.fields x hxn).2.2.2.2.2.2.2 hno
  -- a child of a node other than n is not a child of n
  have hnotkid : ∀ p : Nat, p < g.size → p ≠ n → ∀ kc ∈ g.childMap p, ∀ j : Nat, posOf g n j ≠ some kc.2 := by
    intro p hp hpn kc hkc j hj
    have a := ((hs p hp).kids kc hkc).2.2.1
    have b := (posOf_kid okn j kc.2 hj).2.2
    rw [a] at b; exact hpn (Option.some.inj b)
  intro p hp
  rw [hsize] at hp
  have ok := hs p hp
  obtain ⟨f1, f2, f3, f4, f5, f6⟩ := hF p
  by_cases hpn : p = n
  · subst hpn
    -- what an entry of the new map is
    have hentry : ∀ kc ∈ H.childMap p, ∃ (t j : Nat), kc.1 = itoa t ∧ posOf g p j = some kc.2 ∧ j ≠ idx ∧ j < g.nchildren p ∧
        (t = j ∧ j < idx ∨ t + 1 = j ∧ idx < j) := by
      intro kc hkc
      obtain ⟨t, ht⟩ := di.enc.keys kc.1 (List.mem_map.mpr ⟨kc, hkc, rfl⟩)
      have hl := lookup_of_mem di.enc.nodup hkc
      rw [ht, di.enc.look t] at hl
      unfold shifted at hl
      by_cases h1 : t < idx
      · simp only [h1, if_true] at hl
        have hjl : t < g.nchildren p := by omega
        exact ⟨t, t, ht, hl, by omega, hjl, Or.inl ⟨rfl, h1⟩⟩
      · simp only [h1, if_false] at hl
        by_cases h2 : t + 1 < g.nchildren p
        · simp only [h2, if_true] at hl
          exact ⟨t, t + 1, ht, hl, by omega, h2, Or.inr ⟨rfl, by omega⟩⟩
        · simp only [h2, if_false] at hl
          by_cases h3 : g.nchildren p ≤ t
          · simp only [h3, if_true] at hl
            rw [posOf_none_of_ge ok ha t h3] at hl; cases hl
          · simp [h3] at hl
    refine ⟨?_, by rw [hcmF]; exact di.enc.nodup, ?_, ?_, ?_, ?_⟩
    · intro kc hkc
      rw [hcmF] at hkc
      obtain ⟨t, j, hk, hpos, hji, hjl, hcase⟩ := hentry kc hkc
      obtain ⟨k1, k2, k3⟩ := posOf_kid ok j kc.2 hpos
      have hkv : (kc.2 : Nat) ≠ value := by
        intro e
        have := posOf_inj ok ha j idx kc.2 hpos (by rw [hval, e])
        exact hji this
      refine ⟨by rw [hsize]; exact k1, k2, by rw [(hF kc.2).2.2.2.2.2 hkv]; exact k3, ?_⟩
      unfold PosOK
      rw [f1, ha]; simp only [if_true]
      have hgp := (ok.kids _ (mem_of_lookup hpos)).2.2.2
      unfold PosOK at hgp
      simp only [ha, if_true] at hgp
      rcases hcase with ⟨e1, e2⟩ | ⟨e1, e2⟩
      · -- not moved
        have : ((H.modify value (fun r => { r with parent := none })).get kc.2).index = (g.get kc.2).index := by
          apply hidxF kc.2 k2
          intro j' a b c
          have := posOf_inj ok ha j' j kc.2 c hpos
          omega
        rw [this, hgp, hk, e1]
      · -- moved down by one
        have hm := di.moved j kc.2 e2 hjl hpos
        rw [hgeto kc.2 hkv, hm, hk]
        have : j - 1 = t := by omega
        simp [this]
    · intro _ t ht
      rw [hcmF] at ht ⊢
      have hl := di.len
      unfold nchildren at hl
      rw [di.enc.look t]
      unfold shifted
      by_cases h1 : t < idx
      · simp only [h1, if_true]; exact ok.dense ha t (by unfold nchildren at hidx; omega)
      · have h2 : t + 1 < g.nchildren p := by unfold nchildren; omega
        simp only [h1, if_false, h2, if_true]; exact ok.dense ha (t + 1) h2
    · rw [f1, ha]; simp only [NType.isContainer, if_true]
      rw [hgeto p (Ne.symm v2)]; exact di.nrec.2.2.2.2.2.2.2
    · intro q hq
      rw [f6 (Ne.symm v2)] at hq
      obtain ⟨a, b, c, e⟩ := ok.par q hq
      have hqp : q ≠ p := by
        intro e'; subst e'
        obtain ⟨kc, hkc, he⟩ := List.mem_map.mp c
        exact (ok.kids kc hkc).2.1 he
      exact ⟨by rw [hsize]; exact a, by rw [(hF q).1]; exact b, by rw [hcmF, hcmo q hqp]; exact c,
        by rw [f2, (hF q).2.1]; exact e⟩
    · intro hcl; rw [f2, hd] at hcl; cases hcl
  · have hcm : (H.modify value (fun r => { r with parent := none })).childMap p = g.childMap p := by rw [hcmF, hcmo p hpn]
    have hchild : ((H.modify value (fun r => { r with parent := none })).get p).children = (g.get p).children := by
      by_cases hpv : p = value
      · subst hpv; rw [hgetv]; exact (di.fields p hpn).2.1
      · rw [hgeto p hpv]; exact (di.fields p hpn).2.1
    refine ⟨?_, by rw [hcm]; exact ok.nodup, by rw [hcm, f1]; exact ok.dense, by rw [hcm, f1, hchild]; exact ok.shape, ?_, ?_⟩
    · intro kc hkc
      rw [hcm] at hkc
      obtain ⟨a, b, c, e⟩ := ok.kids kc hkc
      have hno := hnotkid p hp hpn kc hkc
      have hkv : (kc.2 : Nat) ≠ value := by intro e'; exact hno idx (by rw [hval, e'])
      refine ⟨by rw [hsize]; exact a, b, by rw [(hF kc.2).2.2.2.2.2 hkv]; exact c, ?_⟩
      unfold PosOK at e ⊢
      rw [f1, (hF kc.2).2.2.2.2.1]
      by_cases hkn : (kc.2 : Nat) = n
      · have : ((H.modify value (fun r => { r with parent := none })).get kc.2).index = (g.get kc.2).index := by
          rw [hkn, hgeto n (Ne.symm v2)]; exact di.nrec.2.2.2.1
        rw [this]; exact e
      · rw [hidxF kc.2 hkn (fun j _ _ => hno j)]; exact e
    · intro q hq
      by_cases hpv : p = value
      · subst hpv; rw [hgetv] at hq; cases hq
      · rw [f6 hpv] at hq
        obtain ⟨a, b, c, e⟩ := ok.par q hq
        refine ⟨by rw [hsize]; exact a, by rw [(hF q).1]; exact b, ?_, by rw [f2, (hF q).2.1]; exact e⟩
        by_cases hqn : q = n
        · subst hqn
          -- p is a child of the array other than `value`: it is still listed, possibly one position lower
          rw [hcmF]
          obtain ⟨kc, hkc, he⟩ := List.mem_map.mp c
          obtain ⟨j, hj, hkj⟩ := array_keys_itoa _ okn.nodup (okn.dense ha) kc.1 (List.mem_map.mpr ⟨kc, hkc, rfl⟩)
          have hposj : posOf g q j = some p := by
            unfold posOf; rw [← hkj, lookup_of_mem okn.nodup hkc, he]
          have hji : j ≠ idx := by
            intro e'; subst e'; rw [hval] at hposj; exact hpv (Option.some.inj hposj).symm
          by_cases hlt : j < idx
          · have : (H.childMap q).lookup (itoa j) = some (p : Id) := by
              rw [di.enc.look j]; unfold shifted; simp [hlt, hposj]
            exact List.mem_map.mpr ⟨_, mem_of_lookup this, rfl⟩
          · have h1 : ¬ (j - 1 < idx) := by omega
            have h2 : j - 1 + 1 < g.nchildren q := by unfold nchildren; omega
            have h3 : j - 1 + 1 = j := by omega
            have : (H.childMap q).lookup (itoa (j - 1)) = some (p : Id) := by
              have hjl : j < g.nchildren q := by unfold nchildren; omega
              rw [di.enc.look (j - 1)]; unfold shifted; simp only [h1, if_false, h2, if_true, h3, hposj, hjl]
            exact List.mem_map.mpr ⟨_, mem_of_lookup this, rfl⟩
        · rw [hcmF, hcmo q hqn]; exact c
    · intro hcl
      rw [f2] at hcl
      obtain ⟨a, b, c⟩ := ok.clean hcl
      refine ⟨by rw [f3]; exact a, by rw [f4]; exact b, ?_⟩
      intro kc hkc
      rw [hcm] at hkc
      rw [(hF kc.2).2.1]; exact c kc hkc

/-- **deleting an element of an array preserves the invariant** (`remove`, hence DeleteNode / DeleteIndex / PopIndex / Delete on
an element): the element is detached, the later elements move down by one, keys and indexes stay "0" … "n-2" -/
theorem struct_remove_array {h : Heap} (hs : Struct h) (n value : Nat) (hv : value < h.size)
    (hpar : (h.get value).parent = some n) (harr : (h.get n).type = .array) :
    Struct (h.remove n value).1 ∧ (h.remove n value).2 = .ok () := by
  have okv := hs value hv
  obtain ⟨hn, hcont, hmem, _⟩ := okv.par n hpar
  have hm := hs.mark n hn
  have hdn : ((h.mark n).get n).dirty = true := mark_self_dirty h n hn
  -- g: the heap after mark and the cache reset
  have hsg : Struct ((h.mark n).modify n (fun r => { r with cache := none })) :=
    struct_modify_irrelevant hm.1 n _ (fun r => ⟨rfl, rfl, rfl, rfl, rfl, rfl, rfl, rfl⟩)
  generalize hg : (h.mark n).modify n (fun r => { r with cache := none }) = g at hsg
  have hgf : ∀ m : Nat, (g.get m).parent = (h.get m).parent ∧ (g.get m).type = (h.get m).type ∧ (g.get m).index = (h.get m).index ∧
      (g.get m).children = (h.get m).children := by
    intro m
    obtain ⟨a, b, c, _, e, _⟩ := hm.2.fields m
    rw [← hg, get_modify]; split
    · rename_i hc; rw [hc.1]; exact ⟨(hm.2.fields n).1, (hm.2.fields n).2.2.1, (hm.2.fields n).2.2.2.2.1, (hm.2.fields n).2.1⟩
    · exact ⟨a, c, e, b⟩
  have hgd : (g.get n).dirty = true := by rw [← hg, get_modify]; simp [hm.2.1, hn, hdn]
  have hgsize : g.size = h.size := by rw [← hg]; simp [hm.2.1]
  have hng : n < g.size := by rw [hgsize]; exact hn
  have hag : (g.get n).type = .array := by rw [(hgf n).2.1]; exact harr
  have okn := hsg n hng
  -- the entry of `value`
  have hmemg : (value : Id) ∈ (g.childMap n).vals := by unfold childMap; rw [(hgf n).2.2.2]; exact hmem
  obtain ⟨kc0, hkc0, he0⟩ := List.mem_map.mp hmemg
  have hp0 := (okn.kids kc0 hkc0).2.2.2
  unfold PosOK at hp0
  simp only [hag, if_true, he0] at hp0
  cases hidxv : (g.get value).index with
  | none => rw [hidxv] at hp0; cases hp0
  | some idx =>
    rw [hidxv] at hp0
    have hk0 : kc0.1 = itoa idx := by simpa using hp0.symm
    have hval : posOf g n idx = some (value : Id) := by
      unfold posOf; rw [← hk0, lookup_of_mem okn.nodup hkc0, he0]
    have hidxL : idx < g.nchildren n := by
      obtain ⟨t, ht, he⟩ := array_keys_itoa _ okn.nodup (okn.dense hag) kc0.1 (List.mem_map.mpr ⟨kc0, hkc0, rfl⟩)
      rw [hk0] at he
      have := itoa_inj he
      unfold nchildren; omega
    have di0 := di_init hsg hng hag hidxL
    have hfuel : (g.modify n (fun r => { r with children := r.children.map (·.erase (itoa idx)) })).nchildren n + 1 = g.nchildren n := di0.len
    have diL := dropindexLoop_di hsg hng hag (g.nchildren n) _ (idx + 1) di0 (Nat.le_refl _) hidxL (by omega)
    have key := struct_after_dropindex hsg hng hag hgd value hval hidxL diL
    have hic : h.isContainer n = true := by simpa [isContainer, typeOf] using hcont
    have hia : g.isArray n = true := by simp [isArray, typeOf, hag]
    have hpe : ((h.get value).parent != some n) = false := by simp [hpar]
    have e : h.remove n value = ((dropindexLoop (g.nchildren n) (g.modify n (fun r => { r with children := r.children.map (·.erase (itoa idx)) })) n (idx + 1)).modify
        value (fun r => { r with parent := none }), .ok ()) := by
      unfold Heap.remove
      simp only [hic, Bool.not_true, Bool.false_eq_true, if_false, hpe, hg, hia, if_true, hidxv]
      unfold Heap.dropindex
      rw [hfuel]
    rw [e]; exact ⟨key, rfl⟩

/-- **`remove` preserves the invariant**, whatever the container -/
theorem struct_remove {h : Heap} (hs : Struct h) (n value : Nat) (hv : value < h.size) (hpar : (h.get value).parent = some n) :
    Struct (h.remove n value).1 ∧ (h.remove n value).2 = .ok () := by
  obtain ⟨hn, hcont, _, _⟩ := (hs value hv).par n hpar
  cases ht : (h.get n).type with
  | array => exact struct_remove_array hs n value hv hpar ht
  | object => exact struct_remove_object hs n value hv hpar ht
  | null => rw [ht] at hcont; cases hcont
  | numeric => rw [ht] at hcont; cases hcont
  | string => rw [ht] at hcont; cases hcont
  | bool => rw [ht] at hcont; cases hcont

theorem getKey_child {h : Heap} {n : Nat} {key : Bytes} {c : Id} (hg : h.getKey (some n) key = .ok c) :
    ∃ k, (h.childMap n).lookup k = some c := by
  unfold Heap.getKey at hg
  simp only [] at hg
  by_cases ht : (h.typeOf n != .object) = true
  · rw [if_pos ht] at hg; cases hg
  · rw [if_neg ht] at hg
    cases hl : (h.childMap n).lookup key with
    | none => rw [hl] at hg; cases hg
    | some c' => rw [hl] at hg; simp only [Outcome.ok.injEq] at hg; subst hg; exact ⟨key, hl⟩

theorem getIndex_child {h : Heap} {n : Nat} {i : Int} {c : Id} (hg : h.getIndex (some n) i = .ok c) :
    ∃ k, (h.childMap n).lookup k = some c := by
  unfold Heap.getIndex at hg
  simp only [] at hg
  by_cases ht : (h.typeOf n != .array) = true
  · rw [if_pos ht] at hg; cases hg
  · rw [if_neg ht] at hg
    by_cases hneg : (if i < 0 then i + Int.ofNat (h.nchildren n) else i) < 0
    · rw [if_pos hneg] at hg; cases hg
    · rw [if_neg hneg] at hg
      cases hl : (h.childMap n).lookup (itoa (if i < 0 then i + Int.ofNat (h.nchildren n) else i).toNat) with
      | none => rw [hl] at hg; cases hg
      | some c' => rw [hl] at hg; simp only [Outcome.ok.injEq] at hg; subst hg; exact ⟨_, hl⟩

theorem pop_fst (r : Heap × Outcome Unit) (c : Id) :
    (match r with
      | (h1, .ok ()) => ((h1, Outcome.ok c) : Heap × Outcome Id)
      | (h1, .err e) => (h1, .err e)
      | (h1, .panic s) => (h1, .panic s)).1 = r.1 := by
  obtain ⟨h1, o⟩ := r
  cases o <;> rfl

/-- DeleteKey / PopKey -/
theorem struct_popKey {h : Heap} (hs : Struct h) (n : Nat) (hn : n < h.size) (key : Bytes) :
    Struct (h.popKey (some n) key).1 := by
  unfold Heap.popKey
  cases hg : h.getKey (some n) key with
  | err e => exact hs
  | panic s => exact hs
  | ok c =>
    simp only []
    obtain ⟨k, hl⟩ := getKey_child hg
    obtain ⟨a, _, c'', _⟩ := (hs n hn).kids _ (mem_of_lookup hl)
    obtain ⟨r1, r2⟩ := struct_remove hs n c a c''
    generalize h.remove n c = res at r1 r2 ⊢
    obtain ⟨h1, o⟩ := res
    simp only [] at r2; subst r2; exact r1

/-- DeleteIndex / PopIndex -/
theorem struct_popIndex {h : Heap} (hs : Struct h) (n : Nat) (hn : n < h.size) (i : Int) :
    Struct (h.popIndex (some n) i).1 := by
  unfold Heap.popIndex
  cases hg : h.getIndex (some n) i with
  | err e => exact hs
  | panic s => exact hs
  | ok c =>
    simp only []
    obtain ⟨k, hl⟩ := getIndex_child hg
    obtain ⟨a, _, c'', _⟩ := (hs n hn).kids _ (mem_of_lookup hl)
    obtain ⟨r1, r2⟩ := struct_remove hs n c a c''
    generalize h.remove n c = res at r1 r2 ⊢
    obtain ⟨h1, o⟩ := res
    simp only [] at r2; subst r2; exact r1

/-- Delete() -/
theorem struct_delete {h : Heap} (hs : Struct h) (n : Nat) (hn : n < h.size) : Struct (h.delete n).1 := by
  unfold Heap.delete
  cases hp : (h.get n).parent with
  | none => exact hs
  | some p => exact (struct_remove hs p n hn hp).1

end Ajson.Proofs
