/-
`word()` agrees with the literal check of the grammar.
-/
import Ajson.Proofs.TableRows
namespace Ajson.Proofs
open Ajson Ajson.Spec

/-- `word()` agrees with the literal check of the grammar: it stops ON the last byte of the literal -/
theorem word_equiv : ∀ (w rest : Bytes) (i : Nat), w ≠ [] →
    match expectWord w rest i with
    | .ok (r, j) => ∃ b, wordLoop w rest i = .ok (b :: r, j - 1) ∧ i + 1 ≤ j
    | .error _ => ∃ e, wordLoop w rest i = .error e
  | [], _, _, h => absurd rfl h
  | [w], [], i, _ => by simp [expectWord, wordLoop]
  | [w], b :: bs, i, _ => by
    simp only [expectWord, wordLoop]
    by_cases h : b = w
    · subst h; simp [expectWord]
    · simp [h]
  | w :: w2 :: ws, [], i, _ => by simp [expectWord, wordLoop]
  | w :: w2 :: ws, b :: bs, i, _ => by
    simp only [expectWord, wordLoop]
    by_cases h : b = w
    · subst h
      simp only [beq_self_eq_true, if_true, bne_self_eq_false, Bool.false_eq_true, if_false]
      have := word_equiv (w2 :: ws) bs (i + 1) (by simp)
      cases he : expectWord (w2 :: ws) bs (i + 1) with
      | ok v =>
        obtain ⟨r, j⟩ := v
        rw [he] at this
        obtain ⟨b', hb, hj⟩ := this
        exact ⟨b', hb, by omega⟩
      | error e => rw [he] at this; exact this
    · simp [h]

end Ajson.Proofs
