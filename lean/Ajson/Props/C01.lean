/-
C01 — the parser accepts exactly the RFC 8259 JSON texts.
Property theorems only; helper lemmas live in `Ajson/Proofs`.

Main theorem: `C01_accepts_exactly` — for EVERY byte string, the model of `Unmarshal` (the table-driven loop over the
regenerated transition table, the sub-scanners, `newNode` on the heap, the end-of-input test) returns a tree iff the
table-free reference parser `Spec.parseRef`, written from the RFC 8259 grammar, accepts it: one value with optional surrounding
whitespace and nothing after it. The proof is an induction along the reference parser: each token is matched by a step of the
loop (Proofs/DecodeSim), each way of failing by a failing or non-accepting run (Proofs/DecodeErrSteps, DecodeSound); the
string, number and literal scanners of the table are proved equal to the grammar's scanners (Proofs/StringEquiv, NumberEquiv,
WordEquiv) from closed forms of the table rows that are re-proved against the current source on every run (Proofs/TableRows).
Not proved: that the error *offset* is the first offending byte (the `ref` probe stream compares it on every short string).
-/
import Ajson.Proofs.DecodeSound

namespace Ajson.Props.C01
open Ajson Ajson.Spec Ajson.Proofs

/-- **acceptance**: `Unmarshal` returns a tree for exactly the complete RFC 8259 JSON texts -/
theorem C01_accepts_exactly (data : Bytes) : (∃ h r, unmarshal data = .ok (h, r)) ↔ (∃ v, parseRef data = .ok v) :=
  unmarshal_accepts_iff data

/-- the same on any heap whose ids are ordered (every heap a session can reach by parsing), i.e. for `Unmarshal` called while other
documents exist: completeness … -/
theorem C01_complete_on_heap (h : Heap) (ho : HeapOrd h) (data : Bytes) (v : STree) (hp : parseRef data = .ok v) :
    ∃ h' r, unmarshalIn h data = .ok (h', r) := unmarshalIn_complete h ho data v hp

/-- … and soundness -/
theorem C01_sound_on_heap (h : Heap) (ho : HeapOrd h) (data : Bytes) (h' : Heap) (r : Id) (hu : unmarshalIn h data = .ok (h', r)) :
    ∃ v, parseRef data = .ok v := unmarshalIn_sound h ho data h' r hu

/-- the table-driven string scanner agrees with the string grammar: same verdict, same closing quote, same error position -/
theorem C01_string_scanner (σ : Int) (r : Bytes) (i : Nat) (h : nextSt σ 34 = Gen.sST) :
    match scanStringBody r (i + 1) with
    | .ok (r1, j) => stringLoop false (34 :: r) i σ = .ok ⟨34 :: r1, j - 1, -4, Gen.sST⟩ ∧ i + 2 ≤ j
    | .error e => stringLoop false (34 :: r) i σ = .error (strErr r (i + 1) e) := string_scanner_equiv σ r i h

/-- the table-driven number scanner stops exactly where the longest RFC 8259 number ends (when what follows may follow a
value) and fails otherwise -/
theorem C01_number_scanner (σ : Int) (c : UInt8) (bs : Bytes) (i : Nat) (hc : (c == 45 || isDigit c) = true)
    (hσ : nextSt σ c = valueStart c) : NL σ (c :: bs) i = expect (scanNumber (c :: bs) i) :=
  number_scanner_equiv σ c bs i hc hσ

/-- non-vacuity: the reference parser accepts and rejects what it should (kernel evaluation) -/
example : (parseRef "{\"a\":[1,2.5e-3,\"x\\u00e9\",true,null]} ".toUTF8.toList).toOption.isSome = true ∧
    (parseRef "[],0".toUTF8.toList).toOption.isSome = false ∧ (parseRef "01".toUTF8.toList).toOption.isSome = false := by decide +kernel

/-! ### Facts about the regenerated tables (re-proved on every run against the current source) -/

/-- the transition table is 31 × 31 -/
theorem stt_dims : Gen.stt.length = 31 ∧ Gen.stt.all (fun r => r.length == 31) = true := by decide +kernel

/-- every cell is a state 0..30, the error marker -1, or one of the seven action codes -/
theorem stt_cells : Gen.stt.all (fun r => r.all (fun x => (-1 ≤ x && x ≤ 30) ||
    x == Gen.acl || x == Gen.acm || x == Gen.abo || x == Gen.aco || x == Gen.abc || x == Gen.acc || x == Gen.aec || x == -4)) = true := by
  decide +kernel

/-- both class tables have 128 entries, each a class 0..30 or -1 -/
theorem class_tables :
    Gen.asciiClasses.length = 128 ∧ Gen.quoteAsciiClasses.length = 128 ∧
    Gen.asciiClasses.all (fun x => -1 ≤ x && x ≤ 30) = true ∧
    Gen.quoteAsciiClasses.all (fun x => -1 ≤ x && x ≤ 30) = true := by decide +kernel

/-- `classOf` never leaves the table's column range -/
theorem classOf_range (single : Bool) : ∀ n, n < 256 → -1 ≤ classOf single n.toUInt8 ∧ classOf single n.toUInt8 ≤ 30 := by
  cases single <;> decide +kernel

/-- The structural rows of the automaton, as the decoder's main loop uses them: which classes are not an
error in each of the seven token-level states, and what they lead to. A changed cell breaks one of these. -/
theorem row_GO : (List.range 31).map (fun (c : Nat) => sttAt Gen.sGO (Int.ofNat c)) =
    [Gen.sGO, Gen.sGO, Gen.aco, -1, Gen.abo, -1, -1, -1, Gen.sST, -1, -1, -1, Gen.sMI, -1, Gen.sZE, Gen.sIN,
     -1, -1, -1, -1, -1, Gen.sF1, -1, Gen.sN1, -1, -1, Gen.sT1, -1, -1, -1, -1] := by decide +kernel
theorem row_VA : (List.range 31).map (fun (c : Nat) => sttAt Gen.sVA (Int.ofNat c)) =
    [Gen.sVA, Gen.sVA, Gen.aco, -1, Gen.abo, -1, -1, -1, Gen.sST, -1, -1, -1, Gen.sMI, -1, Gen.sZE, Gen.sIN,
     -1, -1, -1, -1, -1, Gen.sF1, -1, Gen.sN1, -1, -1, Gen.sT1, -1, -1, -1, -1] := by decide +kernel
theorem row_AR : (List.range 31).map (fun (c : Nat) => sttAt Gen.sAR (Int.ofNat c)) =
    [Gen.sAR, Gen.sAR, Gen.aco, -1, Gen.abo, Gen.abc, -1, -1, Gen.sST, -1, -1, -1, Gen.sMI, -1, Gen.sZE, Gen.sIN,
     -1, -1, -1, -1, -1, Gen.sF1, -1, Gen.sN1, -1, -1, Gen.sT1, -1, -1, -1, -1] := by decide +kernel
theorem row_OK : (List.range 31).map (fun (c : Nat) => sttAt Gen.sOK (Int.ofNat c)) =
    [Gen.sOK, Gen.sOK, -1, Gen.acc, -1, Gen.abc, -1, Gen.acm, -1, -1, -1, -1, -1, -1, -1, -1,
     -1, -1, -1, -1, -1, -1, -1, -1, -1, -1, -1, -1, -1, -1, -1] := by decide +kernel
theorem row_OB : (List.range 31).map (fun (c : Nat) => sttAt Gen.sOB (Int.ofNat c)) =
    [Gen.sOB, Gen.sOB, -1, Gen.aec, -1, -1, -1, -1, Gen.sST, -1, -1, -1, -1, -1, -1, -1,
     -1, -1, -1, -1, -1, -1, -1, -1, -1, -1, -1, -1, -1, -1, -1] := by decide +kernel
theorem row_KE : (List.range 31).map (fun (c : Nat) => sttAt Gen.sKE (Int.ofNat c)) =
    [Gen.sKE, Gen.sKE, -1, -1, -1, -1, -1, -1, Gen.sST, -1, -1, -1, -1, -1, -1, -1,
     -1, -1, -1, -1, -1, -1, -1, -1, -1, -1, -1, -1, -1, -1, -1] := by decide +kernel
theorem row_CO : (List.range 31).map (fun (c : Nat) => sttAt Gen.sCO (Int.ofNat c)) =
    [Gen.sCO, Gen.sCO, -1, -1, -1, -1, Gen.acl, -1, -1, -1, -1, -1, -1, -1, -1, -1,
     -1, -1, -1, -1, -1, -1, -1, -1, -1, -1, -1, -1, -1, -1, -1] := by decide +kernel

/-- "Every other input yields an error and no tree": by the result type, an error carries no heap. -/
theorem C01_no_tree_on_error (bs : Bytes) (e : PErr) :
    unmarshal bs = .error e → ∀ h r, unmarshal bs ≠ .ok (h, r) := by
  intro he h r hc; rw [he] at hc; cases hc

/-- empty and all-whitespace inputs are rejected with an end-of-input error at the end -/
theorem C01_blank_rejected (bs : Bytes) (hws : (skipWs bs 0).1 = []) :
    unmarshal bs = .error (eofErr (skipWs bs 0).2) := by
  unfold unmarshal unmarshalIn
  simp only [Heap.addData]
  generalize hsk : skipWs bs 0 = p at hws
  obtain ⟨r, i⟩ := p
  simp at hws
  subst hws
  rfl

/-- witnesses on the model (kernel evaluation): the former defect D1 (`[],0`) and friends are rejected at the comma -/
def errOf {α : Type} : Except PErr α → Option PErr
  | .error e => some e
  | .ok _ => none
example : errOf (unmarshal "[],0".toUTF8.toList) = some ⟨.wrongSymbol, 2, 44⟩ := by decide +kernel
example : errOf (unmarshal "[1],[2".toUTF8.toList) = some ⟨.wrongSymbol, 3, 44⟩ := by decide +kernel
example : errOf (unmarshal "{\"a\":1},\"b\":2".toUTF8.toList) = some ⟨.wrongSymbol, 7, 44⟩ := by decide +kernel
example : (unmarshal "{\"a\":[1,2]} ".toUTF8.toList).toOption.isSome = true := by decide +kernel

end Ajson.Props.C01
