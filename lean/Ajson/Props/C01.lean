/-
C01 — the parser accepts exactly the RFC 8259 JSON texts.
Property theorems only; helper lemmas live in `Ajson/Proofs`.
-/
import Ajson.Model.Decode
import Ajson.Spec.Ref

namespace Ajson.Props.C01
open Ajson

/-! ### Facts about the regenerated tables (re-proved on every run against the current source) -/

/-- the transition table is 31 × 31 -/
theorem stt_dims : Gen.stt.length = 31 ∧ Gen.stt.all (fun r => r.length == 31) = true := by decide +kernel

/-- every cell is a state 0..30, the error marker -1, or one of the seven action codes -/
theorem stt_cells : Gen.stt.all (fun r => r.all (fun x => (-1 ≤ x && x ≤ 30) ||
    x == Gen.acl || x == Gen.acm || x == Gen.abo || x == Gen.aco || x == Gen.abc || x == Gen.acc || x == Gen.aec || x == -4)) = true := by
  decide +kernel

/-- both class tables have 128 entries, each a class 0..30 or -1 -/
theorem class_tables :
    Gen.asciiClasses.length = 128 ∧ Gen.quoteAsciiClasses.length = 128 ∧
    Gen.asciiClasses.all (fun x => -1 ≤ x && x ≤ 30) = true ∧
    Gen.quoteAsciiClasses.all (fun x => -1 ≤ x && x ≤ 30) = true := by decide +kernel

/-- `classOf` never leaves the table's column range -/
theorem classOf_range (single : Bool) : ∀ n, n < 256 → -1 ≤ classOf single n.toUInt8 ∧ classOf single n.toUInt8 ≤ 30 := by
  cases single <;> decide +kernel

/-- The structural rows of the automaton, as the decoder's main loop uses them: which classes are not an
error in each of the seven token-level states, and what they lead to. A changed cell breaks one of these. -/
theorem row_GO : (List.range 31).map (fun (c : Nat) => sttAt Gen.sGO (Int.ofNat c)) =
    [Gen.sGO, Gen.sGO, Gen.aco, -1, Gen.abo, -1, -1, -1, Gen.sST, -1, -1, -1, Gen.sMI, -1, Gen.sZE, Gen.sIN,
     -1, -1, -1, -1, -1, Gen.sF1, -1, Gen.sN1, -1, -1, Gen.sT1, -1, -1, -1, -1] := by decide +kernel
theorem row_VA : (List.range 31).map (fun (c : Nat) => sttAt Gen.sVA (Int.ofNat c)) =
    [Gen.sVA, Gen.sVA, Gen.aco, -1, Gen.abo, -1, -1, -1, Gen.sST, -1, -1, -1, Gen.sMI, -1, Gen.sZE, Gen.sIN,
     -1, -1, -1, -1, -1, Gen.sF1, -1, Gen.sN1, -1, -1, Gen.sT1, -1, -1, -1, -1] := by decide +kernel
theorem row_AR : (List.range 31).map (fun (c : Nat) => sttAt Gen.sAR (Int.ofNat c)) =
    [Gen.sAR, Gen.sAR, Gen.aco, -1, Gen.abo, Gen.abc, -1, -1, Gen.sST, -1, -1, -1, Gen.sMI, -1, Gen.sZE, Gen.sIN,
     -1, -1, -1, -1, -1, Gen.sF1, -1, Gen.sN1, -1, -1, Gen.sT1, -1, -1, -1, -1] := by decide +kernel
theorem row_OK : (List.range 31).map (fun (c : Nat) => sttAt Gen.sOK (Int.ofNat c)) =
    [Gen.sOK, Gen.sOK, -1, Gen.acc, -1, Gen.abc, -1, Gen.acm, -1, -1, -1, -1, -1, -1, -1, -1,
     -1, -1, -1, -1, -1, -1, -1, -1, -1, -1, -1, -1, -1, -1, -1] := by decide +kernel
theorem row_OB : (List.range 31).map (fun (c : Nat) => sttAt Gen.sOB (Int.ofNat c)) =
    [Gen.sOB, Gen.sOB, -1, Gen.aec, -1, -1, -1, -1, Gen.sST, -1, -1, -1, -1, -1, -1, -1,
     -1, -1, -1, -1, -1, -1, -1, -1, -1, -1, -1, -1, -1, -1, -1] := by decide +kernel
theorem row_KE : (List.range 31).map (fun (c : Nat) => sttAt Gen.sKE (Int.ofNat c)) =
    [Gen.sKE, Gen.sKE, -1, -1, -1, -1, -1, -1, Gen.sST, -1, -1, -1, -1, -1, -1, -1,
     -1, -1, -1, -1, -1, -1, -1, -1, -1, -1, -1, -1, -1, -1, -1] := by decide +kernel
theorem row_CO : (List.range 31).map (fun (c : Nat) => sttAt Gen.sCO (Int.ofNat c)) =
    [Gen.sCO, Gen.sCO, -1, -1, -1, -1, Gen.acl, -1, -1, -1, -1, -1, -1, -1, -1, -1,
     -1, -1, -1, -1, -1, -1, -1, -1, -1, -1, -1, -1, -1, -1, -1] := by decide +kernel

/-- "Every other input yields an error and no tree": by the result type, an error carries no heap. -/
theorem C01_no_tree_on_error (bs : Bytes) (e : PErr) :
    unmarshal bs = .error e → ∀ h r, unmarshal bs ≠ .ok (h, r) := by
  intro he h r hc; rw [he] at hc; cases hc

/-- empty and all-whitespace inputs are rejected with an end-of-input error at the end -/
theorem C01_blank_rejected (bs : Bytes) (hws : (skipWs bs 0).1 = []) :
    unmarshal bs = .error (eofErr (skipWs bs 0).2) := by
  unfold unmarshal unmarshalIn
  simp only [Heap.addData]
  generalize hsk : skipWs bs 0 = p at hws
  obtain ⟨r, i⟩ := p
  simp at hws
  subst hws
  rfl

/-- witnesses on the model (kernel evaluation): the former defect D1 (`[],0`) and friends are rejected at the comma -/
def errOf {α : Type} : Except PErr α → Option PErr
  | .error e => some e
  | .ok _ => none
example : errOf (unmarshal "[],0".toUTF8.toList) = some ⟨.wrongSymbol, 2, 44⟩ := by decide +kernel
example : errOf (unmarshal "[1],[2".toUTF8.toList) = some ⟨.wrongSymbol, 3, 44⟩ := by decide +kernel
example : errOf (unmarshal "{\"a\":1},\"b\":2".toUTF8.toList) = some ⟨.wrongSymbol, 7, 44⟩ := by decide +kernel
example : (unmarshal "{\"a\":[1,2]} ".toUTF8.toList).toOption.isSome = true := by decide +kernel

end Ajson.Props.C01
