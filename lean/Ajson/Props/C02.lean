/-
C02 — every decoded value equals what the JSON text denotes, whenever it is read.
-/
import Ajson.Model.Decode
import Ajson.Model.Read
import Ajson.Spec.Ref

namespace Ajson.Props.C02
open Ajson

/-- a typed getter on a nil node reports "not parsed" -/
theorem C02_nil_unparsed (h : Heap) :
    (h.getNumeric none).2 = .err (errT .unparsed) ∧ (h.getString none).2 = .err (errT .unparsed) ∧
    (h.getBool none).2 = .err (errT .unparsed) ∧ h.getNull none = .err (errT .unparsed) ∧
    (h.getArray none).2 = .err (errT .unparsed) ∧ (h.getObject none).2 = .err (errT .unparsed) := by
  simp [Heap.getNumeric, Heap.getString, Heap.getBool, Heap.getNull, Heap.getArray, Heap.getObject]

/-- a typed getter on a node of another type reports a wrong-type error and does not touch the heap -/
theorem C02_wrong_type (h : Heap) (n : Id) :
    (h.typeOf n ≠ .numeric → h.getNumeric (some n) = (h, .err (errT .wrongType))) ∧
    (h.typeOf n ≠ .string → h.getString (some n) = (h, .err (errT .wrongType))) ∧
    (h.typeOf n ≠ .bool → h.getBool (some n) = (h, .err (errT .wrongType))) ∧
    (h.typeOf n ≠ .null → h.getNull (some n) = .err (errT .wrongType)) ∧
    (h.typeOf n ≠ .array → h.getArray (some n) = (h, .err (errT .wrongType))) ∧
    (h.typeOf n ≠ .object → h.getObject (some n) = (h, .err (errT .wrongType))) := by
  refine ⟨?_, ?_, ?_, ?_, ?_, ?_⟩ <;> intro hne <;>
    simp [Heap.getNumeric, Heap.getString, Heap.getBool, Heap.getNull, Heap.getArray, Heap.getObject, hne]

/-- a typed getter that succeeds was applied to a node of its type -/
theorem C02_getter_ok_type (h : Heap) (n : Id) :
    ((h.getNumeric (some n)).2.isOk = true → h.typeOf n = .numeric) ∧
    ((h.getString (some n)).2.isOk = true → h.typeOf n = .string) ∧
    ((h.getBool (some n)).2.isOk = true → h.typeOf n = .bool) := by
  refine ⟨?_, ?_, ?_⟩ <;> intro hok <;> apply Classical.byContradiction <;> intro hne
  · have := (C02_wrong_type h n).1 hne; rw [this] at hok; simp [Outcome.isOk] at hok
  · have := (C02_wrong_type h n).2.1 hne; rw [this] at hok; simp [Outcome.isOk] at hok
  · have := (C02_wrong_type h n).2.2.1 hne; rw [this] at hok; simp [Outcome.isOk] at hok

end Ajson.Props.C02
