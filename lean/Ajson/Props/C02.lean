/-
C02 — every decoded value equals what the JSON text denotes, whenever it is read.

Main theorems (for EVERY accepted text, every value `w` inside it that is not shadowed by a later member of the same name,
`id` its node — `SubAt v 0 w id`): the node has the type of `w` (`C02_type`); a number reads as the correctly rounded float64
of its literal or reports the one permitted error (`C02_number`; `parseFloat64` is exact rational rounding, validated against
strconv and math/big in the `lex` stream); a string reads as the unquoted literal and never fails (`C02_string`); literals
read as themselves (`C02_bool`); an array has exactly its elements under GetIndex 0…n-1, negative indexes from the end
(`C02_array`); an object has exactly its distinct keys, each answering with the LAST member of that name (`C02_object`).
The tree is the one the model of `Unmarshal` builds (`Proofs/DecodeComplete.unmarshalIn_builds`: the heap is `build v`) and
`build v` represents `v` (`Proofs/Rep.build_rep`). Repeated and reordered reads: a read changes nothing but cache cells
(`Props/C13`, ReadFrame), and a filled cell holds what the first read computed.
Not proved here: `Unpack` as a whole (its recursion threads the cache-filling heap through all children).
-/
import Ajson.Proofs.LazyParsed
import Ajson.Proofs.Lazy2
import Ajson.Proofs.TreeFacts
import Ajson.Proofs.ParsedValue
import Ajson.Model.Read
import Ajson.Proofs.UnpackCanon
import Ajson.Proofs.Acyclic

namespace Ajson.Props.C02
open Ajson Ajson.Heap Ajson.Spec Ajson.Proofs

/-- for every accepted text the returned root is node 0 of a heap that represents the parsed tree -/
theorem C02_tree (data : Bytes) (v : STree) (hp : parseRef data = .ok v) :
    ∃ H, unmarshal data = .ok (H, 0) ∧ Rep H 0 v 0 ∧ WfT data v ∧ H.datas[0]? = some data := unmarshal_tree data v hp

/-- every unshadowed value inside the text has a node of its type -/
theorem C02_type (data : Bytes) (v : STree) (hp : parseRef data = .ok v) :
    ∃ H, unmarshal data = .ok (H, 0) ∧ ∀ w id, SubAt v 0 w id → H.typeOf id = w.ntype := by
  obtain ⟨H, hu, hr, hw, hd⟩ := unmarshal_tree data v hp
  exact ⟨H, hu, fun w id hs => ((hs.rep hr hw).1.node (hs.rep hr hw).2).1⟩

/-- a number node reads as the correctly rounded float64 of its literal — the literal being exactly the span in the input —
or reports the one permitted read error when the literal is outside the float64 range -/
theorem C02_number (data : Bytes) (v : STree) (hp : parseRef data = .ok v) :
    ∃ H, unmarshal data = .ok (H, 0) ∧ ∀ a b lit id, SubAt v 0 (.num a b lit) id →
      lit = slice data a b ∧
      (H.getNumeric (some id)).2 = (match parseFloat64 lit with | .ok bits => .ok bits | .error _ => .err (errT .foreign)) := by
  obtain ⟨H, hu, hr, hw, hd⟩ := unmarshal_tree data v hp
  refine ⟨H, hu, fun a b lit id hs => ?_⟩
  obtain ⟨hr', hw'⟩ := hs.rep hr hw
  exact ⟨by simp only [WfT] at hw'; exact hw'.2, hr'.getNumeric hw' hd⟩

/-- a string node reads as its unquoted literal; reading it cannot fail -/
theorem C02_string (data : Bytes) (v : STree) (hp : parseRef data = .ok v) :
    ∃ H, unmarshal data = .ok (H, 0) ∧ ∀ a b raw id, SubAt v 0 (.str a b raw) id →
      raw = slice data a b ∧ ∃ s, unquoteBytes raw 34 = some s ∧ (H.getString (some id)).2 = .ok s := by
  obtain ⟨H, hu, hr, hw, hd⟩ := unmarshal_tree data v hp
  refine ⟨H, hu, fun a b raw id hs => ?_⟩
  obtain ⟨hr', hw'⟩ := hs.rep hr hw
  exact ⟨by simp only [WfT] at hw'; exact hw'.2.1, hr'.getString hw' hd⟩

/-- `true` and `false` read as themselves, `null` answers GetNull -/
theorem C02_bool (data : Bytes) (v : STree) (hp : parseRef data = .ok v) :
    ∃ H, unmarshal data = .ok (H, 0) ∧ (∀ a b x id, SubAt v 0 (.bool a b x) id → (H.getBool (some id)).2 = .ok x) ∧
      (∀ a b id, SubAt v 0 (.null a b) id → H.getNull (some id) = .ok ()) := by
  obtain ⟨H, hu, hr, hw, hd⟩ := unmarshal_tree data v hp
  refine ⟨H, hu, fun a b x id hs => ?_, fun a b id hs => ?_⟩
  · obtain ⟨hr', hw'⟩ := hs.rep hr hw
    exact hr'.getBool hw' hd
  · obtain ⟨hr', hw'⟩ := hs.rep hr hw
    have := (hr'.node hw').1
    simp [Heap.getNull, typeOf, this, STree.ntype]

/-- an array node has exactly its elements: `Size()` is their number and `GetIndex(k)` is the node of the k-th element, whose
`index` is k -/
theorem C02_array (data : Bytes) (v : STree) (hp : parseRef data = .ok v) :
    ∃ H, unmarshal data = .ok (H, 0) ∧ ∀ a b pre x post id, SubAt v 0 (.arr a b (pre ++ x :: post)) id →
      H.nchildren id = (pre ++ x :: post).length ∧
      H.getIndex (some id) (pre.length : Int) = .ok (id + 1 + nodesL pre) ∧ (H.get (id + 1 + nodesL pre)).index = some pre.length := by
  obtain ⟨H, hu, hr, hw, hd⟩ := unmarshal_tree data v hp
  refine ⟨H, hu, fun a b pre x post id hs => ?_⟩
  obtain ⟨hr', hw'⟩ := hs.rep hr hw
  have hty := (hr'.node hw').1
  simp only [Rep] at hr'
  obtain ⟨_, hlk, hidx⟩ := RepElems.get pre x post 0 (id + 1) _ hr'.2.2
  have hn : H.nchildren id = (pre ++ x :: post).length := by
    unfold nchildren
    have := congrArg List.length hr'.2.1
    simpa [ChildMap.keys] using this
  refine ⟨hn, ?_, by simpa using hidx⟩
  simp only [Nat.zero_add] at hlk
  have hnn : ¬ ((pre.length : Int) < 0) := by omega
  simp [Heap.getIndex, typeOf, hty, STree.ntype, hnn, hlk]

/-- an object node has exactly its distinct keys, and `GetKey(k)` answers with the LAST member named k -/
theorem C02_object (data : Bytes) (v : STree) (hp : parseRef data = .ok v) :
    ∃ H, unmarshal data = .ok (H, 0) ∧ ∀ a b kvs id, SubAt v 0 (.obj a b kvs) id →
      (∀ key, (H.getKey (some id) key).isOk = kvs.any (fun p => p.1 == key)) ∧
      (∀ pre key x post, kvs = pre ++ (key, x) :: post → post.any (fun p => p.1 == key) = false →
        H.getKey (some id) key = .ok (id + 1 + nodesM pre) ∧ (H.get (id + 1 + nodesM pre)).key = some key) := by
  obtain ⟨H, hu, hr, hw, hd⟩ := unmarshal_tree data v hp
  refine ⟨H, hu, fun a b kvs id hs => ?_⟩
  obtain ⟨hr', hw'⟩ := hs.rep hr hw
  have hty := (hr'.node hw').1
  simp only [Rep] at hr'
  refine ⟨fun key => ?_, fun pre key x post hk hns => ?_⟩
  · have := hr'.2.1 key
    simp only [Heap.getKey, typeOf, hty, STree.ntype, bne_self_eq_false, Bool.false_eq_true, if_false]
    cases hl : (H.childMap id).lookup key with
    | none => rw [hl] at this; simpa [Outcome.isOk] using this
    | some c => rw [hl] at this; simpa [Outcome.isOk] using this
  · subst hk
    obtain ⟨_, hlk, hkey⟩ := RepMembers.get pre key x post (id + 1) _ hr'.2.2 hns
    exact ⟨by simp [Heap.getKey, typeOf, hty, STree.ntype, hlk], hkey⟩

/-! ### the value a parsed tree denotes (`absVal`, Proofs/Refine), position by position -/

/-- **scalars denote what their literal denotes**: at every position of every accepted text a number node denotes the correctly
rounded float64 of its literal (and nothing when the literal is out of range), a string node its unquoted literal, `true` / `false` /
`null` themselves -/
theorem C02_value_of_a_scalar (data : Bytes) (v : STree) (hp : parseRef data = .ok v) (F : Nat) :
    ∃ H, unmarshal data = .ok (H, 0) ∧
      (∀ a b lit id, SubAt v 0 (.num a b lit) id → ∀ bits, absVal (F + 1) H id = some (.num bits) ↔ parseFloat64 lit = .ok bits) ∧
      (∀ a b raw id, SubAt v 0 (.str a b raw) id → ∀ s, absVal (F + 1) H id = some (.str s) ↔ unquoteBytes raw 34 = some s) ∧
      (∀ a b x id, SubAt v 0 (.bool a b x) id → absVal (F + 1) H id = some (.bool x)) ∧
      (∀ a b id, SubAt v 0 (.null a b) id → absVal (F + 1) H id = some .null) := by
  obtain ⟨H, hu, hr, hw, hd⟩ := unmarshal_tree data v hp
  refine ⟨H, hu, ?_, ?_, ?_, ?_⟩
  · intro a b lit id hs bits
    obtain ⟨hr', hw'⟩ := hs.rep hr hw
    have hty : H.typeOf id = .numeric := (hr'.node hw').1
    rw [((absVal_scalar_is_getter F H id).1 hty) bits, hr'.getNumeric hw' hd]
    cases parseFloat64 lit with
    | ok x => simp
    | error e => simp
  · intro a b raw id hs s
    obtain ⟨hr', hw'⟩ := hs.rep hr hw
    have hty : H.typeOf id = .string := (hr'.node hw').1
    obtain ⟨s0, h1, h2⟩ := hr'.getString hw' hd
    rw [((absVal_scalar_is_getter F H id).2.1 hty) s, h2, h1]
    simp
  · intro a b x id hs
    obtain ⟨hr', hw'⟩ := hs.rep hr hw
    have hty : H.typeOf id = .bool := (hr'.node hw').1
    exact (((absVal_scalar_is_getter F H id).2.2.1 hty) x).mpr (hr'.getBool hw' hd)
  · intro a b id hs
    obtain ⟨hr', hw'⟩ := hs.rep hr hw
    have hty : H.typeOf id = .null := (hr'.node hw').1
    exact ((absVal_scalar_is_getter F H id).2.2.2 hty).1

/-- **an array denotes the list of what its elements denote, in source order**: the nodes `absVal` visits are exactly the nodes of
the elements (`elemIds`: consecutive positions in document order), so the value of the array is the list of the values at those
positions — each of which is again a position of the text, to which these theorems apply -/
theorem C02_value_of_an_array (data : Bytes) (v : STree) (hp : parseRef data = .ok v) (F : Nat) :
    ∃ H, unmarshal data = .ok (H, 0) ∧ ∀ a b xs id, SubAt v 0 (.arr a b xs) id →
      absVal (F + 1) H id = ((elemIds (id + 1) xs).mapM (fun c => absVal F H c)).map JVal.arr := by
  obtain ⟨H, hu, hr, hw, hd⟩ := unmarshal_tree data v hp
  refine ⟨H, hu, fun a b xs id hs => ?_⟩
  obtain ⟨hr', hw'⟩ := hs.rep hr hw
  have hty : H.typeOf id = .array := (hr'.node hw').1
  conv => lhs; unfold absVal
  rw [hty]
  simp only []
  rw [arrayIds_of_rep hr']

/-- **an object denotes its members by key, the last duplicate winning**: the value of an object node lists, for the entries of its
children map, the key together with what the entry's node denotes; the keys of that map are pairwise different, they are exactly the
member names of the text, and the entry under a name is the node of the LAST member of that name -/
theorem C02_value_of_an_object (data : Bytes) (v : STree) (hp : parseRef data = .ok v) (F : Nat) :
    ∃ H, unmarshal data = .ok (H, 0) ∧ ∀ a b kvs id, SubAt v 0 (.obj a b kvs) id →
      absVal (F + 1) H id = ((H.childMap id).mapM (fun p => (absVal F H p.2).map (fun w => (p.1, w)))).map JVal.obj ∧
      (H.childMap id).keys.Nodup ∧
      (∀ key, key ∈ (H.childMap id).keys ↔ kvs.any (fun p => p.1 == key) = true) ∧
      (∀ pre key x post, kvs = pre ++ (key, x) :: post → post.any (fun p => p.1 == key) = false →
        (key, id + 1 + nodesM pre) ∈ H.childMap id) := by
  obtain ⟨H, hu, hs0⟩ := Proofs.struct_unmarshal data v hp
  obtain ⟨H', hu', hr, hw, hd⟩ := unmarshal_tree data v hp
  have hH : H' = H := by rw [hu] at hu'; simp only [Except.ok.injEq, Prod.mk.injEq] at hu'; exact hu'.1.symm
  subst hH
  refine ⟨H', hu, fun a b kvs id hs => ?_⟩
  obtain ⟨hr', hw'⟩ := hs.rep hr hw
  have hty : H'.typeOf id = .object := (hr'.node hw').1
  have hid : id < H'.size := by
    by_cases hlt : id < H'.size
    · exact hlt
    · have := get_default H' id (Nat.le_of_not_lt hlt)
      unfold Heap.typeOf at hty
      rw [this] at hty
      cases hty
  simp only [Rep] at hr'
  refine ⟨?_, (hs0 id hid).nodup, fun key => ?_, fun pre key x post hk hns => ?_⟩
  · conv => lhs; unfold absVal
    rw [hty]
  · rw [← Proofs.lookup_isSome_iff_keys, hr'.2.1 key]
  · subst hk
    obtain ⟨_, hlk, _⟩ := RepMembers.get pre key x post (id + 1) _ hr'.2.2 hns
    exact Proofs.mem_of_lookup hlk

/-- non-vacuity (kernel evaluation): a text with a duplicate key, an escape and a nested array -/
example : (match parseRef "{\"a\":1,\"b\":[true,\"x\\n\"],\"a\":2}".toUTF8.toList with
    | .ok (.obj _ _ kvs) => kvs.length == 3
    | _ => false) = true := by decide +kernel

/-- a typed getter on a nil node reports "not parsed" -/
theorem C02_nil_unparsed (h : Heap) :
    (h.getNumeric none).2 = .err (errT .unparsed) ∧ (h.getString none).2 = .err (errT .unparsed) ∧
    (h.getBool none).2 = .err (errT .unparsed) ∧ h.getNull none = .err (errT .unparsed) ∧
    (h.getArray none).2 = .err (errT .unparsed) ∧ (h.getObject none).2 = .err (errT .unparsed) := by
  simp [Heap.getNumeric, Heap.getString, Heap.getBool, Heap.getNull, Heap.getArray, Heap.getObject]

/-! ### laziness is invisible

`ReadStep h h'` (Proofs/Lazy) is the relation "h' results from h by reads": nothing but value cells changed, and a coherent heap
(every filled cell holds what the node's fields imply) stays coherent. It is reflexive and transitive, and every read is a step:
`getValue`, the six typed getters, `Unpack` of any node with any fuel, `Marshal`, `String`, `Eq`/`Neq`, `Le`/`Leq`/`Ge`/`Geq`. -/

/-- every read is a `ReadStep`, and steps compose -/
theorem C02_reads_are_steps (h : Heap) (n : Option Id) (m : Id) (fuel : Nat) :
    ReadStep h (h.getNumeric n).1 ∧ ReadStep h (h.getString n).1 ∧ ReadStep h (h.getBool n).1 ∧
    ReadStep h (h.getArray n).1 ∧ ReadStep h (h.getObject n).1 ∧ ReadStep h (h.unpack fuel m).1 ∧ ReadStep h (h.getValue m).1 :=
  ⟨getNumeric_read h n, getString_read h n, getBool_read h n, getArray_read h n, getObject_read h n, unpack_read fuel h m, getValue_read h m⟩

/-- … and so are Marshal, String, Eq, Neq and the four ordering comparisons (any fuel, any float formatter) -/
theorem C02_more_reads_are_steps (fmtF : UInt64 → Option Bytes) (h : Heap) (a b : Option Id) (m : Id) (fuel : Nat) (o : Ord4) :
    ReadStep h (h.marshal fmtF fuel m).1 ∧ ReadStep h (h.toStringN fmtF m).1 ∧ ReadStep h (h.eq a b).1 ∧ ReadStep h (h.neq a b).1 ∧
    ReadStep h (h.cmp o a b).1 :=
  ⟨marshal_read fmtF fuel h m, toStringN_read fmtF h m, eq_read h a b, neq_read h a b, cmp_read o h a b⟩

/-- **any node may be read at any time, in any order, any number of times, with the same answer**: for every accepted text, after
ANY sequence of reads of any nodes (a `ReadStep` from the parsed heap), every typed getter gives every node exactly the answer it
gives on the freshly parsed heap — which `C02_number` / `C02_string` / `C02_bool` identify with what the text denotes -/
theorem C02_laziness_invisible (data : Bytes) (v : STree) (hp : parseRef data = .ok v) :
    ∃ H, unmarshal data = .ok (H, 0) ∧ ∀ H' : Heap, ReadStep H H' → ∀ n : Id,
      (H'.getNumeric (some n)).2 = (H.getNumeric (some n)).2 ∧
      (H'.getString (some n)).2 = (H.getString (some n)).2 ∧
      (H'.getBool (some n)).2 = (H.getBool (some n)).2 := by
  obtain ⟨H, hu, _, hc⟩ := coherent_unmarshal data v hp
  exact ⟨H, hu, fun H' r n => lazy_invisible hc r n⟩

/-- e.g. reading a number twice, with another read in between, gives the same answer (also when that answer is the range error) -/
example (data : Bytes) (v : STree) (hp : parseRef data = .ok v) :
    ∃ H, unmarshal data = .ok (H, 0) ∧ ∀ n m : Id,
      (((H.getNumeric (some n)).1.unpack 100 m).1.getNumeric (some n)).2 = (H.getNumeric (some n)).2 := by
  obtain ⟨H, hu, hl⟩ := C02_laziness_invisible data v hp
  exact ⟨H, hu, fun n m => (hl _ ((getNumeric_read H (some n)).trans (unpack_read 100 _ m)) n).1⟩

/-- **`Unpack` assembles exactly the value the tree denotes**: for every accepted text, after ANY reads (`Fills`, Proofs/Fills —
no matter which nodes were read before, in which order, how often), `Unpack` of any node answers v exactly when the node denotes a
value (`absVal`, tied to the text position by position by `C02_value_of_*`) whose canonical form — members of every object in key
order (a Go map has none; the model lists them sorted) — is v. So `Unpack` fails only where the tree has no value: a number literal
outside the float64 range. -/
theorem C02_unpack_is_the_value (data : Bytes) (v : STree) (hp : parseRef data = .ok v) :
    ∃ H, unmarshal data = .ok (H, 0) ∧ ∀ H' : Heap, Proofs.Fills H H' → ∀ (fuel : Nat) (n : Nat), n < H'.size → ∀ w,
      (H'.unpack fuel n).2 = .ok w ↔ (Proofs.absVal fuel H' n).map Proofs.canon = some w := by
  obtain ⟨H, hu, hs, _⟩ := Proofs.acyc_unmarshal data v hp
  exact ⟨H, hu, fun H' F fuel n hn w => Proofs.unpack_iff_value fuel H' n w (hs.of_same F.1) hn⟩

/-- a typed getter on a node of another type reports a wrong-type error and does not touch the heap -/
theorem C02_wrong_type (h : Heap) (n : Id) :
    (h.typeOf n ≠ .numeric → h.getNumeric (some n) = (h, .err (errT .wrongType))) ∧
    (h.typeOf n ≠ .string → h.getString (some n) = (h, .err (errT .wrongType))) ∧
    (h.typeOf n ≠ .bool → h.getBool (some n) = (h, .err (errT .wrongType))) ∧
    (h.typeOf n ≠ .null → h.getNull (some n) = .err (errT .wrongType)) ∧
    (h.typeOf n ≠ .array → h.getArray (some n) = (h, .err (errT .wrongType))) ∧
    (h.typeOf n ≠ .object → h.getObject (some n) = (h, .err (errT .wrongType))) := by
  refine ⟨?_, ?_, ?_, ?_, ?_, ?_⟩ <;> intro hne <;>
    simp [Heap.getNumeric, Heap.getString, Heap.getBool, Heap.getNull, Heap.getArray, Heap.getObject, hne]

/-- a typed getter that succeeds was applied to a node of its type -/
theorem C02_getter_ok_type (h : Heap) (n : Id) :
    ((h.getNumeric (some n)).2.isOk = true → h.typeOf n = .numeric) ∧
    ((h.getString (some n)).2.isOk = true → h.typeOf n = .string) ∧
    ((h.getBool (some n)).2.isOk = true → h.typeOf n = .bool) := by
  refine ⟨?_, ?_, ?_⟩ <;> intro hok <;> apply Classical.byContradiction <;> intro hne
  · have := (C02_wrong_type h n).1 hne; rw [this] at hok; simp [Outcome.isOk] at hok
  · have := (C02_wrong_type h n).2.1 hne; rw [this] at hok; simp [Outcome.isOk] at hok
  · have := (C02_wrong_type h n).2.2.1 hne; rw [this] at hok; simp [Outcome.isOk] at hok

end Ajson.Props.C02
