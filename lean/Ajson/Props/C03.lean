/-
C03 — unmodified nodes reproduce their exact source bytes.

Main theorems, for EVERY accepted text and every value `w` inside it that is not shadowed by a later member of the same name
(`id` its node): `Source()`, `Marshal` and `String()` of the node are exactly the bytes of the span [w.start, w.stop) of the
input — the span the table-free reference parser assigns to the value, without surrounding whitespace or separators
(`C03_every_node`); for the root this is the input with the outer whitespace trimmed, so parse-then-serialise is the identity
on untouched documents (`C03_root_trimmed`). Not proved: "parsed on its own the span gives an equal value" (covered by the
span probe: every span of every explored document is re-parsed).
-/
import Ajson.Proofs.TreeFacts
import Ajson.Model.Encode

namespace Ajson.Props.C03
open Ajson Ajson.Heap Ajson.Spec Ajson.Proofs

/-- a clean, complete node with a data cell: what the decoder produces and no mutator has touched -/
def Clean (h : Heap) (n : Id) : Prop := (h.get n).dirty = false ∧ (h.get n).b1 ≠ 0

/-- `Source()` of a clean node is exactly the byte span `[b0, b1)` of its data cell -/
theorem C03_source_is_span (h : Heap) (n : Id) (d : Nat) (bs : Bytes)
    (hc : Clean h n) (hd : (h.get n).data = some d) (hb : h.datas[d]? = some bs) :
    h.source n = some ((bs.drop (h.get n).b0).take ((h.get n).b1 - (h.get n).b0)) := by
  obtain ⟨h1, h2⟩ := hc
  simp [Heap.source, h1, h2, hd, hb]

/-- `Marshal` of a clean node returns its source bytes and leaves the heap untouched — for every fuel ≥ 1,
every float formatter -/
theorem C03_marshal_is_source (fmtF : UInt64 → Option Bytes) (fuel : Nat) (h : Heap) (n : Id) (hc : Clean h n) :
    h.marshal fmtF (fuel + 1) n = (h, .ok ((h.source n).getD [])) := by
  obtain ⟨h1, h2⟩ := hc
  simp [Heap.marshal, h1, h2]

/-- `String()` of a clean node returns its source bytes -/
theorem C03_string_is_source (fmtF : UInt64 → Option Bytes) (h : Heap) (n : Id) (hc : Clean h n) :
    h.toStringN fmtF n = (h, some ((h.source n).getD [])) := by
  obtain ⟨h1, h2⟩ := hc
  simp [Heap.toStringN, h1, h2]

/-- **every node reproduces its span**: Source(), Marshal and String() of the node of every unshadowed value are the bytes of
that value's span in the input, for every accepted text, every float formatter and fuel -/
theorem C03_every_node (fmtF : UInt64 → Option Bytes) (fuel : Nat) (data : Bytes) (v : STree) (hp : parseRef data = .ok v) :
    ∃ H, unmarshal data = .ok (H, 0) ∧ ∀ w id, SubAt v 0 w id →
      H.source id = some (slice data w.start w.stop) ∧
      H.marshal fmtF (fuel + 1) id = (H, .ok (slice data w.start w.stop)) ∧
      H.toStringN fmtF id = (H, some (slice data w.start w.stop)) ∧ w.start < w.stop := by
  obtain ⟨H, hu, hr, hw, hd⟩ := unmarshal_tree data v hp
  refine ⟨H, hu, fun w id hs => ?_⟩
  obtain ⟨hr', hw'⟩ := hs.rep hr hw
  have hsrc := hr'.source hw' hd
  obtain ⟨_, _, _, h4, h5, _, h7⟩ := hr'.node hw'
  have hc : Clean H id := ⟨h5, by rw [h4]; omega⟩
  refine ⟨hsrc, ?_, ?_, h7⟩
  · rw [C03_marshal_is_source fmtF fuel H id hc, hsrc]; rfl
  · rw [C03_string_is_source fmtF H id hc, hsrc]; rfl

/-- **the root is the trimmed input**: its span starts at the first non-blank byte and only whitespace follows it, so
`Marshal(Unmarshal(text))` is the text without its outer whitespace -/
theorem C03_root_trimmed (fmtF : UInt64 → Option Bytes) (fuel : Nat) (data : Bytes) (v : STree) (hp : parseRef data = .ok v) :
    ∃ H, unmarshal data = .ok (H, 0) ∧ H.marshal fmtF (fuel + 1) 0 = (H, .ok (slice data v.start v.stop)) ∧
      v.start = (skipWs data 0).2 ∧ (skipWs (data.drop v.stop) v.stop).1 = [] := by
  obtain ⟨H, hu, hall⟩ := C03_every_node fmtF fuel data v hp
  obtain ⟨_, h1, h2⟩ := parseRef_wf data v hp
  exact ⟨H, hu, (hall v 0 (SubAt.refl v 0)).2.1, h1, h2⟩

/-- non-vacuity: the root of a parsed document is clean and its source is the trimmed input -/
example : (match unmarshal " [1, 2] ".toUTF8.toList with
    | .ok (h, r) => decide ((h.get r).dirty = false ∧ (h.get r).b1 ≠ 0) && (h.source r == some "[1, 2]".toUTF8.toList)
    | .error _ => false) = true := by decide +kernel

end Ajson.Props.C03
