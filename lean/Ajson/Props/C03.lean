/-
C03 — unmodified nodes reproduce their exact source bytes.
-/
import Ajson.Model.Decode
import Ajson.Model.Encode
import Ajson.Spec.Ref

namespace Ajson.Props.C03
open Ajson

/-- a clean, complete node with a data cell: what the decoder produces and no mutator has touched -/
def Clean (h : Heap) (n : Id) : Prop := (h.get n).dirty = false ∧ (h.get n).b1 ≠ 0

/-- `Source()` of a clean node is exactly the byte span `[b0, b1)` of its data cell -/
theorem C03_source_is_span (h : Heap) (n : Id) (d : Nat) (bs : Bytes)
    (hc : Clean h n) (hd : (h.get n).data = some d) (hb : h.datas[d]? = some bs) :
    h.source n = some ((bs.drop (h.get n).b0).take ((h.get n).b1 - (h.get n).b0)) := by
  obtain ⟨h1, h2⟩ := hc
  simp [Heap.source, h1, h2, hd, hb]

/-- `Marshal` of a clean node returns its source bytes and leaves the heap untouched — for every fuel ≥ 1,
every float formatter -/
theorem C03_marshal_is_source (fmtF : UInt64 → Option Bytes) (fuel : Nat) (h : Heap) (n : Id) (hc : Clean h n) :
    h.marshal fmtF (fuel + 1) n = (h, .ok ((h.source n).getD [])) := by
  obtain ⟨h1, h2⟩ := hc
  simp [Heap.marshal, h1, h2]

/-- `String()` of a clean node returns its source bytes -/
theorem C03_string_is_source (fmtF : UInt64 → Option Bytes) (h : Heap) (n : Id) (hc : Clean h n) :
    h.toStringN fmtF n = (h, some ((h.source n).getD [])) := by
  obtain ⟨h1, h2⟩ := hc
  simp [Heap.toStringN, h1, h2]

/-- non-vacuity: the root of a parsed document is clean and its source is the trimmed input -/
example : (match unmarshal " [1, 2] ".toUTF8.toList with
    | .ok (h, r) => decide ((h.get r).dirty = false ∧ (h.get r).b1 ≠ 0) && (h.source r == some "[1, 2]".toUTF8.toList)
    | .error _ => false) = true := by decide +kernel

end Ajson.Props.C03
