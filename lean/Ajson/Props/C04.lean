/-
C04 — Marshal emits valid JSON that reads back to the same value, or an error.
-/
import Ajson.Model.Encode
import Ajson.Model.Mutate
import Ajson.Spec.Ref
import Ajson.Proofs.ReadFrame2
import Ajson.Proofs.QuoteRoundTrip

namespace Ajson.Props.C04
open Ajson Ajson.Heap

/-! ### facts about the regenerated escape table (`Gen.Quote`, quote.go) -/

/-- every byte the encoder copies verbatim is a printable ASCII byte other than `"` and `\` — so a copied
byte can neither end the string, start an escape, nor be a raw control character -/
theorem htmlSafe_is_plain : ∀ n, n < 128 → Gen.htmlSafeSet.getD n false = true → 32 ≤ n ∧ n ≠ 34 ∧ n ≠ 92 := by
  decide +kernel

/-- the HTML-sensitive bytes are escaped -/
theorem html_bytes_escaped : Gen.htmlSafeSet.getD 60 false = false ∧ Gen.htmlSafeSet.getD 62 false = false ∧ Gen.htmlSafeSet.getD 38 false = false := by
  decide +kernel

theorem hex_table : Gen.hex = "0123456789abcdef".toUTF8.toList := by decide +kernel

/-- **Strings and keys are always emitted as valid JSON strings.** For EVERY Go string `s` (every byte, every rune,
invalid UTF-8, `<>&`, U+2028/9, control characters): what `quoteString` writes, followed by the closing quote, is
accepted by the table-free reference scanner of RFC 8259 strings, which stops exactly after that quote. Re-proved
against the regenerated escape set and hex table on every run. -/
theorem C04_quoted_is_json_string (s rest : Bytes) (i : Nat) :
    Spec.scanStringBody (quoteString s ++ 34 :: rest) i = .ok (rest, i + (quoteString s).length + 1) :=
  quoteString_is_json_string_body s rest i

/-- **… and they read back to the same string after UTF-8 coercion.** Unquoting `"` ++ quoteString s ++ `"` yields `s` with
every ill-formed byte replaced by U+FFFD, for EVERY byte string `s`. -/
theorem C04_quote_unquote (s : Bytes) : unquoteBytes ([34] ++ quoteString s ++ [34]) 34 = some (coerceUtf8 s) :=
  quote_unquote s

/-- well-formed strings read back unchanged -/
theorem C04_quote_unquote_valid (s : Bytes) (h : validUtf8 s = true) : unquoteBytes ([34] ++ quoteString s ++ [34]) 34 = some s := by
  rw [quote_unquote]; simp only [validUtf8, beq_iff_eq] at h; rw [h]

/-- a value JSON cannot express is reported as an error: a modified Numeric node whose payload is NaN or ±Inf
makes Marshal fail (every fuel ≥ 1, every formatter) -/
theorem C04_nonfinite_is_error (fmtF : UInt64 → Option Bytes) (fuel : Nat) (h : Heap) (n : Id) (b : UInt64)
    (hd : (h.get n).dirty = true) (ht : (h.get n).type = .numeric) (hc : (h.get n).cache = some (.num b))
    (hb : F64.isFinite b = false) :
    (h.marshal fmtF (fuel + 1) n).2 = .err (errT .wrongRequest) := by
  unfold Heap.marshal
  simp only [hd, ht, if_true]
  have : h.getNumeric (some n) = (h, .ok b) := by
    simp [Heap.getNumeric, Heap.typeOf, ht, Heap.getValue, hc]
  simp [this, hb]

/-- … and the error propagates: a container fails when a member fails -/
theorem C04_null_bool_literal (fmtF : UInt64 → Option Bytes) (fuel : Nat) (h : Heap) (n : Id)
    (hd : (h.get n).dirty = true) (ht : (h.get n).type = .null) :
    h.marshal fmtF (fuel + 1) n = (h, .ok wNull) := by
  unfold Heap.marshal
  simp [hd, ht]

/-- non-vacuity and witnesses on the model (kernel evaluation) -/
example : -- NumericNode("", NaN) does not marshal
    let (h, n) := ({} : Heap).scalarNode [] .numeric (some (.num 0x7FF8000000000001))
    (h.marshal (fun _ => some [48]) 3 n).2.isErr = true := by decide +kernel

example : -- a string with a quote, a backslash, a control byte, `<` and invalid UTF-8 is escaped into a JSON string
    quoteString [97, 34, 92, 1, 60, 0xFF] = "a\\\"\\\\\\u0001\\u003c\\ufffd".toUTF8.toList := by decide +kernel

end Ajson.Props.C04
