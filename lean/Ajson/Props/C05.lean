/-
C05 — after any edit history the document says exactly what the edits imply.

Status: the invariant (`Heap.WF`, Spec/WF.lean) and its consequences are in `Props.C06`; here are the
per-operation statements proved so far. The invariant is ALSO evaluated by the model on every state the
heap correspondence stream explores (flag `W1` in every dump), and the implementation is compared with the
model on the private state of every node after every step.
-/
import Ajson.Spec.WF
import Ajson.Proofs.MutBasics
import Ajson.Proofs.WFInv
import Ajson.Proofs.WFRemove
import Ajson.Proofs.WFMove
import Ajson.Proofs.Frame
import Ajson.Proofs.History
import Ajson.Proofs.Sides
import Ajson.Proofs.CloneSound
import Ajson.Proofs.Steps
import Ajson.Proofs.Refine
import Ajson.Proofs.RefineDelete
import Ajson.Proofs.AppendMany
import Ajson.Proofs.SetNodeValue
import Ajson.Proofs.AppendManyValue
import Ajson.Proofs.SetArrayValue
import Ajson.Proofs.SetObjectValue
import Ajson.Proofs.UnpackCanon
import Ajson.Model.Decode

namespace Ajson.Props.C05
open Ajson Ajson.Heap Ajson.Proofs

/-! ### the structural invariant is preserved (for EVERY heap that satisfies it, every receiver and argument)

`Struct` (Proofs/WFInv.lean) is the propositional form of `Heap.wfNode` for every allocated node: children are allocated, name
their parent and sit under the key their `key`/`index` says; keys are pairwise different; an array's keys are "0" … "n-1"; scalars
have no children; a node's parent lists it; dirtiness is closed upwards; a clean node has its source and only clean children.
Proved for: `mark`; SetNull/SetNumeric/SetString/SetBool (any receiver — the replaced children are detached); every deletion
— DeleteNode, DeleteKey/PopKey, DeleteIndex/PopIndex, Delete — from objects and from arrays (the renumbering loop of `dropindex`
is analysed with the children map abstracted to a partial function from positions to nodes: later elements move down by one,
keys and indexes stay "0" … "n-2"); AppendObject of a detached node under a new key; AppendArray of a detached node; cache fills.
Not yet proved: appending an attached node (the move = delete + append above, but done in one call), replacing an existing
key in one call, SetArray/SetObject, SetNode, the constructors with adopted children, and acyclicity. -/

theorem C05_inv_mark {h : Heap} (hs : Struct h) (n : Nat) (hn : n < h.size) : Struct (h.mark n) := (hs.mark n hn).1

/-- SetNull, SetNumeric, SetString, SetBool on any node (scalar or container, root or child) keep the invariant and succeed -/
theorem C05_inv_set_scalar {h : Heap} (hs : Struct h) (n : Nat) (hn : n < h.size) (v : SetVal) (hv : v.type.isContainer = false) :
    Struct (h.update (some n) v).1 ∧ (h.update (some n) v).2 = .ok () := struct_update_scalar hs n hn v hv

/-- deleting a member of an object (DeleteNode, DeleteKey, PopKey, Delete) keeps the invariant and succeeds -/
theorem C05_inv_delete_member {h : Heap} (hs : Struct h) (n value : Nat) (hv : value < h.size)
    (hpar : (h.get value).parent = some n) (hobj : (h.get n).type = .object) :
    Struct (h.remove n value).1 ∧ (h.remove n value).2 = .ok () := struct_remove_object hs n value hv hpar hobj

/-- **every deletion keeps the invariant** — from an object or from an array (where the later elements are renumbered) -/
theorem C05_inv_remove {h : Heap} (hs : Struct h) (n value : Nat) (hv : value < h.size) (hpar : (h.get value).parent = some n) :
    Struct (h.remove n value).1 ∧ (h.remove n value).2 = .ok () := struct_remove hs n value hv hpar

theorem C05_inv_popKey {h : Heap} (hs : Struct h) (n : Nat) (hn : n < h.size) (key : Bytes) : Struct (h.popKey (some n) key).1 :=
  struct_popKey hs n hn key

theorem C05_inv_popIndex {h : Heap} (hs : Struct h) (n : Nat) (hn : n < h.size) (i : Int) : Struct (h.popIndex (some n) i).1 :=
  struct_popIndex hs n hn i

theorem C05_inv_delete {h : Heap} (hs : Struct h) (n : Nat) (hn : n < h.size) : Struct (h.delete n).1 := struct_delete hs n hn

/-- AppendObject of a detached node under a key the object does not have keeps the invariant and succeeds -/
theorem C05_inv_append_object {h : Heap} (hs : Struct h) (n value : Nat) (hn : n < h.size) (hv : value < h.size)
    (hobj : (h.get n).type = .object) (hloop : h.isParentOrSelfNode n value = false) (hroot : (h.get value).parent = none)
    (k : Bytes) (hfresh : (h.childMap n).lookup k = none) :
    Struct (h.appendObject n k value).1 ∧ (h.appendObject n k value).2 = .ok () :=
  struct_appendObject_fresh hs n value hn hv hobj hloop hroot k hfresh

/-- AppendArray of a detached node keeps the invariant and succeeds -/
theorem C05_inv_append_array {h : Heap} (hs : Struct h) (n value : Nat) (hn : n < h.size) (hv : value < h.size)
    (harr : (h.get n).type = .array) (hloop : h.isParentOrSelfNode n value = false) (hroot : (h.get value).parent = none) :
    Struct (h.appendArray n [value]).1 ∧ (h.appendArray n [value]).2 = .ok () :=
  struct_appendArray_one hs n value hn hv harr hloop hroot

/-- **AppendArray of any node** — detached, or attached anywhere (then it is moved: removed from its container, which is
renumbered if it is an array, and appended here) — keeps the invariant and acyclicity and succeeds, whenever the loop guard lets
the request pass -/
theorem C05_inv_append_array_any {h : Heap} (hs : Struct h) (ha : Acyc h) (n value : Nat) (hn : n < h.size) (hv : value < h.size)
    (harr : (h.get n).type = .array) (hloop : h.isParentOrSelfNode n value = false) :
    (h.appendArray n [value]).2 = .ok () ∧ Struct (h.appendArray n [value]).1 ∧ Acyc (h.appendArray n [value]).1 :=
  struct_appendArray_any hs ha n value hn hv harr hloop

/-- **AppendObject of any node under any key**: the key may be new or name a member — that member is then replaced, i.e. detached in
the same call — and the value may be detached or attached anywhere, also to the receiver itself under this or another key (then it is
moved). Whenever the loop guard lets the request pass it succeeds and keeps the invariant and acyclicity. (`Proofs/ObjMove`: the
`remove` that runs on the call's intermediate heap — which does NOT satisfy the invariant: the value already names its new parent —
commutes with the pending updates, so the call equals `remove` of the old member followed by an append under a new key.) -/
theorem C05_inv_append_object_any {h : Heap} (hs : Struct h) (ha : Acyc h) (n value : Nat) (hn : n < h.size) (hv : value < h.size)
    (hobj : (h.get n).type = .object) (hloop : h.isParentOrSelfNode n value = false) (k : Bytes) :
    (h.appendObject n k value).2 = .ok () ∧ Struct (h.appendObject n k value).1 ∧ Acyc (h.appendObject n k value).1 ∧
    (h.appendObject n k value).1.size = h.size :=
  struct_appendObject_any hs ha n value hn hv hobj hloop k

/-- a witness on the model: in `{"a":1,"b":[2,3]}` the element `b[0]` is appended to the root under the EXISTING key "a" — the old
member is replaced, the element is moved out of the array (which is renumbered) — and the heap is well formed afterwards -/
example :
    (match unmarshal "{\"a\":1,\"b\":[2,3]}".toUTF8.toList with
     | .error _ => false
     | .ok (h0, root) =>
       match h0.getKey (some root) [98] with
       | .ok b =>
         match h0.getIndex (some b) 0 with
         | .ok x =>
           let r := h0.appendObject root [97] x
           r.1.wfB && (match r.2 with | .ok _ => true | _ => false) && ((r.1.get x).parent == some root) &&
             ((r.1.childMap b).length == 1) && ((r.1.childMap root).length == 2)
         | _ => false
       | _ => false) = true := by decide +kernel

/-- **AppendArray(values...) with several arguments**, for fresh or detached, pairwise different nodes (none of them the receiver or
above it — the usual call `arr.AppendArray(NumericNode(…), StringNode(…), …)`): accepted, sound and acyclic afterwards. The receiver is
marked only after the last element; between the elements the heap satisfies the relaxed invariant (`StructBut`: a clean receiver with
new children), which the single step for a detached node accepts as its input as well (`Proofs/AppendMany`). -/
theorem C05_append_array_many {h : Heap} (hs : Struct h) (ha : Acyc h) (n : Nat) (hn : n < h.size) (harr : (h.get n).type = .array)
    (vs : List Id) (hnd : vs.Nodup) (hvs : ∀ v ∈ vs, (v : Nat) < h.size ∧ (h.get v).parent = none ∧ ¬ Anc h v n) :
    (h.appendArray n vs).2 = .ok () ∧ Struct (h.appendArray n vs).1 ∧ Acyc (h.appendArray n vs).1 ∧ (h.appendArray n vs).1.size = h.size :=
  appendArray_many_detached hs ha n hn harr vs hnd hvs

/-! ### the operations on plain data

`absVal` (Proofs/Refine) is the JSON value a node denotes, read off its subtree: the type of each node, the payload of each scalar
(its cell, or what its source span says), the children maps — nothing else. The theorems below say what a mutation does IN TERMS OF
THAT VALUE: the receiver's value is the plain-data operation applied to its old value, and every node that is neither the receiver
nor one of its ancestors keeps its value (the ancestors' values change with the receiver's, as they must). -/

/-- **AppendArray is "append"**: after an accepted `AppendArray(v)` of a detached node `v` the receiver denotes its old elements
followed by the value of `v`; all nodes off the receiver's ancestor chain — other documents, detached subtrees, siblings, `v` and
everything below them — denote what they denoted before -/
theorem C05_append_array_is_append {h : Heap} (hs : Struct h) (ha : Acyc h) (n v : Nat) (hn : n < h.size) (hv : v < h.size)
    (harr : (h.get n).type = .array) (hloop : h.isParentOrSelfNode n v = false) (hroot : (h.get v).parent = none) (fuel : Nat) :
    (∀ m : Id, ¬ Anc h m n → absVal fuel (h.appendArray n [v]).1 m = absVal fuel h m) ∧
    (∀ xs x, absVal (fuel + 1) h n = some (.arr xs) → absVal fuel h v = some x →
      absVal (fuel + 1) (h.appendArray n [v]).1 n = some (.arr (xs ++ [x]))) :=
  appendArray_refines hs ha n v hn hv harr hloop hroot fuel

/-- **AppendArray(values...) is "append all"**: for any number of fresh or detached, pairwise different arguments the receiver denotes
its old elements followed by the values of the arguments, in order; all nodes off its ancestor chain keep their value -/
theorem C05_append_array_many_is_append_all {h : Heap} (hs : Struct h) (ha : Acyc h) (n : Nat) (hn : n < h.size) (harr : (h.get n).type = .array)
    (vs : List Id) (hnd : vs.Nodup) (hvs : ∀ v ∈ vs, (v : Nat) < h.size ∧ (h.get v).parent = none ∧ ¬ Anc h v n) (fuel : Nat) :
    (∀ m : Id, ¬ Anc h m n → absVal fuel (h.appendArray n vs).1 m = absVal fuel h m) ∧
    (∀ xs ys, absVal (fuel + 1) h n = some (.arr xs) → vs.mapM (fun v => absVal fuel h v) = some ys →
      absVal (fuel + 1) (h.appendArray n vs).1 n = some (.arr (xs ++ ys))) :=
  appendArray_many_refines hs ha n hn harr vs hnd hvs fuel

/-- **AppendObject under a new key is "add a member"** -/
theorem C05_append_object_adds_a_member {h : Heap} (hs : Struct h) (ha : Acyc h) (n v : Nat) (hn : n < h.size) (hv : v < h.size)
    (hobj : (h.get n).type = .object) (hloop : h.isParentOrSelfNode n v = false) (hroot : (h.get v).parent = none)
    (k : Bytes) (hfresh : (h.childMap n).lookup k = none) (fuel : Nat) :
    (∀ m : Id, ¬ Anc h m n → absVal fuel (h.appendObject n k v).1 m = absVal fuel h m) ∧
    (∀ kvs x, absVal (fuel + 1) h n = some (.obj kvs) → absVal fuel h v = some x →
      absVal (fuel + 1) (h.appendObject n k v).1 n = some (.obj (kvs ++ [(k, x)]))) :=
  appendObject_refines hs ha n v hn hv hobj hloop hroot k hfresh fuel

/-- **AppendObject under an existing key replaces the member**: the receiver denotes its old members without the one under `k`,
followed by (k, value of v); all nodes off its ancestor chain — the replaced member, now detached, included — keep their value -/
theorem C05_append_object_replaces_a_member {h : Heap} (hs : Struct h) (ha : Acyc h) (n v : Nat) (hn : n < h.size) (hv : v < h.size)
    (hobj : (h.get n).type = .object) (hloop : h.isParentOrSelfNode n v = false) (hroot : (h.get v).parent = none)
    (k : Bytes) (old : Id) (hold : (h.childMap n).lookup k = some old) (fuel : Nat) :
    (∀ m : Id, ¬ Anc h m n → absVal fuel (h.appendObject n k v).1 m = absVal fuel h m) ∧
    (∀ kvs x, absVal (fuel + 1) h n = some (.obj kvs) → absVal fuel h v = some x →
      absVal (fuel + 1) (h.appendObject n k v).1 n = some (.obj (kvs.filter (fun y => !(y.1 == k)) ++ [(k, x)]))) :=
  appendObject_replace_refines hs ha n v hn hv hobj hloop hroot k old hold fuel

/-- **the scalar setters are assignments**: afterwards the receiver denotes the new scalar; all nodes off its ancestor chain — its
former children included, which are detached — denote what they denoted before -/
theorem C05_set_scalar_is_assignment {h : Heap} (hs : Struct h) (n : Nat) (hn : n < h.size) (v : SetVal) (hv : v.type.isContainer = false)
    (fuel : Nat) :
    (∀ m : Id, ¬ Anc h m n → absVal fuel (h.update (some n) v).1 m = absVal fuel h m) ∧
    absVal (fuel + 1) (h.update (some n) v).1 n = plainOf v :=
  update_scalar_refines hs n hn v hv fuel

/-- **DeleteKey / PopKey is "remove the member"**: the call is accepted, the receiver denotes its old members without that one, and
all nodes off the receiver's ancestor chain — the deleted member, now detached, and everything below it included — denote what they
denoted before -/
theorem C05_delete_key_removes_the_member {h : Heap} (hs : Struct h) (ha : Acyc h) (n : Nat) (hn : n < h.size) (hobj : (h.get n).type = .object)
    (k : Bytes) (c : Id) (hl : (h.childMap n).lookup k = some c) (fuel : Nat) :
    (h.popKey (some n) k).2 = .ok c ∧
    (∀ m : Id, ¬ Anc h m n → absVal fuel (h.popKey (some n) k).1 m = absVal fuel h m) ∧
    (∀ kvs, absVal (fuel + 1) h n = some (.obj kvs) →
      absVal (fuel + 1) (h.popKey (some n) k).1 n = some (.obj (kvs.filter (fun y => !(y.1 == k))))) :=
  deleteKey_refines hs ha n hn hobj k c hl fuel

/-- **deleting an element of an array is "remove the element"** — the one mutator with a loop (the elements behind the deleted one are
renumbered: their `index` fields and their keys in the children map change): `remove` of an element, which DeleteNode, DeleteIndex,
PopIndex and Delete() of an element run, is accepted, the receiver denotes its old elements without the deleted one — the renumbering
is invisible in the value — and all nodes off the receiver's ancestor chain, the deleted element included, keep their value -/
theorem C05_delete_element_removes_it {h : Heap} (hs : Struct h) (ha : Acyc h) (n value : Nat) (hv : value < h.size)
    (hpar : (h.get value).parent = some n) (harr : (h.get n).type = .array) (fuel : Nat) :
    (h.remove n value).2 = .ok () ∧
    (∀ m : Id, ¬ Anc h m n → absVal fuel (h.remove n value).1 m = absVal fuel h m) ∧
    (∃ idx, (h.get value).index = some idx ∧ ∀ xs, absVal (fuel + 1) h n = some (.arr xs) →
      absVal (fuel + 1) (h.remove n value).1 n = some (.arr (xs.eraseIdx idx))) :=
  removeArray_refines hs ha n value hv hpar harr fuel

/-- … as DeleteIndex / PopIndex(i) for an index inside the array -/
theorem C05_delete_index_removes_the_element {h : Heap} (hs : Struct h) (ha : Acyc h) (n : Nat) (hn : n < h.size) (harr : (h.get n).type = .array)
    (i : Nat) (hi : i < (h.childMap n).length) (fuel : Nat) :
    (∃ c, (h.popIndex (some n) (i : Int)).2 = .ok c) ∧
    (∀ m : Id, ¬ Anc h m n → absVal fuel (h.popIndex (some n) (i : Int)).1 m = absVal fuel h m) ∧
    (∀ xs, absVal (fuel + 1) h n = some (.arr xs) →
      absVal (fuel + 1) (h.popIndex (some n) (i : Int)).1 n = some (.arr (xs.eraseIdx i))) :=
  deleteIndex_refines hs ha n hn harr i hi fuel

/-- **AppendArray of an attached node moves it**: the call is `remove` from the node's container `p` followed by the append of the
now detached node — every node off the ancestor chains of both `p` and the receiver keeps its value, and the receiver denotes what
it denotes after the removal (which the deletion theorems above describe) followed by the value of the moved node -/
theorem C05_append_array_moves {h : Heap} (hs : Struct h) (ha : Acyc h) (n v p : Nat) (hn : n < h.size) (hv : v < h.size)
    (harr : (h.get n).type = .array) (hloop : h.isParentOrSelfNode n v = false) (hpar : (h.get v).parent = some p) (fuel : Nat) :
    (∀ m : Id, ¬ Anc h m n → ¬ Anc h m p → absVal fuel (h.appendArray n [v]).1 m = absVal fuel h m) ∧
    (∀ xs x, absVal (fuel + 1) (h.remove p v).1 n = some (.arr xs) → absVal fuel h v = some x →
      absVal (fuel + 1) (h.appendArray n [v]).1 n = some (.arr (xs ++ [x]))) :=
  appendArray_move_refines hs ha n v p hn hv harr hloop hpar fuel

/-- **SetArray is assignment of a list**: for pairwise different elements, each fresh, detached or a child of the receiver itself (none
of them the receiver or above it), the receiver — whatever it was before: a scalar, an object, an array — afterwards denotes the list of
what the elements denoted, in order; every node off the receiver's ancestor chain keeps its value -/
theorem C05_set_array_assigns_the_list {h : Heap} (hs : Struct h) (ha : Acyc h) (n : Nat) (hn : n < h.size) (ids : List Id) (hnd : ids.Nodup)
    (hids : ∀ v ∈ ids, (v : Nat) < h.size ∧ ¬ Anc h v n ∧ ((h.get v).parent = none ∨ (h.get v).parent = some n)) (fuel : Nat) :
    (∀ m : Id, ¬ Anc h m n → absVal fuel (h.update (some n) (.arr ids)).1 m = absVal fuel h m) ∧
    (∀ ys, ids.mapM (fun v => absVal fuel h v) = some ys → absVal (fuel + 1) (h.update (some n) (.arr ids)).1 n = some (.arr ys)) :=
  setArray_refines hs ha n hn ids hnd hids fuel

/-- **SetObject is assignment of an object**: for members under pairwise different keys whose values are pairwise different nodes, each
fresh, detached or a child of the receiver itself, the receiver afterwards denotes the object with exactly these members, in the order
given; every node off the receiver's ancestor chain keeps its value -/
theorem C05_set_object_assigns_the_members {h : Heap} (hs : Struct h) (ha : Acyc h) (n : Nat) (hn : n < h.size) (kv : List (Bytes × Id))
    (hndk : (kv.map (·.1)).Nodup) (hndv : (kv.map (·.2)).Nodup)
    (hkv : ∀ p ∈ kv, (p.2 : Nat) < h.size ∧ ¬ Anc h p.2 n ∧ ((h.get p.2).parent = none ∨ (h.get p.2).parent = some n)) (fuel : Nat) :
    (∀ m : Id, ¬ Anc h m n → absVal fuel (h.update (some n) (.obj kv)).1 m = absVal fuel h m) ∧
    (∀ ys, kv.mapM (fun p => (absVal fuel h p.2).map (fun w => (p.1, w))) = some ys →
      absVal (fuel + 1) (h.update (some n) (.obj kv)).1 n = some (.obj ys)) :=
  setObject_refines hs ha n hn kv hndk hndv hkv fuel

/-- **SetNode is assignment of a whole value**: after an accepted `SetNode(value)` the receiver denotes what `value` denotes — at every
depth: the clone it takes over denotes what the original denotes (`C14_equal_value`) — and every node that existed before and is
neither the receiver nor one of its ancestors (the receiver's former children, now detached; `value` itself and everything around
it; all other trees) denotes what it denoted before -/
theorem C05_set_node_assigns_the_value {h : Heap} (hs : Struct h) (ha : Acyc h) (n value : Nat) (hn : n < h.size) (hv : value < h.size)
    (hne : n ≠ value) (hl : h.isParentOrSelfNode n value = false) (fuel : Nat) :
    absVal fuel (h.setNode n value).1 n = absVal fuel h value ∧
    (∀ m : Nat, m < h.size → ¬ Anc h m n → absVal fuel (h.setNode n value).1 m = absVal fuel h m) :=
  setNode_refines hs ha n value hn hv hne hl fuel

/-- what a node denotes depends only on the types, scalar payloads and children maps of its subtree (the frame rule behind the three
theorems, usable for any other pair of heaps) -/
theorem C05_value_depends_on_the_subtree (h h' : Heap) (P : Id → Prop)
    (hP : ∀ m, P m → h'.typeOf m = h.typeOf m ∧ ((h.typeOf m).isContainer = false → scalarVal h' m = scalarVal h m) ∧
      h'.childMap m = h.childMap m ∧ ∀ c ∈ (h.childMap m).vals, P c) (fuel : Nat) (n : Id) (hn : P n) :
    absVal fuel h' n = absVal fuel h n := absVal_congr h h' P hP fuel n hn

/-- `absVal` is what the accessors say, node by node: a scalar denotes exactly what its typed getter answers; on a sound heap the
elements listed for an array are, position by position, what `GetIndex` returns, and the members listed for an object are exactly
what `GetKey` finds — so the plain-data theorems above are statements about what the accessors return after the mutation -/
theorem C05_value_is_what_the_accessors_say (fuel : Nat) {h : Heap} (hs : Struct h) (n : Nat) (hn : n < h.size) :
    ((h.typeOf n = .numeric → ∀ b, absVal (fuel + 1) h n = some (.num b) ↔ (h.getNumeric (some n)).2 = .ok b) ∧
     (h.typeOf n = .string → ∀ s, absVal (fuel + 1) h n = some (.str s) ↔ (h.getString (some n)).2 = .ok s) ∧
     (h.typeOf n = .bool → ∀ b, absVal (fuel + 1) h n = some (.bool b) ↔ (h.getBool (some n)).2 = .ok b) ∧
     (h.typeOf n = .null → absVal (fuel + 1) h n = some .null ∧ h.getNull (some n) = .ok ())) ∧
    ((h.get n).type = .array → ∀ i, i < (h.childMap n).length →
      ∃ c, (arrayIds (h.childMap n))[i]? = some c ∧ h.getIndex (some n) (i : Int) = .ok c ∧ (arrayIds (h.childMap n)).length = (h.childMap n).length) ∧
    ((h.get n).type = .object → ∀ k c, (k, c) ∈ h.childMap n ↔ h.getKey (some n) k = .ok c) :=
  ⟨absVal_scalar_is_getter fuel h n, fun harr i hi => arrayIds_is_getIndex hs n hn harr i hi, fun hobj k c => members_is_getKey hs n hn hobj k c⟩

/-- witnesses on the model (kernel evaluation): `absVal` of a parsed document is the value the text denotes, and after AppendArray
of a constructed number onto `a` the document denotes the text with that number appended -/
example :
    (match unmarshal "{\"a\":[1,\"x\"],\"b\":null}".toUTF8.toList with
     | .error _ => false
     | .ok (h0, root) =>
       (match absVal 5 h0 root with
        | some (.obj [(ka, .arr [.num _, .str sx]), (kb, .null)]) => ka == [97] && kb == [98] && sx == [120]
        | _ => false) &&
       (match h0.getKey (some root) [97] with
        | .ok a =>
          let (h1, x) := h0.scalarNode [] .bool (some (.bool true))
          let r := h1.appendArray a [x]
          (match absVal 5 r.1 root with
           | some (.obj [(_, .arr [.num _, .str _, .bool true]), (_, .null)]) => true
           | _ => false)
        | _ => false)) = true := by decide +kernel

/-! ### any history

`Edit` (Proofs/History) lists the requests whose single steps are proved: the four scalar setters, DeleteKey, DeleteIndex, Delete and
AppendArray of one node and AppendObject of one node under any key (fresh, detached or attached anywhere — then it is moved; an
existing key — then the member it names is replaced). `Edit.run` applies one to a heap and keeps the heap
whether the library accepts or rejects the request. -/

/-- **after any edit history**: every finite sequence of these requests, addressed to ANY nodes of a sound acyclic heap (receivers and
arguments fresh, attached elsewhere, detached earlier, descendants or ancestors of each other — loop requests are rejected and change
nothing), leaves a sound acyclic heap of the same size -/
theorem C05_any_history (es : List Edit) (h : Heap) (hs : Struct h) (ha : Acyc h) (hn : ∀ e ∈ es, ∀ x ∈ e.names, x < h.size) :
    Struct (es.foldl Edit.run h) ∧ Acyc (es.foldl Edit.run h) ∧ (es.foldl Edit.run h).size = h.size :=
  history_sound es h hs ha hn

/-- … in particular starting from any parsed document -/
theorem C05_any_history_of_a_parsed_document (data : Bytes) (v : Spec.STree) (hp : Spec.parseRef data = .ok v) :
    ∃ H, unmarshal data = .ok (H, 0) ∧ ∀ es : List Edit, (∀ e ∈ es, ∀ x ∈ e.names, x < H.size) →
      Struct (es.foldl Edit.run H) ∧ Acyc (es.foldl Edit.run H) := by
  obtain ⟨H, hu, hs, ha⟩ := acyc_unmarshal data v hp
  exact ⟨H, hu, fun es hn => let r := history_sound es H hs ha hn; ⟨r.1, r.2.1⟩⟩

/-- **SetArray and SetObject with any elements** (`Proofs/SetContainer`): on any receiver of a sound acyclic heap, with any nodes as
elements or members — fresh, detached, attached anywhere (they are moved), former children of the receiver, several times the same
node — the heap afterwards is sound and acyclic, whether the request is accepted or rejected. The receiver is marked before the loop
over the elements, and with a DIRTY receiver every single `appendNode` step leaves a heap that satisfies the full invariant (the
relaxation `StructBut` concerns a clean receiver only), so the steps compose; dirty flags only go up (`DirtyMono`). -/
theorem C05_set_array_set_object {h : Heap} (hs : Struct h) (ha : Acyc h) (n : Nat) (hn : n < h.size) (ids : List Id) (kv : List (Bytes × Id))
    (hids : ∀ c ∈ ids, (c : Nat) < h.size) (hkv : ∀ p ∈ kv, (p.2 : Nat) < h.size) :
    (Struct (h.update (some n) (.arr ids)).1 ∧ Acyc (h.update (some n) (.arr ids)).1 ∧ (h.update (some n) (.arr ids)).1.size = h.size) ∧
    (Struct (h.update (some n) (.obj kv)).1 ∧ Acyc (h.update (some n) (.obj kv)).1 ∧ (h.update (some n) (.obj kv)).1.size = h.size) :=
  ⟨setArray_sound hs ha n hn ids hids, setObject_sound hs ha n hn kv hkv⟩

/-- **SetNode keeps the heap sound and acyclic** (`Proofs/SetNode`): for any receiver and any value — a scalar or a container, parsed or
constructed, clean or edited, detached or attached anywhere, in the receiver's document or in another one — the request is accepted
unless the value is the receiver itself (nothing happens) or one of its ancestors (rejected, nothing changes), and the heap afterwards
satisfies the invariant and has no cycles. The model follows the Go code step by step: clone the value, give the clone the receiver's
links, detach the receiver's old children, copy the clone's record over the receiver, re-parent the adopted children to the receiver,
mark the receiver's parent. (The proof describes the rewired heap node by node — `rewire_get` — and checks the invariant for the
receiver, the emptied clone root, the adopted children, the detached children and everything else.) -/
theorem C05_set_node {h : Heap} (hs : Struct h) (ha : Acyc h) (n value : Nat) (hn : n < h.size) (hv : value < h.size) :
    Struct (h.setNode n value).1 ∧ Acyc (h.setNode n value).1 ∧ h.size ≤ (h.setNode n value).1.size :=
  setNode_sound hs ha n value hn hv

/-- … and `Clone()`, SetArray, SetObject and SetNode may be mixed in anywhere: any history of edit requests, clones and container
assignments (`Step`), each addressed to any nodes that exist at that moment (the copies made earlier included), leaves a sound acyclic
heap -/
theorem C05_any_history_with_clones (ss : List Step) (h : Heap) (hs : Struct h) (ha : Acyc h) (hv : ValidSteps h ss) :
    Struct (ss.foldl Step.run h) ∧ Acyc (ss.foldl Step.run h) :=
  let r := steps_sound ss h hs ha hv; ⟨r.1, r.2.1⟩

/-- **everything not addressed is unchanged — for whole histories**: when the nodes in play fall into two sides that do not point at
each other (`Closed`: parents and children of a side stay on that side — e.g. different documents, a detached subtree and the rest,
a clone and everything older), any history of edits that names only nodes of one side leaves every record of the other side as it
is. No invariant is needed beyond the closedness of the two sides. -/
theorem C05_any_history_leaves_the_other_side (es : List Edit) (H : Heap) (P : Nat → Prop) (cP : Closed H P) (cN : Closed H (fun x => ¬ P x))
    (hn : ∀ e ∈ es, ∀ x ∈ e.names, P x) (m : Nat) (hm : ¬ P m) : (es.foldl Edit.run H).get m = H.get m :=
  history_side es H P cP cN hn m hm

/-! ### everything not addressed is unchanged

For the same operations — on EVERY sound heap, every receiver and argument — a node that lies neither in the tree of the receiver
nor in the tree of the argument (`SameTree`: no common ancestor) keeps its WHOLE record: parent, key, index, children map, type,
source span, dirty flag and cache cell. So every other tree in play (other documents, subtrees detached earlier, clones) is bit for
bit what it was, whatever is read from it. The lemmas in `Proofs/Frame` are stronger and need no invariant at all: the only records
an operation can touch are the receiver, its ancestors, the entries of its children map, the argument, and the argument's former
parent with its ancestors and entries. -/
theorem C05_untouched_append_array {h : Heap} (hs : Struct h) (n value : Nat) (hn : n < h.size) (hv : value < h.size) (m : Id)
    (h1 : ¬ SameTree h m n) (h2 : ¬ SameTree h m value) : (h.appendArray n [value]).1.get m = h.get m :=
  appendArray_untouched hs n value hn hv m h1 h2

theorem C05_untouched_append_object {h : Heap} (hs : Struct h) (n value : Nat) (key : Bytes) (hn : n < h.size) (hv : value < h.size)
    (m : Id) (h1 : ¬ SameTree h m n) (h2 : ¬ SameTree h m value) : (h.appendObject n key value).1.get m = h.get m :=
  appendObject_untouched hs n value key hn hv m h1 h2

theorem C05_untouched_popKey {h : Heap} (hs : Struct h) (n : Nat) (key : Bytes) (hn : n < h.size) (m : Id) (h1 : ¬ SameTree h m n) :
    (h.popKey (some n) key).1.get m = h.get m := popKey_untouched hs n key hn m h1

theorem C05_untouched_popIndex {h : Heap} (hs : Struct h) (n : Nat) (i : Int) (hn : n < h.size) (m : Id) (h1 : ¬ SameTree h m n) :
    (h.popIndex (some n) i).1.get m = h.get m := popIndex_untouched hs n i hn m h1

theorem C05_untouched_delete {h : Heap} (hs : Struct h) (n : Nat) (hn : n < h.size) (m : Id) (h1 : ¬ SameTree h m n) :
    (h.delete n).1.get m = h.get m := delete_untouched hs n hn m h1

theorem C05_untouched_set_scalar {h : Heap} (hs : Struct h) (n : Nat) (hn : n < h.size) (v : SetVal) (hv : v.type.isContainer = false)
    (m : Id) (h1 : ¬ SameTree h m n) : (h.update (some n) v).1.get m = h.get m := update_scalar_untouched hs n hn v hv m h1

/-- the region is what it says even without the invariant: `mark` touches ancestors only -/
theorem C05_mark_frame (h : Heap) (n m : Id) (hm : ¬ Anc h m n) : (h.mark n).get m = h.get m := mark_frame h n m hm

/-- non-vacuity: in a heap with two parsed documents the nodes of one are not in the tree of the other -/
example : (match unmarshal "[1,2]".toUTF8.toList with
    | .error _ => false
    | .ok (h0, r0) => match unmarshalIn h0 "{\"a\":3}".toUTF8.toList with
      | .error _ => false
      | .ok (h1, r1) =>
        -- roots differ, and appending to the first leaves every record of the second alone
        let (h2, x) := h1.scalarNode [] .null none
        let (h3, _) := h2.appendArray r0 [x]
        (List.range h3.size).all (fun m => !(h3.root m == r1) || h3.get m == h2.get m)) = true := by decide +kernel

/-- a read fills at most a cache cell, which the invariant does not look at -/
theorem C05_inv_cache_fill {h : Heap} (hs : Struct h) (n : Id) (c : Option CacheVal) :
    Struct (h.modify n (fun r => { r with cache := c })) :=
  struct_modify_irrelevant hs n _ (fun _ => ⟨rfl, rfl, rfl, rfl, rfl, rfl, rfl, rfl⟩)

/-! ### "as seen by Unpack"

The theorems above speak about `absVal`, the plain data a node denotes. `Unpack()` is tied to it here, on every structurally sound
heap — so after any history — and with no assumption on which reads happened before: `Unpack` answers `v` exactly when the node denotes
a value whose canonical form (`canon`: the members of every object in key order; a Go map has no order, the model lists them sorted) is
`v`. In particular `Unpack` fails on such a heap only where the tree has no value: a number literal outside the float64 range. -/

/-- **`Unpack` answers exactly the value the tree denotes** -/
theorem C05_unpack_answers_the_value {h : Heap} (hs : Struct h) (fuel : Nat) (n : Nat) (hn : n < h.size) (v : JVal) :
    (h.unpack fuel n).2 = .ok v ↔ (absVal fuel h n).map canon = some v :=
  unpack_iff_value fuel h n v hs hn

/-- … after any history of edits, clones, container assignments and SetNode -/
theorem C05_unpack_answers_the_value_after_any_history (ss : List Step) (h : Heap) (hs : Struct h) (ha : Acyc h) (hv : ValidSteps h ss)
    (fuel : Nat) (n : Nat) (hn : n < (ss.foldl Step.run h).size) (v : JVal) :
    ((ss.foldl Step.run h).unpack fuel n).2 = .ok v ↔ (absVal fuel (ss.foldl Step.run h) n).map canon = some v :=
  unpack_iff_value fuel _ n v (steps_sound ss h hs ha hv).1 hn

/-- `Unpack` is a read (`Fills`: it only fills empty value cells, each with what `getValue` reports), and reads change the value of no
node — on any heap, edited ones included -/
theorem C05_unpack_is_a_read (h : Heap) (fuel : Nat) (n : Nat) :
    Fills h (h.unpack fuel n).1 ∧ ∀ (h' : Heap), Fills h h' → ∀ f m, absVal f h' m = absVal f h m :=
  ⟨unpack_fills fuel h n, fun _ r f m => absVal_fills r f m⟩

/-- witness (kernel evaluation): a parsed object whose members are stored out of key order, after an edit — `Unpack` answers, the
node denotes a value, and both list the members in key order -/
example :
    (match unmarshal "{\"b\":[1,true],\"a\":\"x\"}".toUTF8.toList with
     | .error _ => false
     | .ok (h0, root) =>
       match h0.getKey (some root) [98] with
       | .ok b =>
         let (h1, _) := h0.popIndex (some b) 0                             -- b = [true]
         match (h1.unpack (h1.size + 1) root).2, (absVal (h1.size + 1) h1 root).map canon, absVal (h1.size + 1) h1 root with
         | .ok (.obj [(k1, .str [120]), (k2, .arr [.bool true])]), some (.obj [(k1', .str [120]), (k2', .arr [.bool true])]),
           some (.obj [(k1'', .arr [.bool true]), (k2'', .str [120])]) =>
           k1 == [97] && k2 == [98] && k1' == [97] && k2' == [98] && k1'' == [98] && k2'' == [97]
         | _, _, _ => false
       | _ => false) = true := by decide +kernel

/-- the hypotheses are satisfiable: the empty heap, and a heap with one detached scalar -/
example : Struct ({} : Heap) := fun p hp => by simp [Heap.size] at hp

theorem wf_empty : ({} : Heap).WF := by unfold Heap.WF; decide

/-- `mark()` touches dirty flags only, and only raises them -/
theorem C05_mark_only_dirty (h : Heap) (n m : Id) :
    (h.mark n).get m = h.get m ∨ (h.mark n).get m = { h.get m with dirty := true } := mark_get h n m

/-- `mark()` makes its node dirty: Marshal re-encodes it instead of copying stale source bytes -/
theorem C05_mark_self (h : Heap) (n : Id) (hn : n < h.size) : ((h.mark n).get n).dirty = true := mark_self_dirty h n hn

/-- non-vacuity / witnesses on the model (kernel evaluation): the history of the property text — SetNode, then an
edit below the adopted children — leaves the heap well formed, and Marshal of the root shows the edit -/
example :
    (match unmarshal "{\"a\":[10],\"b\":0}".toUTF8.toList with
     | .error _ => false
     | .ok (h0, root) =>
       match h0.getKey (some root) [97], h0.getKey (some root) [98] with
       | .ok a, .ok b =>
         let (h1, _) := h0.setNode b a                                   -- b := copy of [10]
         match h1.getIndex (some b) 0 with
         | .ok e =>
           let (h2, _) := h1.update (some e) (.num 0x4058C00000000000)    -- b[0] = 99
           h2.wfB && ((h2.get root).dirty && (h2.get b).dirty && !(h2.get a).dirty)
         | _ => false
       | _, _ => false) = true := by decide +kernel

end Ajson.Props.C05
