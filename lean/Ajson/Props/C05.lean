/-
C05 — after any edit history the document says exactly what the edits imply.

Status: the invariant (`Heap.WF`, Spec/WF.lean) and its consequences are in `Props.C06`; here are the
per-operation statements proved so far. The invariant is ALSO evaluated by the model on every state the
heap correspondence stream explores (flag `W1` in every dump), and the implementation is compared with the
model on the private state of every node after every step.
-/
import Ajson.Spec.WF
import Ajson.Proofs.MutBasics
import Ajson.Model.Decode

namespace Ajson.Props.C05
open Ajson Ajson.Heap

theorem wf_empty : ({} : Heap).WF := by unfold Heap.WF; decide

/-- `mark()` touches dirty flags only, and only raises them -/
theorem C05_mark_only_dirty (h : Heap) (n m : Id) :
    (h.mark n).get m = h.get m ∨ (h.mark n).get m = { h.get m with dirty := true } := mark_get h n m

/-- `mark()` makes its node dirty: Marshal re-encodes it instead of copying stale source bytes -/
theorem C05_mark_self (h : Heap) (n : Id) (hn : n < h.size) : ((h.mark n).get n).dirty = true := mark_self_dirty h n hn

/-- non-vacuity / witnesses on the model (kernel evaluation): the history of the property text — SetNode, then an
edit below the adopted children — leaves the heap well formed, and Marshal of the root shows the edit -/
example :
    (match unmarshal "{\"a\":[10],\"b\":0}".toUTF8.toList with
     | .error _ => false
     | .ok (h0, root) =>
       match h0.getKey (some root) [97], h0.getKey (some root) [98] with
       | .ok a, .ok b =>
         let (h1, _) := h0.setNode b a                                   -- b := copy of [10]
         match h1.getIndex (some b) 0 with
         | .ok e =>
           let (h2, _) := h1.update (some e) (.num 0x4058C00000000000)    -- b[0] = 99
           h2.wfB && ((h2.get root).dirty && (h2.get b).dirty && !(h2.get a).dirty)
         | _ => false
       | _, _ => false) = true := by decide +kernel

end Ajson.Props.C05
