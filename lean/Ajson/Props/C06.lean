/-
C06 — the tree stays structurally sound and all read views agree.
Consequences of the well-formedness invariant `Heap.WF` (Spec/WF.lean). That every operation preserves
`WF` is the subject of `Ajson.Props.C05`; `WF` is additionally evaluated on every model state the
correspondence streams explore (the `W1` flag of the heap dumps).
-/
import Ajson.Spec.WF
import Ajson.Model.Decode
import Ajson.Proofs.HeapBasics
import Ajson.Proofs.WFInv
import Ajson.Proofs.DecodeStruct
import Ajson.Proofs.Acyclic
import Ajson.Proofs.Views
import Ajson.Proofs.CloneSound
import Ajson.Proofs.Steps
import Ajson.Proofs.UnpackCanon
import Ajson.Proofs.CellsSteps
import Ajson.Proofs.Detached

namespace Ajson.Props.C06
open Ajson Ajson.Heap

theorem wf_node (h : Heap) (hw : h.WF) (n : Id) (hn : n < h.size) :
    h.wfNode n = true ∧ chainEnds (h.size + 1) h n = true ∧ h.cacheOK n = true := by
  unfold Heap.WF Heap.wfB at hw
  have := (List.all_eq_true.mp hw) n (List.mem_range.mpr hn)
  simpa [Bool.and_eq_true, and_assoc] using this

/-- what the invariant says about one listed child -/
theorem child_facts (h : Heap) (hw : h.WF) (p : Id) (hp : p < h.size) (k : Bytes) (c : Id)
    (hc : (k, c) ∈ (h.get p).children.getD []) :
    c < h.size ∧ c ≠ p ∧ (h.get c).parent = some p ∧
    (if (h.get p).type = .array then (h.get c).index.map itoa = some k else (h.get c).key = some k) := by
  have hnode := (wf_node h hw p hp).1
  unfold Heap.wfNode at hnode
  simp only [Bool.and_eq_true] at hnode
  obtain ⟨⟨⟨⟨⟨hall, _⟩, _⟩, _⟩, _⟩, _⟩ := hnode
  have := (List.all_eq_true.mp hall) (k, c) hc
  simp only [Bool.and_eq_true, decide_eq_true_eq] at this
  obtain ⟨⟨⟨h1, h2⟩, h3⟩, h4⟩ := this
  refine ⟨h1, by simpa using h2, by simpa using h3, ?_⟩
  by_cases ht : (h.get p).type = .array
  · simp [ht] at h4 ⊢; exact h4
  · simp [ht] at h4 ⊢; exact h4

/-- every node is held by at most one container, and that container is the one `Parent()` names -/
theorem C06_single_owner (h : Heap) (hw : h.WF) (p q : Id) (hp : p < h.size) (hq : q < h.size)
    (k k' : Bytes) (c : Id) (hcp : (k, c) ∈ (h.get p).children.getD []) (hcq : (k', c) ∈ (h.get q).children.getD []) :
    p = q ∧ (h.get c).parent = some p := by
  have h1 := (child_facts h hw p hp k c hcp).2.2.1
  have h2 := (child_facts h hw q hq k' c hcq).2.2.1
  rw [h1] at h2
  exact ⟨by simpa using h2, h1⟩

/-- array children carry their index, object children their key -/
theorem C06_array_index (h : Heap) (hw : h.WF) (p : Id) (hp : p < h.size) (ht : (h.get p).type = .array)
    (k : Bytes) (c : Id) (hc : (k, c) ∈ (h.get p).children.getD []) : (h.get c).index.map itoa = some k := by
  have := (child_facts h hw p hp k c hc).2.2.2
  simpa [ht] using this

theorem C06_object_key (h : Heap) (hw : h.WF) (p : Id) (hp : p < h.size) (ht : (h.get p).type = .object)
    (k : Bytes) (c : Id) (hc : (k, c) ∈ (h.get p).children.getD []) : (h.get c).key = some k := by
  have := (child_facts h hw p hp k c hc).2.2.2
  simpa [ht] using this

/-- an array of n children has exactly the keys "0" … "n-1" (so `GetIndex(i)` succeeds iff 0 ≤ i < Size()) -/
theorem C06_array_keys (h : Heap) (hw : h.WF) (p : Id) (hp : p < h.size) (ht : (h.get p).type = .array)
    (i : Nat) (hi : i < h.nchildren p) : ((h.childMap p).lookup (itoa i)).isSome = true := by
  have hnode := (wf_node h hw p hp).1
  unfold Heap.wfNode at hnode
  simp only [Bool.and_eq_true] at hnode
  obtain ⟨⟨⟨⟨_, harr⟩, _⟩, _⟩, _⟩ := hnode
  simp only [ht, bne_self_eq_false, Bool.false_or] at harr
  have := (List.all_eq_true.mp harr) i (List.mem_range.mpr (by simpa [Heap.nchildren, Heap.childMap] using hi))
  simpa [Heap.childMap] using this

/-- the child keys of any container are pairwise different (Size, Keys, Inheritors count the same children) -/
theorem C06_keys_nodup (h : Heap) (hw : h.WF) (p : Id) (hp : p < h.size) : keysNodup (h.childMap p).keys = true := by
  have hnode := (wf_node h hw p hp).1
  unfold Heap.wfNode at hnode
  simp only [Bool.and_eq_true] at hnode
  obtain ⟨⟨⟨⟨⟨_, hk⟩, _⟩, _⟩, _⟩, _⟩ := hnode
  simpa [Heap.childMap] using hk

/-- a scalar has no children -/
theorem C06_scalar_no_children (h : Heap) (hw : h.WF) (p : Id) (hp : p < h.size) (ht : (h.get p).type.isContainer = false) :
    h.nchildren p = 0 := by
  have hnode := (wf_node h hw p hp).1
  unfold Heap.wfNode at hnode
  simp only [Bool.and_eq_true] at hnode
  obtain ⟨⟨⟨_, hs⟩, _⟩, _⟩ := hnode
  simp [ht] at hs
  simp [Heap.nchildren, Heap.childMap, hs]

/-- the container `Parent()` names lists the node: detached nodes are exactly those without a parent -/
theorem C06_parent_lists_child (h : Heap) (hw : h.WF) (n q : Id) (hn : n < h.size) (hp : (h.get n).parent = some q) :
    q < h.size ∧ (h.get q).type.isContainer = true ∧ (h.childMap q).vals.contains n = true := by
  have hnode := (wf_node h hw n hn).1
  unfold Heap.wfNode at hnode
  simp only [Bool.and_eq_true] at hnode
  obtain ⟨⟨_, hpar⟩, _⟩ := hnode
  simp [hp] at hpar
  exact ⟨hpar.1.1.1, hpar.1.1.2, by simpa using hpar.1.2⟩

/-- no node is its own parent; every parent chain ends (no node is its own ancestor) -/
theorem C06_chain_ends (h : Heap) (hw : h.WF) (n : Id) (hn : n < h.size) : chainEnds (h.size + 1) h n = true :=
  (wf_node h hw n hn).2.1

/-! ### the same consequences from the propositional invariant `Struct` (which the mutators are proved to preserve, `Props.C05`) -/

/-- every node is held by at most one container, the one `Parent()` names -/
theorem C06_struct_single_owner {h : Heap} (hs : Proofs.Struct h) (p q : Nat) (hp : p < h.size) (hq : q < h.size)
    (kc kc' : Bytes × Id) (hcp : kc ∈ h.childMap p) (hcq : kc' ∈ h.childMap q) (he : kc.2 = kc'.2) :
    p = q ∧ (h.get kc.2).parent = some p := by
  have a := ((hs p hp).kids kc hcp).2.2.1
  have b := ((hs q hq).kids kc' hcq).2.2.1
  rw [← he, a] at b
  exact ⟨Option.some.inj b, a⟩

/-- detached nodes are exactly those without a parent: a node with a parent is listed by it -/
theorem C06_struct_parent_lists {h : Heap} (hs : Proofs.Struct h) (n q : Nat) (hn : n < h.size) (hp : (h.get n).parent = some q) :
    q < h.size ∧ (h.get q).type.isContainer = true ∧ (n : Id) ∈ (h.childMap q).vals :=
  let r := (hs n hn).par q hp; ⟨r.1, r.2.1, r.2.2.1⟩

/-- array children carry the indexes 0 … n-1, object children their key; keys are pairwise different -/
theorem C06_struct_positions {h : Heap} (hs : Proofs.Struct h) (p : Nat) (hp : p < h.size) :
    (h.childMap p).keys.Nodup ∧
    ((h.get p).type = .array → ∀ i : Nat, i < h.nchildren p → ∃ c, (h.childMap p).lookup (itoa i) = some c) ∧
    (∀ kc ∈ h.childMap p, if (h.get p).type = .array then (h.get kc.2).index.map itoa = some kc.1 else (h.get kc.2).key = some kc.1) :=
  ⟨(hs p hp).nodup, fun ha i hi => Option.isSome_iff_exists.mp ((hs p hp).dense ha i hi), fun kc hkc => ((hs p hp).kids kc hkc).2.2.2⟩

/-- a clean node still has its source, and everything below it is clean too: Marshal may copy its bytes -/
theorem C06_struct_clean {h : Heap} (hs : Proofs.Struct h) (p : Nat) (hp : p < h.size) (hc : (h.get p).dirty = false) :
    (h.get p).data.isSome = true ∧ (h.get p).b1 ≠ 0 ∧ ∀ kc ∈ h.childMap p, (h.get kc.2).dirty = false := (hs p hp).clean hc

/-- **every parsed document is structurally sound**: for EVERY accepted text the heap `Unmarshal` returns satisfies `Struct` (the
base case of the invariant; the mutators preserve it, `Props.C05`) -/
theorem C06_parsed_is_sound (data : Bytes) (v : Spec.STree) (hp : Spec.parseRef data = .ok v) :
    ∃ H, unmarshal data = .ok (H, 0) ∧ Proofs.Struct H := Proofs.struct_unmarshal data v hp

/-- … also when other documents already exist in the session (heap with ordered ids, as produced by parsing) -/
theorem C06_parsed_is_sound_on_heap {h : Heap} (hs : Proofs.Struct h) (ho : Proofs.HeapOrd h) (data : Bytes) (v : Spec.STree)
    (hp : Spec.parseRef data = .ok v) : ∃ H, unmarshalIn h data = .ok (H, h.size) ∧ Proofs.Struct H :=
  Proofs.struct_unmarshalIn hs ho data v hp

/-! ### no node is its own ancestor -/

/-- **the loop guard is exact**: on a sound acyclic heap `isParentOrSelfNode n x` answers yes exactly when x is n or one of its
ancestors (a parent chain has fewer links than there are nodes, so the guard's bounded walk sees all of them) — every request
that would close a cycle is rejected, and no other request is -/
theorem C06_loop_guard_exact {h : Heap} (hs : Proofs.Struct h) (ha : Proofs.Acyc h) (n : Nat) (hn : n < h.size) (x : Id) :
    h.isParentOrSelfNode n x = true ↔ Proofs.Anc h x n := Proofs.loop_guard_exact hs.pir ha n hn x

/-- every parsed document is sound and acyclic -/
theorem C06_parsed_acyclic (data : Bytes) (v : Spec.STree) (hp : Spec.parseRef data = .ok v) :
    ∃ H, unmarshal data = .ok (H, 0) ∧ Proofs.Struct H ∧ Proofs.Acyc H := Proofs.acyc_unmarshal data v hp

/-- deletions, the scalar setters and `mark` only cut parent links; the appends that pass the guard add a link that closes no cycle -/
theorem C06_acyclic_remove {h : Heap} (ha : Proofs.Acyc h) (n value : Id) : Proofs.Acyc (h.remove n value).1 := Proofs.acyc_remove ha n value

theorem C06_acyclic_set_scalar {h : Heap} (hs : Proofs.Struct h) (ha : Proofs.Acyc h) (n : Nat) (hn : n < h.size) (v : SetVal)
    (hv : v.type.isContainer = false) : Proofs.Acyc (h.update (some n) v).1 := Proofs.acyc_update_scalar hs ha n hn v hv

theorem C06_acyclic_append_object {h : Heap} (hs : Proofs.Struct h) (ha : Proofs.Acyc h) (n value : Nat) (hn : n < h.size) (hv : value < h.size)
    (hobj : (h.get n).type = .object) (hloop : h.isParentOrSelfNode n value = false) (hroot : (h.get value).parent = none)
    (k : Bytes) (hfresh : (h.childMap n).lookup k = none) : Proofs.Acyc (h.appendObject n k value).1 :=
  Proofs.acyc_appendObject_fresh hs ha n value hn hv hobj hloop hroot k hfresh

theorem C06_acyclic_append_array {h : Heap} (hs : Proofs.Struct h) (ha : Proofs.Acyc h) (n value : Nat) (hn : n < h.size) (hv : value < h.size)
    (harr : (h.get n).type = .array) (hloop : h.isParentOrSelfNode n value = false) (hroot : (h.get value).parent = none) :
    Proofs.Acyc (h.appendArray n [value]).1 := Proofs.acyc_appendArray_one hs ha n value hn hv harr hloop hroot

/-- non-vacuity: a parsed document and a document built by constructors and mutators are well formed -/
example : (match unmarshal "{\"a\":[1,{\"b\":null}],\"a\":2,\"c\":\"x\"}".toUTF8.toList with
    | .ok (h, _) => h.wfB
    | .error _ => false) = true := by decide +kernel

example :
    let (h1, a) := ({} : Heap).arrayNode [] (some [])
    let (h2, x) := h1.scalarNode [107] .numeric (some (.num 0x3FF0000000000000))
    let (h3, _) := h2.appendArray a [x]
    let (h4, y) := h3.scalarNode [] .null none
    let (h5, _) := h4.appendArray a [y, x]
    let (h6, _) := h5.popIndex (some a) 0
    h6.wfB = true := by decide +kernel

/-! ### all read views describe the same children -/

/-- **the views of an array agree**: on a sound heap `Inheritors()` — which places the children by their `index` FIELD — returns,
position by position, exactly the nodes `GetIndex(i)` finds under the decimal KEY `i`; there are `Size()` of them; and `GetArray()`
(and so `Value()`) fills an empty cell with that same list. The two bookkeepings of an array (index fields, keys of the children map)
never disagree. -/
theorem C06_array_views_agree {h : Heap} (hs : Proofs.Struct h) (n : Nat) (hn : n < h.size) (harr : (h.get n).type = .array) :
    h.inheritors n = .ok (Proofs.arrayIds (h.childMap n)) ∧ (Proofs.arrayIds (h.childMap n)).length = h.nchildren n ∧
    (∀ i, i < h.nchildren n → ∃ c, (Proofs.arrayIds (h.childMap n))[i]? = some c ∧ h.getIndex (some n) (i : Int) = .ok c) ∧
    ((h.get n).cache = none → (h.getArray (some n)).2 = .ok (Proofs.arrayIds (h.childMap n))) :=
  let r := Proofs.inheritors_array hs n hn harr
  ⟨r.1, r.2.1, r.2.2, Proofs.getArray_fresh hs n hn harr⟩

/-- … after ANY history of edit requests, clones and SetArray / SetObject assignments (every array of the resulting heap) -/
theorem C06_array_views_agree_after_any_history (ss : List Proofs.Step) (h : Heap) (hs : Proofs.Struct h) (ha : Proofs.Acyc h)
    (hv : Proofs.ValidSteps h ss) (n : Nat) (hn : n < (ss.foldl Proofs.Step.run h).size)
    (harr : ((ss.foldl Proofs.Step.run h).get n).type = .array) :
    (ss.foldl Proofs.Step.run h).inheritors n = .ok (Proofs.arrayIds ((ss.foldl Proofs.Step.run h).childMap n)) ∧
    (∀ i, i < (ss.foldl Proofs.Step.run h).nchildren n →
      ∃ c, (Proofs.arrayIds ((ss.foldl Proofs.Step.run h).childMap n))[i]? = some c ∧ (ss.foldl Proofs.Step.run h).getIndex (some n) (i : Int) = .ok c) :=
  let s := (Proofs.steps_sound ss h hs ha hv).1
  let r := Proofs.inheritors_array s n hn harr
  ⟨r.1, r.2.2⟩

/-- the views of an object agree: `Inheritors()` lists the values of the children map (sorted by key), `Keys()` its keys, and
`GetKey(k)` finds exactly the entries of that map -/
theorem C06_object_views_agree {h : Heap} (hs : Proofs.Struct h) (n : Nat) (hn : n < h.size) (hobj : (h.get n).type = .object) :
    h.inheritors n = .ok ((sortByKey (h.childMap n)).map (·.2)) ∧
    (∀ k c, (k, c) ∈ h.childMap n ↔ h.getKey (some n) k = .ok c) := by
  refine ⟨?_, fun k c => Proofs.members_is_getKey hs n hn hobj k c⟩
  unfold Heap.inheritors
  have h1 : h.isObject n = true := by simp [isObject, typeOf, hobj]
  simp only [h1, if_true]

/-- **`Unpack` describes the same children**: on a sound heap `Unpack` answers exactly `absSorted` (Proofs/UnpackValue), and `absSorted`
of an array is the list of `absSorted` of the nodes `Inheritors()`/`GetIndex(0..)` name (`arrayIds`, `C06_array_views_agree`), in that
order; of an object, the members `GetKey` finds, each under its key, in the key order `Inheritors()` lists them
(`C06_object_views_agree`). No assumption on earlier reads, none on how the heap came about beyond `Struct`. -/
theorem C06_unpack_describes_the_same_children {h : Heap} (hs : Proofs.Struct h) (fuel : Nat) (n : Nat) (hn : n < h.size) :
    (∀ v, (h.unpack (fuel + 1) n).2 = .ok v ↔ Proofs.absSorted (fuel + 1) h n = some v) ∧
    (∀ c ∈ (h.childMap n).vals, ∀ w, (h.unpack fuel c).2 = .ok w ↔ Proofs.absSorted fuel h c = some w) ∧
    ((h.get n).type = .array → Proofs.absSorted (fuel + 1) h n =
      ((Proofs.arrayIds (h.childMap n)).mapM (fun c => Proofs.absSorted fuel h c)).map JVal.arr) ∧
    ((h.get n).type = .object → Proofs.absSorted (fuel + 1) h n =
      ((sortByKey (h.childMap n)).mapM (fun p => (Proofs.absSorted fuel h p.2).map (fun v => (p.1, v)))).map JVal.obj) := by
  refine ⟨fun v => Proofs.unpack_iff_absSorted (fuel + 1) h n v hs hn, fun c hc w => ?_, fun ht => ?_, fun ht => ?_⟩
  · obtain ⟨kc, hkc, rfl⟩ := List.mem_map.mp hc
    exact Proofs.unpack_iff_absSorted fuel h kc.2 w hs ((hs n hn).kids kc hkc).1
  · conv => lhs; unfold Proofs.absSorted
    have : h.typeOf n = .array := ht
    simp only [this]
  · conv => lhs; unfold Proofs.absSorted
    have : h.typeOf n = .object := ht
    simp only [this]

/-- **GetArray and GetObject describe the same children as GetIndex and GetKey — also when their cell was filled before an edit**:
after any history of edit requests and reads in any order (`ReachedS`: edits, Clone, SetArray, SetObject, SetNode), from any sound heap whose container cells are right (every
parsed heap: `CellsAll.of_empty`), `GetArray()` of an array answers the nodes under the keys 0, 1, … (what `GetIndex` finds, in
order) and `GetObject()` of an object answers the children map (what `GetKey` finds): a cell filled by an earlier read is never
stale, because each mutator empties the cell of every container whose children it changes (`Step.cells`) -/
theorem C06_get_array_get_object_after_any_history {h h' : Heap} (hs : Proofs.Struct h) (hac : Proofs.Acyc h) (c : Proofs.CellsAll h)
    (R : Proofs.ReachedS h h') (n : Nat) (hn : n < h'.size) :
    (h'.typeOf n = .array → (h'.getArray (some n)).2 = .ok (Proofs.arrayIds (h'.childMap n))) ∧
    (h'.typeOf n = .object → (h'.getObject (some n)).2 = .ok (h'.childMap n)) := by
  obtain ⟨s', _, c'⟩ := Proofs.reachedS_sound R hs hac c
  exact ⟨fun ht => Proofs.getArray_value s' c'.ok n hn ht, fun ht => Proofs.getObject_value s' c'.ok n hn ht⟩

/-- **detached and replaced nodes have no parent**: the node a successful deletion removes (DeleteNode / Delete through `remove`,
DeleteKey / PopKey, DeleteIndex / PopIndex — the node the Pop variants hand back), and every former child of a node overwritten by
SetNull / SetNumeric / SetString / SetBool -/
theorem C06_detached_and_replaced_have_no_parent (h : Heap) (n : Nat) :
    (∀ v : Nat, v < h.size → (h.remove n v).2 = .ok () → ((h.remove n v).1.get v).parent = none) ∧
    (∀ k c, (h.popKey (some n) k).2 = .ok c → c < h.size → ((h.popKey (some n) k).1.get c).parent = none) ∧
    (∀ i c, (h.popIndex (some n) i).2 = .ok c → c < h.size → ((h.popIndex (some n) i).1.get c).parent = none) ∧
    (∀ (v : SetVal) (c : Nat), v.type.isContainer = false → c ∈ (h.childMap n).vals → c < h.size → c ≠ n →
      ((h.update (some n) v).1.get c).parent = none) :=
  ⟨fun v hv ok => Proofs.remove_detaches h n v hv ok, fun k c ok hc => Proofs.popKey_detaches h n k c ok hc,
   fun i c ok hc => Proofs.popIndex_detaches h n i c ok hc, fun v c hv hc hlt hne => Proofs.update_scalar_detaches h n c v hv hc hlt hne⟩

end Ajson.Props.C06
