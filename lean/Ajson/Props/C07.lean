/-
C07 — JSONPath selectors return exactly the designated nodes of the document.

Proved here, for every heap, working set and fuel:
* slices: the index list `sliceIndexes` computes from the bounds ApplyJSONPath prepares is Python's `a[s:e:st]` for every
  length, every pair of bounds (absent, negative, beyond either end) and every non-zero step, in Python's order
  (`C07_slice_is_python`, `C07_python_is_progression`, `C07_slice_order`), and the slice command selects exactly the children
  at those indices of every non-empty array in the working set (`C07_slice_command`);
* key / index / union: the result is the concatenation, key by key in the listed order and member by member, of the child
  under the unquoted key (objects) or at the index counted from the end when negative (arrays) (`C07_union`);
* `$`, `@`, `*`, `..` as closed forms (`C07_root`, `C07_current`, `C07_wildcard`, `C07_descendant`).
The commands are taken as tokenised by the model's tokenizer (hypothesis `tok`), which is tied to the implementation by the
`scan` correspondence stream; the tie of the children maps to the abstract document is the heap invariant (C06).
-/
import Ajson.Proofs.Slice
import Ajson.Proofs.PathSel

namespace Ajson.Props.C07
open Ajson Ajson.Heap Ajson.Spec Ajson.Proofs

/-! ### slices: the index arithmetic is Python's -/

/-- for every array length n, all bounds and every non-zero step, the indices the selector visits — after ApplyJSONPath's
default/negative-bound preparation and clamping — are exactly those of Python's `range(*slice(s,e,st).indices(n))`, in the
same order -/
theorem C07_slice_is_python (n : Nat) (s e : Option Int) (st : Int) (hst : st ≠ 0) :
    sliceIndexes n (ajsonBounds n s e st).1 (ajsonBounds n s e st).2 st = pySlice n s e st :=
  slice_python n s e st hst

/-- the reference itself is the arithmetic progression `start, start+st, …` cut off at `stop` -/
theorem C07_python_is_progression (n : Nat) (s e : Option Int) (st : Int) (hst : st ≠ 0) (k : Nat) :
    k ∈ pySlice n s e st ↔ k < n ∧ ∃ i : Nat, (k : Int) = (pyBounds n s e st).1 + i * st ∧
        (if st > 0 then (k : Int) < (pyBounds n s e st).2 else (k : Int) > (pyBounds n s e st).2) := by
  rw [mem_pySlice, pyVisits_iff_progression n s e st hst k]

/-- ascending for a positive step, descending for a negative one, never a repeated index -/
theorem C07_slice_order (n : Nat) (s e : Option Int) (st : Int) :
    if st > 0 then (pySlice n s e st).Pairwise (· < ·) else (pySlice n s e st).Pairwise (· > ·) :=
  pySlice_sorted n s e st

/-- concrete instances (tests of the statement, not the claim): `[1:3]`, `[::-1]`, `[-2:]`, `[4::-2]` (the D15 input), `[::2]` -/
example : pySlice 5 (some 1) (some 3) 1 = [1, 2] ∧ pySlice 3 none none (-1) = [2, 1, 0] ∧ pySlice 4 (some (-2)) none 1 = [2, 3]
    ∧ pySlice 3 (some 4) none (-2) = [2, 0] ∧ pySlice 5 none none 2 = [0, 2, 4] := by decide +kernel

/-- what the slice command selects below one node, in terms of the reference: the children at Python's indices -/
theorem C07_sliceSelect_python (h : Heap) (f0 f1 f2 : UInt64) (e : Id) (hst : F64.toInt f2 ≠ 0) :
    sliceSelect h f0 f1 f2 e =
      if h.isArray e && h.nchildren e > 0 then
        (pySlice (h.nchildren e) (boundOfF f0) (boundOfF f1) (F64.toInt f2)).filterMap (fun k => (h.childMap e).lookup (itoa k))
      else [] := by
  unfold sliceSelect
  split
  · rw [← C07_slice_is_python _ _ _ _ hst]
    simp only [ajsonBounds, boundOfF, Int.ofNat_eq_natCast]
    congr 2 <;> split <;> simp_all
  · rfl

/-- the slice command: for every working set, each non-empty array contributes its children at the slice's indices, in
order; everything else contributes nothing. Bounds are what `getNumberIndex` evaluates (hypotheses h0–h2; for absent and
plain integer texts see `getNumberIndex_empty/_plain`), NaN meaning "absent". -/
theorem C07_slice_command (env : Env) (fuel : Nat) (start : Id) (h : Heap) (i : Nat) (cmd : Bytes) (tokens : List Bytes)
    (hp : SliceCmd env.tbl cmd tokens) (result : List Id) (k0 k1 : Bytes) (rest : List Bytes) (f0 f1 f2 : UInt64)
    (hkeys : tokensSlice tokens [58] = k0 :: k1 :: rest)
    (h0 : ∀ e ∈ result, getNumberIndex env fuel h e k0 nanBits = (h, .ok f0))
    (h1 : ∀ e ∈ result, getNumberIndex env fuel h e k1 nanBits = (h, .ok f1))
    (h2 : ∀ e ∈ result, (if (k0 :: k1 :: rest).length < 3 then (h, Outcome.ok (F64.ofInt 1))
            else getNumberIndex env fuel h e ((k0 :: k1 :: rest).getD 2 []) (F64.ofInt 1)) = (h, .ok f2))
    (hstep : F64.toInt f2 ≠ 0) :
    applyCmd env (fuel + 1) start h i cmd result =
      (h, .ok (result.flatMap (fun e => if h.isArray e && h.nchildren e > 0 then
        (pySlice (h.nchildren e) (boundOfF f0) (boundOfF f1) (F64.toInt f2)).filterMap (fun k => (h.childMap e).lookup (itoa k))
        else []))) := by
  rw [C07_slice_cmd env fuel start h i cmd tokens hp result k0 k1 rest f0 f1 f2 hkeys h0 h1 h2 hstep]
  have : sliceSelect h f0 f1 f2 = fun e => if h.isArray e && h.nchildren e > 0 then
        (pySlice (h.nchildren e) (boundOfF f0) (boundOfF f1) (F64.toInt f2)).filterMap (fun k => (h.childMap e).lookup (itoa k))
        else [] := funext fun e => C07_sliceSelect_python h f0 f1 f2 e hstep
  rw [this]

/-- the hypotheses are satisfiable: `1:3` under the built-in table is a slice command with keys `1`, `3` -/
example : SliceCmd builtinTable (sBytes "1:3") [sBytes "1", sBytes ":", sBytes "3"] ∧
    tokensSlice [sBytes "1", sBytes ":", sBytes "3"] [58] = [sBytes "1", sBytes "3"] := by
  refine ⟨⟨by decide +kernel, by decide +kernel, by decide +kernel, by decide +kernel, by decide +kernel, by decide +kernel, by decide +kernel⟩, by decide +kernel⟩

/-! ### keys, indexes, unions -/

/-- key / index / union commands: for every working set the result is, key by key in the order the keys are written and
member by member, the child under that key — `selectKey`: for an object the member named by the unquoted key; for an array
the element at the index, counted from the end when negative; nothing otherwise (absent key, out of range, scalar) -/
theorem C07_union (env : Env) (fuel : Nat) (start : Id) (h : Heap) (i : Nat) (cmd : Bytes) (tokens : List Bytes)
    (hp : PlainCmd env.tbl cmd tokens) (result : List Id)
    (hkeys : ∀ k ∈ (if tokens.contains [44] then tokensSlice tokens [44] else [cmd]), OrdinaryKey k) :
    applyCmd env (fuel + 1) start h i cmd result =
      (h, .ok ((if tokens.contains [44] then tokensSlice tokens [44] else [cmd]).flatMap (fun k => result.flatMap (selectKey h k)))) :=
  Proofs.C07_union env fuel start h i cmd tokens hp result hkeys

/-- the hypotheses are satisfiable: `'a','b'` under the built-in table -/
example : PlainCmd builtinTable (sBytes "'a','b'") [sBytes "'a'", sBytes ",", sBytes "'b'"] ∧
    tokensSlice [sBytes "'a'", sBytes ",", sBytes "'b'"] [44] = [sBytes "'a'", sBytes "'b'"] ∧ OrdinaryKey (sBytes "'a'") := by
  refine ⟨⟨by decide +kernel, by decide +kernel, by decide +kernel, by decide +kernel, by decide +kernel, by decide +kernel, by decide +kernel, by decide +kernel⟩,
    by decide +kernel, ⟨by decide +kernel, by decide +kernel, by decide +kernel, by decide +kernel⟩⟩

/-- a single key on an object selects the member of that name and nothing else -/
theorem C07_key_on_object (h : Heap) (key : Bytes) (e : Id) (ho : h.isObject e = true) (ha : h.isArray e = false) :
    selectKey h key e = ((h.childMap e).lookup (strKey key).1).toList := by
  simp [selectKey, ho, ha]

/-- an index on a non-empty array selects the element at that position, negative positions counting from the end -/
theorem C07_index_on_array (h : Heap) (key : Bytes) (e : Id) (num : Int) (ha : h.isArray e = true)
    (hn : atoi (strKey key).1 = some num) (hne : h.nchildren e ≠ 0) :
    selectKey h key e = ((h.childMap e).lookup (itoaInt (if num < 0 then num + h.nchildren e else num))).toList := by
  simp [selectKey, ha, hn, hne, getPositiveIndex]

/-! ### `$`, `@`, `*`, `..` -/

theorem C07_root (env : Env) (fuel : Nat) (start : Id) (h : Heap) (toks : List Bytes)
    (ht : Cur.tokenize env.tbl [36] = .ok toks) :
    applyCmd env (fuel + 1) start h 0 [36] [] = (h, .ok [h.root start]) := C07_root_cmd env fuel start h toks ht

theorem C07_current (env : Env) (fuel : Nat) (start : Id) (h : Heap) (toks : List Bytes)
    (ht : Cur.tokenize env.tbl [64] = .ok toks) :
    applyCmd env (fuel + 1) start h 0 [64] [] = (h, .ok [start]) := C07_current_cmd env fuel start h toks ht

/-- the wildcard replaces the working set by the children of its members, in member order, each member's children in
`Inheritors` order (arrays by index, objects by sorted key) -/
theorem C07_wildcard (env : Env) (fuel : Nat) (start : Id) (h : Heap) (i : Nat) (toks : List Bytes)
    (ht : Cur.tokenize env.tbl [42] = .ok toks) (result : List Id) (kids : Id → List Id)
    (hk : ∀ e ∈ result, h.inheritors e = .ok (kids e)) :
    applyCmd env (fuel + 1) start h i [42] result = (h, .ok (result.flatMap kids)) :=
  Proofs.C07_wildcard env fuel start h i toks ht result kids hk

/-- `..` keeps the working set and adds all container descendants of its members -/
theorem C07_descendant (env : Env) (fuel : Nat) (start : Id) (h : Heap) (i : Nat) (toks : List Bytes)
    (ht : Cur.tokenize env.tbl [46, 46] = .ok toks) (result : List Id) (desc : Id → List Id)
    (hk : ∀ e ∈ result, h.recursiveChildren (h.size + 1) e = .ok (desc e)) :
    applyCmd env (fuel + 1) start h i [46, 46] result = (h, .ok (result ++ result.flatMap desc)) :=
  Proofs.C07_descendant env fuel start h i toks ht result desc hk

/-- the four fixed commands tokenise under the built-in table (so the hypotheses `ht` above hold for it) -/
example : Cur.tokenize builtinTable [36] = .ok [[36]] ∧ Cur.tokenize builtinTable [64] = .ok [[64]] ∧
    Cur.tokenize builtinTable [42] = .ok [[42]] ∧ (Cur.tokenize builtinTable [46, 46]).isOk = true := by
  decide +kernel

end Ajson.Props.C07
