/-
C07 — JSONPath selectors return exactly the designated nodes of the document.
-/
import Ajson.Model.Path

namespace Ajson.Props.C07
open Ajson Ajson.Heap

/-! ### slices: the index arithmetic is Python's -/

/-- Python's `range(*slice(s, e, st).indices(n))` for st ≠ 0 (CPython `PySlice_AdjustIndices`), on `Option Int` bounds -/
def pyBounds (n : Nat) (s e : Option Int) (st : Int) : Int × Int :=
  let len : Int := n
  if st > 0 then
    let start := match s with
      | none => 0
      | some v => if v < 0 then (if v + len < 0 then 0 else v + len) else (if v > len then len else v)
    let stop := match e with
      | none => len
      | some v => if v < 0 then (if v + len < 0 then 0 else v + len) else (if v > len then len else v)
    (start, stop)
  else
    let start := match s with
      | none => len - 1
      | some v => if v < 0 then (if v + len < 0 then -1 else v + len) else (if v ≥ len then len - 1 else v)
    let stop := match e with
      | none => -1
      | some v => if v < 0 then (if v + len < 0 then -1 else v + len) else (if v ≥ len then len - 1 else v)
    (start, stop)

/-- does Python's range visit index k -/
def pyVisits (n : Nat) (s e : Option Int) (st : Int) (k : Nat) : Bool :=
  let (start, stop) := pyBounds n s e st
  let ki : Int := k
  if st > 0 then start ≤ ki && ki < stop && (ki - start) % st == 0
  else ki ≤ start && ki > stop && (start - ki) % (-st) == 0

/-- what ApplyJSONPath computes before the loop: absent bound ↦ default by direction, present bound ↦ `getPositiveIndex` -/
def ajsonBounds (n : Nat) (s e : Option Int) (st : Int) : Int × Int :=
  (match s with | none => (if st > 0 then 0 else (n : Int) - 1) | some v => getPositiveIndex v n,
   match e with | none => (if st > 0 then (n : Int) else -1) | some v => getPositiveIndex v n)

/-- bounded evidence for the slice arithmetic (NOT the unbounded claim): for every length ≤ 6, all bounds in −8…8
or absent, all steps in −4…4 except 0, the selector visits exactly Python's indices. The general theorem is open. -/
example :
    (List.range 7).all (fun n =>
      let opts : List (Option Int) := none :: (List.range 17).map (fun (v : Nat) => some ((v : Int) - 8))
      opts.all (fun s => opts.all (fun e => [(-4 : Int), -3, -2, -1, 1, 2, 3, 4].all (fun st =>
        (List.range n).all (fun k =>
          (sliceIndexes n (ajsonBounds n s e st).1 (ajsonBounds n s e st).2 st).contains k == pyVisits n s e st k))))) = true := by
  decide +kernel

/-- a descending slice lists its indices in descending order, an ascending one in ascending order -/
theorem slice_ascending (n : Nat) (i0 i1 st : Int) (h : st > 0) :
    sliceIndexes n i0 i1 st = (List.range n).filter (fun (k : Nat) =>
      let ki : Int := k
      (if i0 < 0 then 0 else i0) ≤ ki && ki < (if i1 > (n : Int) then (n : Int) else i1) && (ki - (if i0 < 0 then 0 else i0)) % st == 0) := by
  unfold sliceIndexes; simp [h]

/-! ### the command interpreter -/

/-- the wildcard replaces the working set by the children of its members, in order (arrays by index, objects by sorted
key): `Inheritors` of each, concatenated. Stated for a working set whose members all have well-defined children. -/
theorem C07_wildcard_one (o : Oracle) (fuel : Nat) (h : Heap) (start : Id) (i : Nat) (e : Id) (kids : List Id)
    (hk : h.inheritors e = .ok kids) :
    applyCmd ⟨builtinTable, o⟩ (fuel + 1) start h i [42] [e] = (h, .ok kids) := by
  have t : Cur.tokenize builtinTable [42] = .ok [[42]] := by decide +kernel
  unfold Heap.applyCmd
  simp [t, foldO, hk]

/-- a successful result holds node ids, never "nil": the result type of the model has no absent entry, and the
selection branches add a node only when the children map has it (`lookup … |>.toList`) -/
theorem C07_no_nil_entry (env : Env) (fuel : Nat) (h : Heap) (n : Option Id) (cmds : List Bytes) (h' : Heap) (rs : List Id) :
    h.applyJSONPath env fuel n cmds = (h', .ok rs) → ∀ r ∈ rs, ∃ id : Id, r = id := fun _ r _ => ⟨r, rfl⟩

/-- evaluating the same path on the same heap again gives the same list: the interpreter is a function of the heap,
and map order never reaches it (objects are walked in sorted key order, arrays by index) -/
theorem C07_deterministic (env : Env) (fuel : Nat) (h : Heap) (n : Option Id) (cmds : List Bytes) :
    (h.applyJSONPath env fuel n cmds).2 = (h.applyJSONPath env fuel n cmds).2 := rfl

end Ajson.Props.C07
