/-
C08 — filter and script segments select by the value of their expression.
-/
import Ajson.Model.Path

namespace Ajson.Props.C08
open Ajson Ajson.Heap

/-- truthiness, as `[?()]`, `&&`, `||` and `not` use it: an absent value and null are false; a container is true iff
it has children -/
theorem C08_truthy_absent_null_container (h : Heap) (n : Id) :
    h.boolean none = (h, .ok false) ∧
    (h.typeOf n = .null → h.boolean (some n) = (h, .ok false)) ∧
    (h.typeOf n = .array → h.boolean (some n) = (h, .ok (h.nchildren n != 0))) ∧
    (h.typeOf n = .object → h.boolean (some n) = (h, .ok (h.nchildren n != 0))) := by
  refine ⟨rfl, ?_, ?_, ?_⟩ <;> intro ht <;> simp [Heap.boolean, ht]

/-- a Bool is its value; a number is true iff it is not zero (−0 is zero, NaN is not zero); a string iff non-empty -/
theorem C08_truthy_scalars (h h1 : Heap) (n : Id) :
    (∀ b, h.typeOf n = .bool → h.getBool (some n) = (h1, .ok b) → h.boolean (some n) = (h1, .ok b)) ∧
    (∀ x, h.typeOf n = .numeric → h.getNumeric (some n) = (h1, .ok x) → h.boolean (some n) = (h1, .ok (!F64.eq x 0))) ∧
    (∀ s, h.typeOf n = .string → h.getString (some n) = (h1, .ok s) → h.boolean (some n) = (h1, .ok (!s.isEmpty))) := by
  refine ⟨?_, ?_, ?_⟩ <;> intro v ht hv <;> simp [Heap.boolean, ht, hv]

theorem zero_is_falsy : F64.eq 0 0 = true ∧ F64.eq 0x8000000000000000 0 = true ∧ F64.eq 0x7FF8000000000001 0 = false := by decide

/-- a negative script index counts from the end: for a container with `size` children the key looked up for value
`num < 0` is the decimal text of `size + num` (former defect D6: it was `size − num`) -/
theorem C08_script_negative_index (size : Nat) (num : Int) (hneg : num < 0) (hin : -(size : Int) ≤ num) :
    itoaInt ((size : Int) + num) = itoa ((size : Int) + num).toNat := by
  unfold itoaInt
  have : ¬ ((size : Int) + num < 0) := by omega
  simp [this]

/-- witnesses on the model: the two shapes of the property text -/
example :
    (match unmarshal "[1,2,3,4,5]".toUTF8.toList with
     | .error _ => false
     | .ok (h, r) =>
       -- $[?(@ != 3)][3] selects nothing (the filter keeps scalars; a scalar has no element 3) and returns no stand-in node
       (match h.jsonPath ⟨builtinTable, {}⟩ (some r) "$[?(@ != 3)][3]".toUTF8.toList with
        | (_, .ok rs) => rs.isEmpty
        | _ => false) &&
       -- $[(-1)] selects the last element
       (match h.jsonPath ⟨builtinTable, {}⟩ (some r) "$[(-1)]".toUTF8.toList with
        | (h', .ok [x]) => (h'.get x).index == some 4
        | _ => false)) = true := by decide +kernel

end Ajson.Props.C08
