/-
C09 — expressions group by the documented precedence and associativity.
-/
import Ajson.Spec.Shunt
import Ajson.Proofs.ShuntCorrect

namespace Ajson.Props.C09
open Ajson Ajson.Cur Ajson.Spec

def sb (s : String) : Bytes := s.toUTF8.toList

/-! ### the regenerated registry equals the documented table -/

/-- the documented precedence table (doc.go / README / property statement): ** 6; * / % << >> & &^ 5; + - | ^ 4;
comparisons 3; && 2; || 1 -/
def documented : List (String × Nat) := [
  ("**", 6), ("*", 5), ("/", 5), ("%", 5), ("<<", 5), (">>", 5), ("&", 5), ("&^", 5), ("+", 4), ("-", 4), ("|", 4), ("^", 4),
  ("==", 3), ("!=", 3), ("<", 3), ("<=", 3), (">", 3), (">=", 3), ("=~", 3), ("&&", 2), ("||", 1)]

theorem builtin_matches_documented :
    documented.all (fun d => builtinTable.prio (sb d.1) == d.2) = true ∧ Gen.priority.length = documented.length := by
  decide +kernel

/-- `**` is the only right-grouping operator -/
theorem builtin_right_assoc : Gen.rightOp = [sb "**"] := by decide +kernel

/-- every operation has a priority, every priority entry is an operation, and every operation starts with a byte
registered in `priorityChar` (otherwise `rpn` would not even try to read it) -/
theorem builtin_table_wf :
    Gen.operationNames.all (fun o => builtinTable.prio o != 0 && (match o with | c :: _ => Gen.priorityChar.contains c | [] => false)) = true ∧
    Gen.priority.all (fun p => Gen.operationNames.contains p.1) = true := by decide +kernel

/-- no operation is also a function name or `(`: the stack classification of `popOps` is unambiguous -/
theorem builtin_disjoint :
    Gen.operationNames.all (fun o => !Gen.functionNames.contains o && o != [40]) = true := by decide +kernel

/-! ### the stack discipline, for EVERY table (built-in or user-registered) -/


theorem popOps_one (t : OpTable) (cur top : Bytes) (out : List Bytes) :
    popOps t cur [top] out = if yields t top cur then ([], out ++ [top]) else ([top], out) := by
  unfold popOps yields
  by_cases hf : t.isFunction top
  · simp [hf, popOps]
  · by_cases hp : t.prio top != 0
    · by_cases hy : (t.prio top > t.prio cur || (t.prio top == t.prio cur && !t.isRight top))
      · simp [hf, hp, hy, popOps]
      · simp [hf, hp, hy]
    · simp [hf, hp]

/-- `(` stops the popping: an operator never crosses a parenthesis -/
theorem popOps_stops_at_paren (t : OpTable) (cur : Bytes) (rest out : List Bytes)
    (hp : t.prio [40] = 0) (hf : t.isFunction [40] = false) :
    popOps t cur ([40] :: rest) out = ([40] :: rest, out) := by
  unfold popOps; simp [hp, hf]

/-- Closed form for three operands and two operators, for every table: `a o₁ b o₂ c` becomes `a b o₁ c o₂`
exactly when o₁ binds tighter than o₂, or equally tight and o₁ groups to the left; otherwise `a b c o₂ o₁`.
(o₁, o₂ operations with a priority, neither a function name.) This decides each of the 441 ordered pairs of
built-in operators — and any pair of user-registered ones — symbolically. -/
theorem C09_two_operators (t : OpTable) (a b c o1 o2 : Bytes)
    (h1 : t.prio o1 ≠ 0) (h2 : t.prio o2 ≠ 0) (f1 : t.isFunction o1 = false) (f2 : t.isFunction o2 = false) :
    shunt t [.operand a, .op o1, .operand b, .op o2, .operand c] =
      if t.prio o1 > t.prio o2 ∨ (t.prio o1 = t.prio o2 ∧ t.isRight o1 = false) then some [a, b, o1, c, o2]
      else some [a, b, c, o2, o1] := by
  have hy : yields t o1 o2 = decide (t.prio o1 > t.prio o2 ∨ (t.prio o1 = t.prio o2 ∧ t.isRight o1 = false)) := by
    unfold yields
    have h1' : (t.prio o1 != 0) = true := by simp [h1]
    simp only [f1, h1', Bool.false_or, Bool.true_and]
    by_cases hgt : t.prio o2 < t.prio o1 <;> by_cases heq : t.prio o1 = t.prio o2 <;> cases hr : t.isRight o1 <;> simp [hgt, heq, hr]
  have hstep : shuntLoop t [.operand a, .op o1, .operand b, .op o2, .operand c] [] [] =
      (let (stack', out') := popOps t o2 [o1] [a, b]; shuntLoop t [.operand c] (o2 :: stack') out') := by
    simp [shuntLoop, popOps]
  unfold shunt
  rw [hstep, popOps_one, hy]
  by_cases hc : (t.prio o1 > t.prio o2 ∨ (t.prio o1 = t.prio o2 ∧ t.isRight o1 = false))
  · simp [hc, shuntLoop, flushStack, h2, f2]
  · simp [hc, shuntLoop, flushStack, h1, h2, f1, f2]

/-- prefix function application binds tighter than any operator: `f ( a ) o b` is `a f b o` -/
theorem C09_function_binds_tighter (t : OpTable) (f a o b : Bytes)
    (hf : t.isFunction f = true) (ho : t.prio o ≠ 0) (fo : t.isFunction o = false)
    (hp : t.prio [40] = 0) (hfp : t.isFunction [40] = false) :
    shunt t [.fn f, .lparen, .operand a, .rparen, .op o, .operand b] = some [a, f, b, o] := by
  unfold shunt
  simp [shuntLoop, popParen, popOps, hf, flushStack, ho, fo]

/-- explicit parentheses override precedence: `( a o₁ b ) o₂ c` is `a b o₁ c o₂` whatever the priorities -/
theorem C09_parentheses (t : OpTable) (a b c o1 o2 : Bytes)
    (h1 : t.prio o1 ≠ 0) (h2 : t.prio o2 ≠ 0) (f1 : t.isFunction o1 = false) (f2 : t.isFunction o2 = false)
    (hp : t.prio [40] = 0) (hfp : t.isFunction [40] = false) (ne1 : o1 ≠ [40]) :
    shunt t [.lparen, .operand a, .op o1, .operand b, .rparen, .op o2, .operand c] = some [a, b, o1, c, o2] := by
  unfold shunt
  simp [shuntLoop, popOps, popParen, hp, hfp, ne1, flushStack, h2, f2]

/-! ### arbitrary nesting depth -/

/-- **C09, the grouping theorem.** For every operator table whose associativity is uniform per priority level and in which
`(` is neither an operator nor a function, and for every expression tree `e`: every way of writing `e` by the stratified
grammar of the documented rules (`Spec.Renders`: left-grouping operators take their right operand one level up,
right-grouping ones their left operand; calls and parenthesised sub-expressions are atoms; redundant parentheses anywhere)
is converted by the shunting yard into the postfix form of `e` — at any depth, with any number of operators. -/
theorem C09_any_depth (t : OpTable) (hu : Uniform t) (hp : ParenOK t) (e : Spec.Expr) (ts : List Tok) (h : Renders t 0 e ts) :
    shunt t ts = some (toPostfix e) := shunt_correct t hu hp e ts h

/-- the regenerated built-in table meets the two hypotheses -/
theorem builtin_uniform : Uniform builtinTable := uniform_of_check builtinTable (by decide +kernel)

theorem builtin_parenOK : ParenOK builtinTable := by constructor <;> decide +kernel

/-- hence: every rendering of every expression over the built-in operators is grouped as documented -/
theorem C09_builtin (e : Spec.Expr) (ts : List Tok) (h : Renders builtinTable 0 e ts) : shunt builtinTable ts = some (toPostfix e) :=
  shunt_correct builtinTable builtin_uniform builtin_parenOK e ts h

/-! ### operators the user registers (`AddOperation`) -/

/-- `AddOperation(alias, p, r, …)` files the operator under the lower-cased alias with exactly the declared priority … -/
theorem C09_registered_priority (t : OpTable) (a : Bytes) (p : Nat) (r : Bool) :
    (t.addOperation a p r).prio (OpTable.lowerAscii a) = p := by
  simp [OpTable.addOperation, OpTable.prio]

/-- … leaves every other operator's priority alone … -/
theorem C09_registered_priority_other (t : OpTable) (a b : Bytes) (p : Nat) (r : Bool) (hb : b ≠ OpTable.lowerAscii a) :
    (t.addOperation a p r).prio b = t.prio b := by
  have h1 : (OpTable.lowerAscii a == b) = false := by simp [Ne.symm hb]
  have h2 : List.find? (fun q : Bytes × Nat => q.1 == b) (t.priority.filter (fun q => q.1 != OpTable.lowerAscii a)) =
      List.find? (fun q : Bytes × Nat => q.1 == b) t.priority := by
    rw [List.find?_filter]
    congr 1
    funext q
    cases h : q.1 == b
    · simp
    · have : q.1 = b := by simpa using h
      simp [this, hb]
  simp only [OpTable.addOperation, OpTable.prio, List.find?, h1, h2]

/-- … and records the declared associativity (the registry never forgets a right-grouping entry) -/
theorem C09_registered_assoc (t : OpTable) (a : Bytes) (p : Nat) (r : Bool) :
    (t.addOperation a p r).isRight (OpTable.lowerAscii a) = (r || t.isRight (OpTable.lowerAscii a)) := by
  unfold OpTable.addOperation OpTable.isRight
  cases r <;> cases h : t.rightOp.contains (OpTable.lowerAscii a) <;> simp only [h, Bool.false_and, Bool.true_and, Bool.not_false,
    Bool.not_true, Bool.false_eq_true, if_false, if_true, Bool.or_false, Bool.or_true, Bool.false_or, Bool.true_or]
  simp

theorem C09_registered_assoc_other (t : OpTable) (a b : Bytes) (p : Nat) (r : Bool) (hb : b ≠ OpTable.lowerAscii a) :
    (t.addOperation a p r).isRight b = t.isRight b := by
  unfold OpTable.addOperation OpTable.isRight
  by_cases h : (r && !t.rightOp.contains (OpTable.lowerAscii a)) = true
  · simp only [h, if_true, List.contains_append, List.contains_cons, List.contains_nil, Bool.or_false]
    have : (b == OpTable.lowerAscii a) = false := by simp [hb]
    simp [this]
  · simp only [h]; rfl

/-- **the same rules apply to registered operators**: registering an operator at a level whose operators all group the way it is
declared to keeps the table uniform, so `C09_any_depth` holds for the extended table — every rendering of every expression tree
over built-in *and* registered operators is converted to that tree's postfix form -/
theorem C09_registered_uniform (t : OpTable) (hu : Uniform t) (a : Bytes) (p : Nat) (r : Bool)
    (hlevel : ∀ b : Bytes, b ≠ OpTable.lowerAscii a → t.prio b = p → t.prio b ≠ 0 → t.isRight b = r)
    (hold : t.isRight (OpTable.lowerAscii a) = true → r = true) : Uniform (t.addOperation a p r) := by
  have hself : (t.addOperation a p r).isRight (OpTable.lowerAscii a) = r := by
    rw [C09_registered_assoc]
    cases r
    · cases h : t.isRight (OpTable.lowerAscii a)
      · rfl
      · exact absurd (hold h) (by simp)
    · rfl
  intro x y hxy hx
  by_cases ex : x = OpTable.lowerAscii a <;> by_cases ey : y = OpTable.lowerAscii a
  · rw [ex, ey]
  · rw [ex, hself, C09_registered_assoc_other t a y p r ey]
    rw [ex, C09_registered_priority, C09_registered_priority_other t a y p r ey] at hxy
    rw [ex, C09_registered_priority] at hx
    exact (hlevel y ey hxy.symm (by rw [← hxy]; exact hx)).symm
  · rw [ey, hself, C09_registered_assoc_other t a x p r ex]
    rw [ey, C09_registered_priority, C09_registered_priority_other t a x p r ex] at hxy
    rw [C09_registered_priority_other t a x p r ex] at hx
    exact hlevel x ex hxy hx
  · rw [C09_registered_assoc_other t a x p r ex, C09_registered_assoc_other t a y p r ey]
    rw [C09_registered_priority_other t a x p r ex, C09_registered_priority_other t a y p r ey] at hxy
    rw [C09_registered_priority_other t a x p r ex] at hx
    exact hu x y hxy hx

theorem C09_registered_parenOK (t : OpTable) (hp : ParenOK t) (a : Bytes) (p : Nat) (r : Bool) (ha : OpTable.lowerAscii a ≠ [40]) :
    ParenOK (t.addOperation a p r) :=
  ⟨by rw [C09_registered_priority_other t a [40] p r (Ne.symm ha)]; exact hp.1, hp.2⟩

/-- e.g. a right-grouping `up` registered (in any letter case) at the level of `**`: chains group to the right -/
example : (match rpn (builtinTable.addOperation (sb "Up") 6 true) (sb "2 up 3 up 2") with
    | .ok r => r == [sb "2", sb "3", sb "2", sb "up", sb "up"] | _ => false) = true := by decide +kernel

/-- and the postfix stack machine of `eval` computes the value of that tree: for any semantics of atoms, functions and
operations, running the postfix form of `e` from an empty stack leaves exactly the value of `e` -/
theorem C09_postfix_evaluates_tree {V : Type} (t : OpTable) (s : Sem V) (e : Spec.Expr) (hw : WellNamed t e) :
    evalPost t s (toPostfix e) [] = (evalTree s e).map (fun v => [v]) := evalPost_value t s e hw

/-- non-vacuity: `1 ^ 2 * (3 - abs(4)) ** 5 ** 6` written without further parentheses is a rendering of the tree the documented
rules give it -/
example : Renders builtinTable 0
    (.bin (sb "^") (.atom (sb "1")) (.bin (sb "*") (.atom (sb "2"))
      (.bin (sb "**") (.bin (sb "-") (.atom (sb "3")) (.call (sb "abs") (.atom (sb "4")))) (.bin (sb "**") (.atom (sb "5")) (.atom (sb "6"))))))
    [.operand (sb "1"), .op (sb "^"), .operand (sb "2"), .op (sb "*"), .lparen, .operand (sb "3"), .op (sb "-"), .fn (sb "abs"), .lparen,
     .operand (sb "4"), .rparen, .rparen, .op (sb "**"), .operand (sb "5"), .op (sb "**"), .operand (sb "6")] := by
  have p4 : builtinTable.prio (sb "^") = 4 := by decide +kernel
  have p5 : builtinTable.prio (sb "*") = 5 := by decide +kernel
  have p6 : builtinTable.prio (sb "**") = 6 := by decide +kernel
  have pm : builtinTable.prio (sb "-") = 4 := by decide +kernel
  refine Renders.binL 0 (sb "^") _ _ [.operand (sb "1")] _ (by decide +kernel) (by decide +kernel) (by omega) (by decide +kernel)
    (Renders.atom _ _) ?_
  rw [p4]
  refine Renders.binL 5 (sb "*") _ _ [.operand (sb "2")] _ (by decide +kernel) (by decide +kernel) (by omega) (by decide +kernel)
    (Renders.atom _ _) ?_
  rw [p5]
  refine Renders.binR 6 (sb "**") _ _ [.lparen, .operand (sb "3"), .op (sb "-"), .fn (sb "abs"), .lparen, .operand (sb "4"), .rparen, .rparen] _
    (by decide +kernel) (by decide +kernel) (by omega) (by decide +kernel) ?_ ?_
  · rw [p6]
    refine Renders.paren 7 _ [.operand (sb "3"), .op (sb "-"), .fn (sb "abs"), .lparen, .operand (sb "4"), .rparen] ?_
    refine Renders.binL 0 (sb "-") _ _ [.operand (sb "3")] _ (by decide +kernel) (by decide +kernel) (by omega) (by decide +kernel)
      (Renders.atom _ _) ?_
    exact Renders.call _ (sb "abs") _ [.operand (sb "4")] (by decide +kernel) (Renders.atom _ _)
  · rw [p6]
    exact Renders.binR 6 (sb "**") _ _ [.operand (sb "5")] [.operand (sb "6")] (by decide +kernel) (by decide +kernel) (by omega) (by decide +kernel)
      (Renders.atom _ _) (Renders.atom _ _)

/-- the instance the property text names: with the built-in table `1 ^ 2 * 3` groups as `1 ^ (2 * 3)` -/
example : shunt builtinTable [.operand (sb "1"), .op (sb "^"), .operand (sb "2"), .op (sb "*"), .operand (sb "3")] =
    some [sb "1", sb "2", sb "3", sb "*", sb "^"] := by decide +kernel

/-- and on the byte-level model: same result through `rpn` -/
example : (match rpn builtinTable (sb "1 ^ 2 * 3") with | .ok r => r == [sb "1", sb "2", sb "3", sb "*", sb "^"] | _ => false) = true := by
  decide +kernel

example : (match rpn builtinTable (sb "2 ** 3 ** 2") with | .ok r => r == [sb "2", sb "3", sb "2", sb "**", sb "**"] | _ => false) = true := by
  decide +kernel

end Ajson.Props.C09
