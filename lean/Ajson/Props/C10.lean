/-
C10 — operators and functions compute their documented results or an error.
-/
import Ajson.Model.Ops
import Ajson.Gen.Registry
import Ajson.Proofs.ReadFrame2

namespace Ajson.Props.C10
open Ajson Ajson.Heap

/-! ### the regenerated registry is wired as documented -/

/-- Every `numericFunction` entry of the `functions` map is wired to the Go math function of the same name
(`"acos": math.Acos`, …): the regenerated wiring equals the model's table, which is the documented one. -/
theorem math_functions_wired :
    mathFunctions.all (fun p => Gen.functions.contains (p.1, "numericFunction:math." ++ p.2)) = true ∧
    (Gen.functions.filter (fun f => f.2.startsWith "numericFunction")).length = mathFunctions.length := by
  decide +kernel

/-- the shape of every operator implementation, as regenerated from math.go: operand coercions, result type and
expression, guards. This is the documented table of C10 (float arithmetic for `** * / + -`, integer semantics for
`% & | ^ &^ << >>`, comparisons through Eq/Le/Leq/Ge/Geq, truthiness for `&& ||`), with the zero-divisor guards. -/
theorem operators_as_documented : Gen.operations = [
    ("!=", "left.Eq", "Bool:false;Bool:!res guards=left==nil||right==nil"),
    ("%", "left.getInteger;right.getInteger", "Numeric:float64(lnum%rnum) guards=rnum==0"),
    ("&", "_ints", "Numeric:float64(lnum&rnum)"),
    ("&&", "boolean;boolean", "Bool:bool(res) guards=lval"),
    ("&^", "_ints", "Numeric:float64(lnum&^rnum)"),
    ("*", "_floats", "Numeric:float64(lnum*rnum)"),
    ("**", "_floats", "Numeric:math.Pow(lnum,rnum)"),
    ("+", "left.IsString;_strings;_floats", "String:lnum+rnum;Numeric:float64(lnum+rnum) guards=left.IsString()"),
    ("-", "_floats", "Numeric:float64(lnum-rnum)"),
    ("/", "_floats", "Numeric:float64(lnum/rnum) guards=rnum==0"),
    ("<", "left.Le", "Bool:false;Bool:bool(res) guards=left==nil||right==nil"),
    ("<<", "left.getInteger;right.getUInteger", "Numeric:float64(lnum<<rnum)"),
    ("<=", "left.Leq", "Bool:false;Bool:bool(res) guards=left==nil||right==nil"),
    ("==", "left.Eq", "Bool:false;Bool:res guards=left==nil||right==nil"),
    ("=~", "right.GetString;left.GetString", "Bool:res"),
    (">", "left.Ge", "Bool:false;Bool:bool(res) guards=left==nil||right==nil"),
    (">=", "left.Geq", "Bool:false;Bool:bool(res) guards=left==nil||right==nil"),
    (">>", "left.getInteger;right.getUInteger", "Numeric:float64(lnum>>rnum)"),
    ("^", "_ints", "Numeric:float64(lnum^rnum)"),
    ("|", "_ints", "Numeric:float64(lnum|rnum)"),
    ("||", "boolean;boolean", "Bool:bool(res) guards=!lval")] := by decide +kernel

/-- every registered function name is known to the model (a new built-in must be specified before the build passes) -/
theorem registry_covered :
    Gen.functionNames.all (fun f => mathFunctions.any (fun p => sBytes p.1 == f) ||
      ["pow10", "length", "size", "factorial", "avg", "sum", "b64decode", "b64encode", "b64encoden", "not", "rand", "randint", "last", "first",
       "parent", "root", "key", "is_null", "is_numeric", "is_int", "is_uint", "is_float", "is_string", "is_bool", "is_array", "is_object"].any
        (fun n => sBytes n == f)) = true := by decide +kernel

/-! ### coercions -/

/-- `getInteger`: anything but a Numeric node (incl. an absent operand) is a type error -/
theorem getInteger_wrong_type (h : Heap) (n : Option Id) (hn : ∀ m, n = some m → h.typeOf m ≠ .numeric) :
    h.getInteger n = (h, .err (errT .wrongType)) := by
  unfold Heap.getInteger
  cases n with
  | none => rfl
  | some m => simp [hn m rfl]

/-- `getInteger`: a number that is not integral is refused ("non-integer where an integer is required") -/
theorem getInteger_non_integral (h : Heap) (m : Id) (b : UInt64) (ht : h.typeOf m = .numeric)
    (hv : h.getNumeric (some m) = (h, .ok b)) (hb : F64.isIntegral b = false) :
    h.getInteger (some m) = (h, .err (errT .wrongRequest)) := by
  unfold Heap.getInteger; simp [ht, hv, hb]

/-- a negative shift count is refused -/
theorem getUInteger_negative (h : Heap) (n : Option Id) (h1 : Heap) (i : Int) (hi : h.getInteger n = (h1, .ok i)) (hneg : i < 0) :
    h.getUInteger n = (h1, .err (errT .wrongRequest)) := by
  unfold Heap.getUInteger; simp [hi, hneg]

/-- integrality is decided exactly on the bit pattern: NaN and ±Inf are not integral, ±0 is -/
theorem isIntegral_examples :
    F64.isIntegral 0 = true ∧ F64.isIntegral 0x8000000000000000 = true ∧ F64.isIntegral 0x3FF0000000000000 = true ∧
    F64.isIntegral 0x3FE0000000000000 = false ∧ F64.isIntegral 0x7FF0000000000000 = false ∧ F64.isIntegral 0x7FF8000000000001 = false ∧
    F64.isIntegral 0x4340000000000000 = true ∧ F64.isIntegral 0x0000000000000001 = false := by decide +kernel

/-! ### zero divisors and non-positive bounds are errors, not crashes -/

theorem C10_rem_zero (o : Oracle) (h : Heap) (l r : Option Id) (h1 h2 : Heap) (a : Int)
    (hl : h.getInteger l = (h1, .ok a)) (hr : h1.getInteger r = (h2, .ok 0)) :
    h.applyOp o (sBytes "%") l r = (h2, .err (errT .wrongRequest)) := by
  unfold Heap.applyOp
  have e1 : (sBytes "%" == sBytes "**") = false := by decide +kernel
  have e2 : (sBytes "%" == sBytes "*") = false := by decide +kernel
  have e3 : (sBytes "%" == sBytes "/") = false := by decide +kernel
  have e4 : (sBytes "%" == sBytes "%") = true := by decide +kernel
  simp only [e1, e2, e3, e4, Bool.false_eq_true, if_false, if_true]
  simp [liftErr, hl, hr]

theorem C10_div_zero (o : Oracle) (h : Heap) (l r : Option Id) (h2 : Heap) (a b : UInt64)
    (hf : h.floats2 l r = (h2, .ok (a, b))) (hz : F64.eq b 0 = true) :
    h.applyOp o (sBytes "/") l r = (h2, .err (errT .wrongRequest)) := by
  unfold Heap.applyOp
  have e1 : (sBytes "/" == sBytes "**") = false := by decide +kernel
  have e2 : (sBytes "/" == sBytes "*") = false := by decide +kernel
  have e3 : (sBytes "/" == sBytes "/") = true := by decide +kernel
  simp only [e1, e2, e3, Bool.false_eq_true, if_false, if_true]
  simp [liftErr, hf, hz]

/-- `randint` of a non-positive bound is an error -/
theorem C10_randint_nonpositive (o : Oracle) (h : Heap) (n : Id) (h1 : Heap) (i : Int)
    (hi : h.getInteger (some n) = (h1, .ok i)) (hle : i ≤ 0) :
    h.applyFn o (sBytes "randint") (some n) = (h1, .err (errT .wrongRequest)) := by
  unfold Heap.applyFn
  have hm : mathFunctions.find? (fun p => sBytes p.1 == sBytes "randint") = none := by decide +kernel
  simp only [hm]
  have e1 : (sBytes "randint" == sBytes "pow10") = false := by decide +kernel
  have e2 : (sBytes "randint" == sBytes "length") = false := by decide +kernel
  have e3 : (sBytes "randint" == sBytes "size") = false := by decide +kernel
  have e4 : (sBytes "randint" == sBytes "factorial") = false := by decide +kernel
  have e5 : (sBytes "randint" == sBytes "avg") = false := by decide +kernel
  have e6 : (sBytes "randint" == sBytes "sum") = false := by decide +kernel
  have e7 : (sBytes "randint" == sBytes "b64decode") = false := by decide +kernel
  have e8 : (sBytes "randint" == sBytes "b64encode") = false := by decide +kernel
  have e9 : (sBytes "randint" == sBytes "b64encoden") = false := by decide +kernel
  have e10 : (sBytes "randint" == sBytes "not") = false := by decide +kernel
  have e11 : (sBytes "randint" == sBytes "rand") = false := by decide +kernel
  have e12 : (sBytes "randint" == sBytes "randint") = true := by decide +kernel
  simp only [e1, e2, e3, e4, e5, e6, e7, e8, e9, e10, e11, e12, Bool.false_eq_true, if_false, if_true, Bool.or_self, Bool.false_or]
  simp [liftErr, hi, hle]

/-- an operator given an operand of the wrong type (or an absent one) reports an error: the float operators -/
theorem C10_float_op_wrong_type (h : Heap) (l r : Option Id) (hl : ∀ m, l = some m → h.typeOf m ≠ .numeric) :
    (h.floats2 l r).2.isErr = true := by
  unfold Heap.floats2 Heap.getNumeric
  cases l with
  | none => simp [Outcome.isErr]
  | some m => simp [hl m rfl, Outcome.isErr]

/-- operators and functions leave the document as it is (C13 for expressions): coercions only fill caches -/
theorem C10_coercions_pure (h : Heap) (n : Option Id) :
    SameButCaches h (h.getInteger n).1 ∧ SameButCaches h (h.boolean n).1 := by
  constructor
  · unfold Heap.getInteger
    cases n with
    | none => exact SameButCaches.refl h
    | some m =>
      simp only []
      split
      · exact SameButCaches.refl h
      · have := getNumeric_frame h (some m)
        split <;> (rename_i heq; rw [heq] at this; first | (split <;> exact this) | exact this)
  · unfold Heap.boolean
    cases n with
    | none => exact SameButCaches.refl h
    | some m =>
      simp only []
      split
      · exact getBool_frame h (some m)
      · have := getNumeric_frame h (some m)
        split <;> (rename_i heq; rw [heq] at this; exact this)
      · have := getString_frame h (some m)
        split <;> (rename_i heq; rw [heq] at this; exact this)
      · exact SameButCaches.refl h
      · exact SameButCaches.refl h
      · exact SameButCaches.refl h

end Ajson.Props.C10
