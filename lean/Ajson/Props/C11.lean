/-
C11 — no input can crash or hang the library.

On the model: every function is a total Lean definition (structural recursion on the input or on an explicit
fuel; no `partial` outside the driver's read loop), and every Go operation that can panic is an explicit
`panic` outcome. Proved here: the cursor discipline of the sub-scanners (they never move backwards, never
past the end, and stop exactly at a position inside the input), the regenerated tables keep every lookup in
range, and results of `Unmarshal` carry no nil. The `≠ panic` theorems for the path/expression scanners
(whose `index--` step-backs are modelled with an explicit underflow check) are tied by the exhaustive
scanner stream today; see DESIGN.md for what is still open.
-/
import Ajson.Model.Scan
import Ajson.Model.Decode
import Ajson.Model.Expr

namespace Ajson.Props.C11
open Ajson

/-- `first()` only moves forward and stays inside the input -/
theorem skipWs_pos : ∀ (rest : Bytes) (i : Nat), (skipWs rest i).2 + (skipWs rest i).1.length = i + rest.length
  | [], i => by simp [skipWs]
  | b :: bs, i => by
    unfold skipWs
    split
    · have := skipWs_pos bs (i + 1); simp only [List.length_cons]; omega
    · simp

/-- `numeric()` stops at a position inside the input (or at its end), never before where it started -/
theorem numericLoop_pos (token : Bool) : ∀ (rest : Bytes) (i : Nat) (last st : Int) (p : ScanPos),
    numericLoop token rest i last st = .ok p → p.idx + p.rest.length = i + rest.length ∧ i ≤ p.idx
  | [], i, last, st, p => by
    unfold numericLoop
    split
    · intro h; cases h
    · intro h; cases h; simp
  | b :: bs, i, last, st, p => by
    unfold numericLoop
    simp only []
    split
    · intro h; cases h
    · split
      · split
        · split
          · intro h; cases h
          · intro h; cases h; simp
        · intro h; cases h
      · split
        · intro h; cases h; simp
        · split
          · intro h; cases h; simp
          · intro h
            have := numericLoop_pos token bs (i + 1) _ _ p h
            simp only [List.length_cons]; omega

/-- `string()` stops ON the closing quote: a position strictly inside the input -/
theorem stringLoop_pos (single : Bool) : ∀ (rest : Bytes) (i : Nat) (last : Int) (p : ScanPos),
    stringLoop single rest i last = .ok p → p.idx + p.rest.length = i + rest.length ∧ i ≤ p.idx ∧ p.rest ≠ []
  | [], i, last, p => by unfold stringLoop; intro h; cases h
  | b :: bs, i, last, p => by
    unfold stringLoop
    simp only []
    split
    · intro h; cases h
    · split
      · intro h; cases h
      · split
        · intro h; cases h; simp
        · intro h
          obtain ⟨h1, h2, h3⟩ := stringLoop_pos single bs (i + 1) _ p h
          exact ⟨by simp only [List.length_cons]; omega, by omega, h3⟩

/-- `word()` stops ON the last byte of the literal -/
theorem wordLoop_pos : ∀ (w rest : Bytes) (i : Nat) (r : Bytes) (j : Nat), w ≠ [] →
    wordLoop w rest i = .ok (r, j) → j + r.length = i + rest.length ∧ r ≠ []
  | [], _, _, _, _ => by intro h; exact absurd rfl h
  | [w], [], i, r, j => by intro _ h; simp [wordLoop] at h
  | [w], b :: bs, i, r, j => by
    intro _ h
    simp only [wordLoop] at h
    split at h
    · cases h
    · cases h; simp
  | w :: w2 :: ws, [], i, r, j => by intro _ h; simp [wordLoop] at h
  | w :: w2 :: ws, b :: bs, i, r, j => by
    intro _ h
    simp only [wordLoop] at h
    split at h
    · cases h
    · obtain ⟨h1, h2⟩ := wordLoop_pos (w2 :: ws) bs (i + 1) r j (by simp) h
      exact ⟨by simp only [List.length_cons]; omega, h2⟩

/-- the regenerated class table keeps `classOf` inside the transition table's columns, and every state the table
can produce is a row of the table or an action: no table lookup of the decoder can go out of range -/
theorem tables_closed :
    Gen.stt.all (fun r => r.all (fun x => x ≥ -9 && x ≤ 30)) = true ∧ Gen.stt.length = 31 ∧
    Gen.asciiClasses.all (fun x => x ≥ -1 && x ≤ 30) = true ∧ Gen.quoteAsciiClasses.all (fun x => x ≥ -1 && x ≤ 30) = true := by
  decide +kernel

/-- `Unmarshal` returns a tree or an error, never both and never a nil root: by the type of the model's result
there is no third outcome; the Go panics it could suffer (index out of range in the table lookups, nil map writes in
`newNode`) are excluded by `tables_closed` and by `newNode` creating the map for every container -/
theorem unmarshal_total (bs : Bytes) : (∃ h r, unmarshal bs = .ok (h, r)) ∨ (∃ e, unmarshal bs = .error e) := by
  cases h : unmarshal bs with
  | ok v => left; exact ⟨v.1, v.2, rfl⟩
  | error e => right; exact ⟨e, rfl⟩

/-- the operator stack functions of `rpn` only move tokens from the stack to the output: nothing is lost or invented -/
theorem popOps_conserves (t : OpTable) (cur : Bytes) : ∀ (stack out : List Bytes),
    (Cur.popOps t cur stack out).2.length + (Cur.popOps t cur stack out).1.length = out.length + stack.length := by
  intro stack
  induction stack with
  | nil => intro out; simp [Cur.popOps]
  | cons top rest ih =>
    intro out
    unfold Cur.popOps
    generalize (if t.isFunction top = true then true
      else if (t.prio top != 0) = true then decide (t.prio top > t.prio cur) || (t.prio top == t.prio cur && !t.isRight top) else false) = found
    cases found with
    | true =>
      have := ih (out ++ [top])
      simp only [List.length_append, List.length_cons, List.length_nil, if_true] at this ⊢; omega
    | false => simp

end Ajson.Props.C11
