/-
C11 — no input can crash or hang the library.

On the model every function is a total Lean definition (structural recursion on the input or on an explicit fuel; no
`partial` outside the driver's read loop) and every Go operation that can panic is an explicit `panic` outcome: the
`index--` step-backs of the scanners carry an explicit underflow check, running out of fuel is itself a panic outcome.
Proved here, for EVERY byte string (and every operator table):
* `tokenize`, `rpn` and `ParseJSONPath` never yield a panic outcome — no step-back underflows, no loop runs out of fuel
  (every iteration moves the cursor forward over the same data), `token()` included;
* the decoder loop's fuel is never what ends it (at most one iteration per remaining byte);
* `keys[1]` of a slice command exists whenever ApplyJSONPath indexes it;
* the cursor discipline of the sub-scanners and the closure of the regenerated tables.
What is NOT proved: fuel adequacy of the mutual recursion ApplyJSONPath/eval/getNumberIndex (nested filters), stack
exhaustion and wall-clock bounds (runtime facts; watchdog in the harness).
-/
import Ajson.Proofs.NoPanic
import Ajson.Proofs.UnpackTotal

namespace Ajson.Props.C11
open Ajson Ajson.Proofs Ajson.Heap

/-! ### sub-scanners -/

theorem skipWs_pos (rest : Bytes) (i : Nat) : (skipWs rest i).2 + (skipWs rest i).1.length = i + rest.length :=
  Proofs.skipWs_pos rest i

/-- `numeric()` stops at a position inside the input (or at its end), never before where it started -/
theorem numericLoop_pos (token : Bool) (rest : Bytes) (i : Nat) (last st : Int) (p : ScanPos)
    (h : numericLoop token rest i last st = .ok p) : p.idx + p.rest.length = i + rest.length ∧ i ≤ p.idx :=
  Proofs.numericLoop_pos token rest i last st p h

/-- `string()` stops ON the closing quote: a position strictly inside the input -/
theorem stringLoop_pos (single : Bool) (rest : Bytes) (i : Nat) (last : Int) (p : ScanPos)
    (h : stringLoop single rest i last = .ok p) : p.idx + p.rest.length = i + rest.length ∧ i ≤ p.idx ∧ p.rest ≠ [] :=
  Proofs.stringLoop_pos single rest i last p h

/-- `word()` stops ON the last byte of the literal -/
theorem wordLoop_pos (w rest : Bytes) (i : Nat) (r : Bytes) (j : Nat) (hw : w ≠ [])
    (h : wordLoop w rest i = .ok (r, j)) : j + r.length = i + rest.length ∧ r ≠ [] ∧ i ≤ j :=
  ⟨(Proofs.wordLoop_pos w rest i r j hw h).1, (Proofs.wordLoop_pos w rest i r j hw h).2, Proofs.wordLoop_ge w rest i r j h⟩

/-- the regenerated class table keeps `classOf` inside the transition table's columns, and every state the table
can produce is a row of the table or an action: no table lookup of the decoder can go out of range -/
theorem tables_closed :
    Gen.stt.all (fun r => r.all (fun x => x ≥ -9 && x ≤ 30)) = true ∧ Gen.stt.length = 31 ∧
    Gen.asciiClasses.all (fun x => x ≥ -1 && x ≤ 30) = true ∧ Gen.quoteAsciiClasses.all (fun x => x ≥ -1 && x ≤ 30) = true := by
  decide +kernel

/-- (regenerated table fact) a byte on which the expression scanners start `numeric()` is either rejected or consumed:
the step-back after a number can never underflow or stall -/
theorem number_start_consumes (c : UInt8) (bs : Bytes) (i : Nat) (p : ScanPos) (hc : numStart c = true)
    (h : numericLoop true (c :: bs) i Gen.sGO Gen.sGO = .ok p) : i < p.idx :=
  numericLoop_strict c bs i p hc h

/-! ### the expression and path scanners never panic -/

/-- `tokenize`: for every operator table and every byte string the outcome is a token list or an error -/
theorem C11_tokenize_no_panic (t : OpTable) (cmd : Bytes) : ∀ s, Cur.tokenize t cmd ≠ .panic s := by
  intro s h; have := tokenize_no_panic t cmd; rw [h] at this; exact this

/-- `rpn`: the same, for every table that has no constant with the empty name (`AddConstant("")` is the one way to make
the identifier branch stall; the built-in table has none) -/
theorem C11_rpn_no_panic (t : OpTable) (hempty : t.isConstant [] = false) (expr : Bytes) : ∀ s, Cur.rpn t expr ≠ .panic s := by
  intro s h; have := rpn_no_panic t hempty expr; rw [h] at this; exact this

theorem builtin_no_empty_constant : builtinTable.isConstant [] = false := by decide +kernel

theorem C11_rpn_no_panic_builtin (expr : Bytes) : ∀ s, Cur.rpn builtinTable expr ≠ .panic s :=
  C11_rpn_no_panic builtinTable builtin_no_empty_constant expr

/-- `ParseJSONPath`: for every byte string the outcome is a command list or an error -/
theorem C11_parseJSONPath_no_panic (path : Bytes) : ∀ s, parseJSONPath path ≠ .panic s := by
  intro s h; have := parseJSONPath_no_panic path; rw [h] at this; exact this

/-- `token()` from any position inside the input: never a panic; a plain result lies strictly after the start, so the
callers' `index--` is safe -/
theorem C11_token_ok (b : Cur) (hb : b.index ≤ b.length) : TokOK b.data b.index b.token := token_spec b hb

/-- `keys[1]` exists whenever the slice branch of ApplyJSONPath is taken -/
theorem C11_slice_keys (tokens : List Bytes) (h : tokens.contains [58] = true) :
    ∃ k0 k1 rest, tokensSlice tokens [58] = k0 :: k1 :: rest := tokensSlice_two tokens [58] h

/-! ### the decoder -/

/-- the fuel of the decoder loop is never what ends it: every fuel above the length of the remaining input gives the same
result, i.e. the Go loop makes at most one iteration per remaining byte and the model's result is not an artefact of its
fuel -/
theorem C11_decoder_fuel_irrelevant (d : Nat) (f1 f2 : Nat) (s : DState) (rest : Bytes) (idx : Nat)
    (h1 : rest.length < f1) (h2 : rest.length < f2) : decodeLoop d f1 s rest idx = decodeLoop d f2 s rest idx :=
  decodeLoop_fuel d f1 f2 s rest idx h1 h2

/-- every step of the decoder reports as its last consumed byte a position of the input it was given -/
theorem C11_decoder_step_inside (d : Nat) (s : DState) (b : UInt8) (bs : Bytes) (idx : Nat) :
    Shrinks (b :: bs) (decodeStep d s b bs idx) := decodeStep_shrinks d s b bs idx

/-- concrete runs (tests of the statements): a step-back at index 0 region, nested brackets, an unterminated quote -/
example : Cur.tokenize builtinTable (sBytes "-1+@.a[(@.length-1)]") = .ok [sBytes "-1", sBytes "+", sBytes "@.a[(@.length-1)]"] ∧
    (Cur.rpn builtinTable (sBytes "@.a['")).isOk = false ∧ (parseJSONPath (sBytes "$[?(@.a == ']')]")).isOk = true := by
  decide +kernel

/-- the operator stack functions of `rpn` only move tokens from the stack to the output: nothing is lost or invented -/
theorem popOps_conserves (t : OpTable) (cur : Bytes) : ∀ (stack out : List Bytes),
    (Cur.popOps t cur stack out).2.length + (Cur.popOps t cur stack out).1.length = out.length + stack.length := by
  intro stack
  induction stack with
  | nil => intro out; simp [Cur.popOps]
  | cons top rest ih =>
    intro out
    unfold Cur.popOps
    generalize (if t.isFunction top = true then true
      else if (t.prio top != 0) = true then decide (t.prio top > t.prio cur) || (t.prio top == t.prio cur && !t.isRight top) else false) = found
    cases found with
    | true =>
      have := ih (out ++ [top])
      simp only [List.length_append, List.length_cons, List.length_nil, if_true] at this ⊢; omega
    | false => simp

/-- **`Unpack` is bounded and total up to range errors**: on every sound acyclic heap — every parsed document and whatever steps and
reads make of it — the fuel "number of nodes" suffices for `Unpack` of every node (the subtree of a node of such a heap is a tree of
allocated nodes of depth at most the number of nodes: `clone_hypothesis`), so `Unpack` never runs out of fuel, never panics, and
fails only where a scalar has no value: if every numeric, string and bool node has a value of its type (`ScalarsOK` — false only for
a number literal outside the float64 range or a string that does not unquote, which the parser rejects), `Unpack` answers. -/
theorem C11_unpack_total {h : Heap} (hs : Proofs.Struct h) (ha : Proofs.Acyc h) (sc : Proofs.ScalarsOK h) (n : Nat) (hn : n < h.size) :
    (∃ v, (h.unpack h.size n).2 = .ok v) ∧ ∃ v, (h.unpack (h.size + 1) n).2 = .ok v :=
  Proofs.unpack_total hs ha sc n hn

end Ajson.Props.C11
