/-
C12 — concurrent readers are safe and see the same document.

The argument for ALL schedules has three parts:
 (1) static, over the regenerated facts (`Gen.Effects`): in every function reachable from a read-only
     entry point, the only writes to memory that other goroutines can see are `atomic.Value.Store`s
     into the cache cell of the node being read (`Node.getValue`); every other write goes to a node the
     function itself has just allocated, and no `atomic.Value` is ever copied by plain assignment;
 (2) on the model: the value stored is a function of fields that no read changes (`C13`), so every
     store of a cell stores the same value — stores are idempotent, and a reader that loads the cell
     sees either "empty" (and recomputes the same value) or that value;
 (3) the Go memory model: atomic Load/Store of `atomic.Value` are synchronising operations, plain reads
     of fields nobody writes cannot race.  (3) is trusted, not proved; the `race` program of the harness
     (go build -race) looks for counterexamples.
-/
import Ajson.Spec.Static
import Ajson.Proofs.ReadFrame2

set_option maxRecDepth 1000000

namespace Ajson.Props.C12
open Ajson Ajson.Heap Ajson.Spec

/-- `readReachable` is closed under the call edges (12 rounds reached the fixpoint) -/
theorem reach_closed : reachStep Gen.callEdgesN readReachable = readReachable := by decide +kernel

/-- (1a) no read-reachable function copies an `atomic.Value` by plain assignment or struct copy
(`value: n.value`, `*n = *node`): the former race of `clone()` -/
theorem C12_no_plain_copy_of_atomic :
    (Gen.atomicUsesN.filter (fun u => mem readReachable u.1 && u.2.1 == "copy")) = [] := by decide +kernel

/-- (1b) `Store`s in read-reachable code: into the cache cell of the receiver in `getValue`, and into
cells of nodes allocated by the storing function itself (constructors, `clone`) -/
theorem C12_stores :
    (Gen.atomicUsesN.filter (fun u => mem readReachable u.1 && u.2.1 == "Store")).all
      (fun u => u.2.2 == "fresh:literal" || nameOf u.1 == "Node.getValue") = true := by decide +kernel

/-- (1c) plain writes to Node fields in read-reachable code go to freshly allocated nodes only; the
exceptions are listed with their justification:
 * `ArrayNode` writes `parent`/`index` of the elements it is given — its only read-reachable caller is
   `eval`, which passes `clone(slice)` (theorem `C12_arraynode_gets_clones`);
 * `Node.setReference` writes its receiver — its read-reachable callers are `Node.Clone` (on the clone it
   has just made) and `Node.SetNode` (not read-reachable);
 * `newNode` links the node it creates into `parent.children` — reachable from reads only through
   `Unmarshal` of a literal inside `eval`, where `parent` belongs to the tree being built;
 * `Unmarshal` sets the closing border of nodes of the tree it is building. -/
def allowedSharedWrites : List (String × String × String) := [
  ("ArrayNode", "index", "elem:param:value"), ("ArrayNode", "parent", "elem:param:value"),
  ("Node.setReference", "index", "param:n"), ("Node.setReference", "key", "param:n"), ("Node.setReference", "parent", "param:n"),
  ("Node.clone", "parent", "call:value.clone"),
  ("newNode", "children[]", "param:parent"), ("Unmarshal", "borders[]", "zero")]

theorem C12_plain_writes :
    (Gen.nodeWritesN.filter (fun w => mem readReachable w.1)).all
      (fun w => w.2.2 == "fresh:literal" || allowedSharedWrites.contains (nameOf w.1, w.2.1, w.2.2)) = true := by decide +kernel

/-- (1d) no read-reachable function writes package-level state — no assignment to a package-level variable, no entry of a
package-level map or slice, no field of a package-level struct, no `delete`, no method call on a package-level value
(a pool, a shared encoder or buffer): there is no memo table, lazily built index or
shared scratch buffer behind the read-only API. The only writers of package-level state are the three registration
functions, which are not read-reachable. -/
theorem C12_no_package_level_writes :
    (Gen.globalWrites.filter (fun g => mem readReachable g.1)) = [] := by decide +kernel

theorem C12_package_level_writers :
    (Gen.globalWrites.map (fun g => g.2.1)).eraseDups = ["AddConstant", "AddFunction", "AddOperation"] := by decide +kernel

theorem C12_arraynode_gets_clones :
    (Gen.constructorArgs.filter (fun a => reachableName a.1 && a.2.1 == "ArrayNode")).all
      (fun a => a.2.2 == "clone(slice)") = true := by decide +kernel

/-- `setReference` is called from exactly these functions; the read-reachable one is `Node.Clone` -/
theorem C12_setReference_callers :
    (Gen.callEdges.filter (fun e => e.2 == "Node.setReference")).map (·.1) = ["Node.Clone", "Node.SetNode"] ∧
    reachableName "Node.SetNode" = false := by decide +kernel

end Ajson.Props.C12
