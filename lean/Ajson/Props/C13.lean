/-
C13 — queries and reads never change the document.
The statement for every read operation: the heap after the call differs from the heap before it in
cache cells only (`SameButCaches`): same nodes, and for every node the same parent, children, key, index,
type, data cell, borders and dirty flag — whether the call succeeds or fails.
-/
import Ajson.Proofs.ReadFrame2
import Ajson.Props.C12
import Ajson.Proofs.Fills2
import Ajson.Proofs.UnpackCanon
import Ajson.Proofs.CloneSound
import Ajson.Proofs.MarshalPure

namespace Ajson.Props.C13
open Ajson Ajson.Heap

/-- what "the same document" means: every field of every node except the cache cell, and the input buffers -/
theorem C13_same_document (h h' : Heap) (hs : SameButCaches h h') (n : Id) :
    (h'.get n).parent = (h.get n).parent ∧ (h'.get n).children = (h.get n).children ∧
    (h'.get n).key = (h.get n).key ∧ (h'.get n).index = (h.get n).index ∧ (h'.get n).type = (h.get n).type ∧
    (h'.get n).data = (h.get n).data ∧ (h'.get n).b0 = (h.get n).b0 ∧ (h'.get n).b1 = (h.get n).b1 ∧
    (h'.get n).dirty = (h.get n).dirty ∧ h'.datas = h.datas ∧ h'.size = h.size ∧ h'.source n = h.source n := by
  have hn := hs.2.2 n
  have hd := hs.1
  simp only [NodeRec.noCache] at hn
  have e := NodeRec.mk.injEq .. ▸ hn
  obtain ⟨e1, e2, e3, e4, e5, e6, e7, e8, _, e10⟩ := e
  refine ⟨e1, e2, e3, e4, e5, e6, e7, e8, e10, hd, hs.2.1, ?_⟩
  simp [Heap.source, e6, e7, e8, e10, hd]

/-- the typed getters, `Value` (through them), `Unpack`, `Marshal`, `String`, `Eq`, `Neq`, `Le`, `Leq`,
`Ge`, `Geq` leave the document unchanged, for every node, every fuel, and on success and failure alike -/
theorem C13_getters (h : Heap) (n : Option Id) :
    SameButCaches h (h.getNumeric n).1 ∧ SameButCaches h (h.getString n).1 ∧ SameButCaches h (h.getBool n).1 ∧
    SameButCaches h (h.getArray n).1 ∧ SameButCaches h (h.getObject n).1 :=
  ⟨getNumeric_frame h n, getString_frame h n, getBool_frame h n, getArray_frame h n, getObject_frame h n⟩

theorem C13_unpack (fuel : Nat) (h : Heap) (n : Id) : SameButCaches h (h.unpack fuel n).1 := unpack_frame fuel h n

theorem C13_marshal (fmtF : UInt64 → Option Bytes) (fuel : Nat) (h : Heap) (n : Id) :
    SameButCaches h (h.marshal fmtF fuel n).1 := marshal_frame fmtF fuel h n

theorem C13_string (fmtF : UInt64 → Option Bytes) (h : Heap) (n : Id) :
    SameButCaches h (h.toStringN fmtF n).1 := toStringN_frame fmtF h n

theorem C13_comparisons (h : Heap) (a b : Option Id) (o : Ord4) :
    SameButCaches h (h.eq a b).1 ∧ SameButCaches h (h.neq a b).1 ∧ SameButCaches h (h.cmp o a b).1 :=
  ⟨eq_frame h a b, neq_frame h a b, cmp_frame o h a b⟩

/-- **… and the same value**: on ANY heap — edited ones included, no coherence assumption — each of these calls is a `Fills` step
(Proofs/Fills: it only fills EMPTY value cells, each with what `getValue` reports for that node), and a `Fills` step changes the
answer of `getValue` for no node, hence the value every node denotes (`absVal`: what `Unpack` answers and `Eq` compares, Props C05,
C17) is the same before and after — whether the call succeeds or fails -/
theorem C13_reads_keep_every_value (fmtF : UInt64 → Option Bytes) (fuel : Nat) (h : Heap) (n : Option Id) (m : Id) (a b : Option Id) (o : Ord4) :
    (Proofs.Fills h (h.getNumeric n).1 ∧ Proofs.Fills h (h.getString n).1 ∧ Proofs.Fills h (h.getBool n).1 ∧
     Proofs.Fills h (h.getArray n).1 ∧ Proofs.Fills h (h.getObject n).1 ∧ Proofs.Fills h (h.unpack fuel m).1 ∧
     Proofs.Fills h (h.marshal fmtF fuel m).1 ∧ Proofs.Fills h (h.toStringN fmtF m).1 ∧
     Proofs.Fills h (h.eq a b).1 ∧ Proofs.Fills h (h.neq a b).1 ∧ Proofs.Fills h (h.cmp o a b).1) ∧
    (∀ h' : Heap, Proofs.Fills h h' → ∀ (f : Nat) (x : Id),
      Proofs.absVal f h' x = Proofs.absVal f h x ∧ (h'.getValue x).2 = (h.getValue x).2) :=
  ⟨⟨Proofs.getNumeric_fills h n, Proofs.getString_fills h n, Proofs.getBool_fills h n, Proofs.getArray_fills h n, Proofs.getObject_fills h n,
    Proofs.unpack_fills fuel h m, Proofs.marshal_fills fmtF fuel h m, Proofs.toStringN_fills fmtF h m,
    Proofs.eq_fills h a b, Proofs.neq_fills h a b, Proofs.cmp_fills o h a b⟩,
   fun _ r f x => ⟨Proofs.absVal_fills r f x, Proofs.getValue_out_fills r x⟩⟩

/-- **and the same answers**: what Marshal, String, the typed getters and Unpack answer does not depend on which reads happened
before — on any heap, edited trees included (for Unpack: on every sound heap). Marshal is shown to be a function of the heap's
fields alone (`marshal_pure`: it answers `mtext`, Marshal without the threaded heap), and those fields, the getter answers and
the sources are the same after any `Fills` step. So reading is invisible to later reads: any node may be read at any time, in any
order, any number of times, through any of these accessors, with the same answer. -/
theorem C13_answers_do_not_depend_on_earlier_reads (fmtF : UInt64 → Option Bytes) {h h' : Heap} (r : Proofs.Fills h h') (fuel : Nat) (n : Nat) :
    (h'.marshal fmtF fuel n).2 = (h.marshal fmtF fuel n).2 ∧ (h'.toStringN fmtF n).2 = (h.toStringN fmtF n).2 ∧
    (h'.getNumeric (some n)).2 = (h.getNumeric (some n)).2 ∧ (h'.getString (some n)).2 = (h.getString (some n)).2 ∧
    (h'.getBool (some n)).2 = (h.getBool (some n)).2 ∧
    (Proofs.Struct h → n < h.size → ∀ v, (h'.unpack fuel n).2 = .ok v ↔ (h.unpack fuel n).2 = .ok v) :=
  ⟨Proofs.marshal_same_after_reads fmtF r fuel n, Proofs.toString_same_after_reads fmtF r n, Proofs.getNumeric_out_fills r n,
   Proofs.getString_out_fills r n, Proofs.getBool_out_fills r n, fun hs hn v => Proofs.unpack_same_after_reads hs r fuel n hn v⟩

/-- reads compose: any sequence of them is one `Fills` step -/
theorem C13_reads_compose {a b c : Heap} (r1 : Proofs.Fills a b) (r2 : Proofs.Fills b c) : Proofs.Fills a c := r1.trans r2

/-- **Clone leaves every record of the tree as it is** — cache cell included: the copy is made of new nodes only (C14) -/
theorem C13_clone_leaves_every_record {h : Heap} (hs : Proofs.Struct h) (ha : Proofs.Acyc h) (n : Nat) (hn : n < h.size) :
    (∀ m : Nat, m < h.size → (h.clone n).1.get m = h.get m) ∧ (h.clone n).1.datas = h.datas :=
  let r := Proofs.clone_ok h n (Proofs.clone_hypothesis hs ha n hn); ⟨r.2.2.1, r.2.2.2.2⟩

/-- `Path()` and the structural accessors do not even take a heap result: they are pure functions of the heap -/
theorem C13_path_pure (fuel : Nat) (h : Heap) (n : Id) : ∃ p : Bytes, h.pathOf fuel n = p := ⟨_, rfl⟩

/-- Static part, over the regenerated write-site table: in every function reachable from a read-only entry
point (JSONPath, Eval with every registered function, Marshal, Unpack, Value, String, Path, the comparisons,
Clone …) a plain write to a Node field goes to a node allocated by the writing function, or is one of the
justified exceptions of `C12.allowedSharedWrites` (the array wrapper of multi-node sub-path results
re-parents CLONES — `C12_arraynode_gets_clones`). A new write in read-reachable code breaks this. -/
theorem C13_static :
    (Gen.nodeWritesN.filter (fun w => Spec.mem Spec.readReachable w.1)).all
      (fun w => w.2.2 == "fresh:literal" || C12.allowedSharedWrites.contains (Spec.nameOf w.1, w.2.1, w.2.2)) = true :=
  C12.C12_plain_writes

theorem C13_eval_wraps_clones :
    (Gen.constructorArgs.filter (fun a => Spec.reachableName a.1 && a.2.1 == "ArrayNode")).all
      (fun a => a.2.2 == "clone(slice)") = true := C12.C12_arraynode_gets_clones

end Ajson.Props.C13
