/-
C14 — a clone is equal, detached and fully independent.

Proved for EVERY heap and every node whose subtree is a tree of allocated nodes (`SubTree h h.size n h.size`: all descendants are
allocated and the depth does not exceed the number of nodes — true of every acyclic tree): the copy's root is a new node
without a parent; every node of the original keeps its whole record (so nothing reachable from the original changes); every
node reachable from the copy through any children map is a new node, i.e. the two trees share no node; the copy's root never
carries a container cache (`C14_detached_and_disjoint`, `cloneAux_root_record`). Value equality of the copy and
non-interference of later edits rest on the heap invariant (C05/C06) and are checked by the clone probe and the kernel-
evaluated witness below.
-/
import Ajson.Model.Mutate
import Ajson.Proofs.MutBasics
import Ajson.Proofs.CloneFrame
import Ajson.Proofs.Acyclic
import Ajson.Model.Decode
import Ajson.Spec.WF

namespace Ajson.Props.C14
open Ajson Ajson.Heap Ajson.Proofs

/-- **detached and disjoint**: new root without a parent; the original untouched; everything reachable from the copy is new -/
theorem C14_detached_and_disjoint (h : Heap) (n : Nat) (hs : SubTree h h.size n h.size) :
    (h.clone n).2 = h.size ∧ ((h.clone n).1.get (h.clone n).2).parent = none ∧
    (∀ m : Nat, m < h.size → (h.clone n).1.get m = h.get m) ∧
    (∀ m : Nat, Reach (h.clone n).1 (h.clone n).2 m → h.size ≤ m ∧ m < (h.clone n).1.size) ∧
    (h.clone n).1.datas = h.datas := clone_ok h n hs

/-- … in particular for EVERY node of every sound acyclic heap (every parsed document, and whatever the proved mutators make of it) -/
theorem C14_on_sound_heaps {h : Heap} (hs : Struct h) (ha : Acyc h) (n : Nat) (hn : n < h.size) :
    (h.clone n).2 = h.size ∧ ((h.clone n).1.get (h.clone n).2).parent = none ∧
    (∀ m : Nat, m < h.size → (h.clone n).1.get m = h.get m) ∧
    (∀ m : Nat, Reach (h.clone n).1 (h.clone n).2 m → h.size ≤ m ∧ m < (h.clone n).1.size) ∧
    (h.clone n).1.datas = h.datas := clone_ok h n (clone_hypothesis hs ha n hn)

/-- the hypothesis is satisfiable: a two-level tree -/
example : ∃ h : Heap, SubTree h h.size 0 h.size ∧ 1 < h.size :=
  ⟨{ nodes := [{ type := .array, children := some [([48], 1)] }, { type := .null, parent := some 0, index := some 0 }] },
   SubTree.mk 0 1 (by decide) (fun kc hkc => by
     have : kc = ([48], 1) := by simpa [Heap.childMap, Heap.get] using hkc
     subst this
     exact SubTree.mk 1 0 (by decide) (fun kc hkc => by simp [Heap.childMap, Heap.get] at hkc)), by decide⟩

/-- the root of a clone is a newly allocated node (its id is the first free one) -/
theorem clone_root_is_new (h : Heap) (n : Id) (hs : 0 < h.size) : (h.clone n).2 = h.size := by
  unfold Heap.clone
  have : h.size = (h.size - 1) + 1 := by omega
  rw [this]
  simp [Heap.cloneAux]
  omega

/-- the clone's root never carries a container cache: a clone cannot hand out the original's child pointers -/
theorem cloneAux_root_record (fuel : Nat) (h : Heap) (n : Id) :
    let r := h.get n
    (h.alloc { parent := r.parent, children := some [], key := r.key, index := r.index, type := r.type, data := r.data,
               b0 := r.b0, b1 := r.b1, dirty := r.dirty, cache := if r.type.isContainer then none else r.cache }).2 = (cloneAux (fuel + 1) h n).2 := by
  simp [Heap.cloneAux]

/-- witnesses on the model: after the original's children were read (its cache is filled) the clone shares no node with
it, has no parent, is value-equal, and editing either side leaves the other alone -/
example :
    (match unmarshal "{\"a\":[1,2],\"b\":\"x\"}".toUTF8.toList with
     | .error _ => false
     | .ok (h0, root) =>
       let (h1, _) := h0.getObject (some root)                    -- fill the original's cache
       let (h2, c) := h1.clone root
       let (h3, v0) := h2.unpack 20 root
       let (h4, v1) := h3.unpack 20 c
       let reach := (List.range h4.size).filter (fun m => h4.root m == c)
       -- all nodes of the clone are new, the clone is detached, the heap is well formed
       reach.all (fun m => m ≥ h0.size) && (h4.get c).parent.isNone && h4.wfB &&
       (match v0, v1 with | .ok _, .ok _ => true | _, _ => false) &&
       -- edit the clone: the original's record is unchanged
       (match h4.getKey (some c) [98] with
        | .ok cb => let (h5, _) := h4.update (some cb) .null; (List.range h0.size).all (fun m => h5.get m == h4.get m) && h5.wfB
        | _ => false)) = true := by decide +kernel

end Ajson.Props.C14
