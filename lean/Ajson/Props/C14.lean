/-
C14 — a clone is equal, detached and fully independent.

Proved for EVERY heap and every node whose subtree is a tree of allocated nodes (`SubTree h h.size n h.size`: all descendants are
allocated and the depth does not exceed the number of nodes — true of every acyclic tree): the copy's root is a new node
without a parent; every node of the original keeps its whole record (so nothing reachable from the original changes); every
node reachable from the copy through any children map is a new node, i.e. the two trees share no node; the copy's root never
carries a container cache (`C14_detached_and_disjoint`, `cloneAux_root_record`). Full independence: the mutators proved in
`Proofs/Frame` (AppendArray/AppendObject of one node, the deletions and pops, Delete, the scalar setters) applied on either side
leave the whole record of every node of the other side unchanged (`C14_editing_the_original_never_changes_the_copy`,
`C14_editing_the_copy_never_changes_the_original`). A clone is equal: the copy is isomorphic to the original and every typed
getter answers the same at corresponding nodes (`C14_equal_structure`, `C14_equal_values`). Independence under
SetArray/SetObject/SetNode is checked by the clone probe, the frame probe and the kernel-evaluated witness below.
-/
import Ajson.Model.Mutate
import Ajson.Proofs.MutBasics
import Ajson.Proofs.CloneFrame
import Ajson.Proofs.Acyclic
import Ajson.Proofs.Frame
import Ajson.Proofs.CloneIso
import Ajson.Proofs.Sides
import Ajson.Proofs.CloneSound
import Ajson.Proofs.Steps
import Ajson.Proofs.CloneValue
import Ajson.Proofs.CellsSteps
import Ajson.Proofs.EqSymm
import Ajson.Proofs.UnpackCanon
import Ajson.Model.Decode
import Ajson.Spec.WF

namespace Ajson.Props.C14
open Ajson Ajson.Heap Ajson.Proofs

/-- **detached and disjoint**: new root without a parent; the original untouched; everything reachable from the copy is new -/
theorem C14_detached_and_disjoint (h : Heap) (n : Nat) (hs : SubTree h h.size n h.size) :
    (h.clone n).2 = h.size ∧ ((h.clone n).1.get (h.clone n).2).parent = none ∧
    (∀ m : Nat, m < h.size → (h.clone n).1.get m = h.get m) ∧
    (∀ m : Nat, Reach (h.clone n).1 (h.clone n).2 m → h.size ≤ m ∧ m < (h.clone n).1.size) ∧
    (h.clone n).1.datas = h.datas := clone_ok h n hs

/-- … in particular for EVERY node of every sound acyclic heap (every parsed document, and whatever the proved mutators make of it) -/
theorem C14_on_sound_heaps {h : Heap} (hs : Struct h) (ha : Acyc h) (n : Nat) (hn : n < h.size) :
    (h.clone n).2 = h.size ∧ ((h.clone n).1.get (h.clone n).2).parent = none ∧
    (∀ m : Nat, m < h.size → (h.clone n).1.get m = h.get m) ∧
    (∀ m : Nat, Reach (h.clone n).1 (h.clone n).2 m → h.size ≤ m ∧ m < (h.clone n).1.size) ∧
    (h.clone n).1.datas = h.datas := clone_ok h n (clone_hypothesis hs ha n hn)

/-- **a clone is equal**: for every node `n` of every sound acyclic heap, the copy `Clone()` returns is isomorphic to the original
(`Iso`, Proofs/CloneIso): at every position reached by the same keys the copy has the same type, source span, dirty flag and
scalar cache; the same keys are present under every container; each child of the copy is the copy of the original's child, with
the same key and index, hanging under the copy. -/
theorem C14_equal_structure {h : Heap} (hs : Struct h) (ha : Acyc h) (n : Nat) (hn : n < h.size) :
    Iso h (h.clone n).1 h.size h.size (h.clone n).1.size h.size n (h.clone n).2 := clone_iso hs ha n hn

/-- … hence value-equal through the accessors, position by position: wherever a copy node `c` corresponds to an original node `x`
(at any depth `f + 1` of the correspondence), `Type` is the same, `GetNumeric`/`GetString`/`GetBool`/`GetNull` give the same answer
(value or error), `GetKey` succeeds for the same keys, and the nodes it returns correspond again -/
theorem C14_equal_values {h : Heap} (hs : Struct h) (ha : Acyc h) (n : Nat) (hn : n < h.size) (f x c : Nat)
    (i : Iso h (h.clone n).1 h.size h.size (h.clone n).1.size (f + 1) x c) :
    (h.clone n).1.typeOf c = h.typeOf x ∧
    ((h.clone n).1.getNumeric (some c)).2 = (h.getNumeric (some x)).2 ∧
    ((h.clone n).1.getString (some c)).2 = (h.getString (some x)).2 ∧
    ((h.clone n).1.getBool (some c)).2 = (h.getBool (some x)).2 ∧
    (h.clone n).1.getNull (some c) = h.getNull (some x) ∧
    (∀ k, ((h.clone n).1.getKey (some c) k).isOk = (h.getKey (some x) k).isOk) ∧
    (∀ k y, h.getKey (some x) k = .ok y → ∃ cl, (h.clone n).1.getKey (some c) k = .ok cl ∧
      Iso h (h.clone n).1 h.size h.size (h.clone n).1.size f y cl) :=
  Iso.equal (clone_ok h n (clone_hypothesis hs ha n hn)).2.2.2.2 f x c i

/-- **fully independent, direction 1**: after `Clone()` of any node of a sound acyclic heap, AppendArray, AppendObject, DeleteKey /
PopKey, DeleteIndex / PopIndex, Delete and SetNull/SetNumeric/SetString/SetBool applied to ANY nodes that existed before the call
(the original tree, or any other tree) leave the WHOLE RECORD of every node of the copy as it is — type, source span, children map,
parent, position, dirty flag, cache. Nothing any accessor can observe on the copy changes. -/
theorem C14_editing_the_original_never_changes_the_copy {h : Heap} (hs : Struct h) (ha : Acyc h) (n : Nat) (hn : n < h.size)
    (a v : Nat) (hao : a < h.size) (hvo : v < h.size) (m : Nat) (hm : h.size ≤ m) :
    ((h.clone n).1.appendArray a [v]).1.get m = (h.clone n).1.get m ∧
    (∀ key, ((h.clone n).1.appendObject a key v).1.get m = (h.clone n).1.get m) ∧
    (∀ key, ((h.clone n).1.popKey (some a) key).1.get m = (h.clone n).1.get m) ∧
    (∀ i, ((h.clone n).1.popIndex (some a) i).1.get m = (h.clone n).1.get m) ∧
    ((h.clone n).1.delete a).1.get m = (h.clone n).1.get m ∧
    (∀ sv : SetVal, sv.type.isContainer = false → ((h.clone n).1.update (some a) sv).1.get m = (h.clone n).1.get m) := by
  have sp := split_clone hs n (clone_hypothesis hs ha n hn)
  exact frames_of_region _ a v m (Nat.ne_of_gt (Nat.lt_of_lt_of_le hao hm)) (Nat.ne_of_gt (Nat.lt_of_lt_of_le hvo hm))
    (sp.region_old a hao m hm) (sp.region_old v hvo m hm).2.2

/-- **fully independent, direction 2**: the same operations applied to nodes of the copy leave the whole record of every node that
existed before the call as it is -/
theorem C14_editing_the_copy_never_changes_the_original {h : Heap} (hs : Struct h) (ha : Acyc h) (n : Nat) (hn : n < h.size)
    (a v : Nat) (hac : h.size ≤ a) (hvc : h.size ≤ v) (m : Nat) (hm : m < h.size) :
    ((h.clone n).1.appendArray a [v]).1.get m = (h.clone n).1.get m ∧
    (∀ key, ((h.clone n).1.appendObject a key v).1.get m = (h.clone n).1.get m) ∧
    (∀ key, ((h.clone n).1.popKey (some a) key).1.get m = (h.clone n).1.get m) ∧
    (∀ i, ((h.clone n).1.popIndex (some a) i).1.get m = (h.clone n).1.get m) ∧
    ((h.clone n).1.delete a).1.get m = (h.clone n).1.get m ∧
    (∀ sv : SetVal, sv.type.isContainer = false → ((h.clone n).1.update (some a) sv).1.get m = (h.clone n).1.get m) := by
  have sp := split_clone hs n (clone_hypothesis hs ha n hn)
  exact frames_of_region _ a v m (Nat.ne_of_lt (Nat.lt_of_lt_of_le hm hac)) (Nat.ne_of_lt (Nat.lt_of_lt_of_le hm hvc))
    (sp.region_new a hac m hm) (sp.region_new v hvc m hm).2.2

/-- **mutating either side afterwards never changes the other — for whole histories**: after `Clone()`, ANY finite sequence of edits
(`Edit`: the scalar setters, DeleteKey, DeleteIndex, Delete, AppendArray of one node, AppendObject of one node under any key) addressed to nodes that existed before the call
leaves the whole record of every node of the copy as it is … -/
theorem C14_any_history_on_the_original {h : Heap} (hs : Struct h) (ha : Acyc h) (n : Nat) (hn : n < h.size) (es : List Edit)
    (hnames : ∀ e ∈ es, ∀ x ∈ e.names, x < h.size) (m : Nat) (hm : h.size ≤ m) :
    (es.foldl Edit.run (h.clone n).1).get m = (h.clone n).1.get m := by
  have sp := split_clone hs n (clone_hypothesis hs ha n hn)
  refine history_side es _ (fun x => x < h.size) ?_ ?_ hnames m (Nat.not_lt.mpr hm)
  · exact fun x hx => ⟨fun q hq => sp.oldPar x hx q hq, fun y hy => sp.oldKid x hx y hy⟩
  · exact fun x hx => ⟨fun q hq => Nat.not_lt.mpr (sp.newPar x (Nat.not_lt.mp hx) q hq), fun y hy => Nat.not_lt.mpr (sp.newKid x (Nat.not_lt.mp hx) y hy)⟩

/-- … and any history of edits addressed to nodes of the copy leaves every older record as it is -/
theorem C14_any_history_on_the_copy {h : Heap} (hs : Struct h) (ha : Acyc h) (n : Nat) (hn : n < h.size) (es : List Edit)
    (hnames : ∀ e ∈ es, ∀ x ∈ e.names, h.size ≤ x) (m : Nat) (hm : m < h.size) :
    (es.foldl Edit.run (h.clone n).1).get m = (h.clone n).1.get m := by
  have sp := split_clone hs n (clone_hypothesis hs ha n hn)
  refine history_side es _ (fun x => h.size ≤ x) ?_ ?_ hnames m (Nat.not_le.mpr hm)
  · exact fun x hx => ⟨fun q hq => sp.newPar x hx q hq, fun y hy => sp.newKid x hx y hy⟩
  · exact fun x hx => ⟨fun q hq => Nat.not_le.mpr (sp.oldPar x (Nat.not_le.mp hx) q hq), fun y hy => Nat.not_le.mpr (sp.oldKid x (Nat.not_le.mp hx) y hy)⟩

/-- **the copy denotes the same JSON value, and no value changes**: with `absVal` (Proofs/Refine — the plain data a node denotes, read
off the types, scalar payloads and children maps of its subtree) the root of the copy denotes exactly what the original denotes — the
same scalars, the same elements in the same order, the same members under the same keys, at every depth — and every node that existed
before the call denotes what it denoted before -/
theorem C14_equal_value {h : Heap} (hs : Struct h) (ha : Acyc h) (n : Nat) (hn : n < h.size) (F : Nat) :
    absVal F (h.clone n).1 (h.clone n).2 = absVal F h n ∧
    (∀ m : Nat, m < h.size → absVal F (h.clone n).1 m = absVal F h m) :=
  clone_same_value hs ha n hn F

/-- **`Eq` says so**: right after `Clone()` — on any sound acyclic heap whose container cells are right (every parsed heap, and whatever
steps and reads make of it: `reachedS_sound`) — `original.Eq(clone)` and `clone.Eq(original)` answer true, whenever the original
denotes a value without a NaN in it (every value a JSON text denotes) -/
theorem C14_eq_says_equal {h : Heap} (hs : Struct h) (ha : Acyc h) (c : CellsAll h) (n : Nat) (hn : n < h.size) (v : JVal)
    (ev : absVal ((h.clone n).1.size + 1) h n = some v) (nn : noNaN v = true) :
    ((h.clone n).1.eq (some n) (some (h.clone n).2)).2 = .ok true ∧ ((h.clone n).1.eq (some (h.clone n).2) (some n)).2 = .ok true := by
  obtain ⟨s', _, hlt, hroot⟩ := clone_sound hs ha n hn
  have c' := (clone_cells h n c).ok
  obtain ⟨e1, e2⟩ := clone_same_value hs ha n hn ((h.clone n).1.size + 1)
  have hn' : n < (h.clone n).1.size := Nat.lt_trans hn hlt
  have hr' : (h.clone n).2 < (h.clone n).1.size := by rw [hroot]; exact hlt
  have evn : absVal ((h.clone n).1.size + 1) (h.clone n).1 n = some v := by rw [e2 n hn]; exact ev
  have evc : absVal ((h.clone n).1.size + 1) (h.clone n).1 (h.clone n).2 = some v := by rw [e1]; exact ev
  have r := jvalEq_refl_nodes _ _ s' n v hn' evn nn
  exact ⟨by rw [eq_value _ n _ v v s' c' hn' hr' evn evc, r], by rw [eq_value _ _ n v v s' c' hr' hn' evc evn, r]⟩

/-- **`Unpack` of the copy is `Unpack` of the original**, as single values: right after `Clone()`, with any fuel, both answer the same
value or both fail (`Unpack` answers exactly the canonical form of the denoted value on every sound heap — C05 — and the two nodes
denote the same value) -/
theorem C14_unpack_same {h : Heap} (hs : Struct h) (ha : Acyc h) (n : Nat) (hn : n < h.size) (fuel : Nat) (v : JVal) :
    ((h.clone n).1.unpack fuel (h.clone n).2).2 = .ok v ↔ ((h.clone n).1.unpack fuel n).2 = .ok v := by
  obtain ⟨s', _, hlt, hroot⟩ := clone_sound hs ha n hn
  obtain ⟨e1, e2⟩ := clone_same_value hs ha n hn fuel
  rw [unpack_iff_value fuel _ _ v s' (by rw [hroot]; exact hlt), unpack_iff_value fuel _ n v s' (Nat.lt_trans hn hlt), e1, e2 n hn]

/-- **the copy is a sound tree of its own**: after `Clone()` of any node of any sound acyclic heap the whole heap — the original,
every other tree in play, and the copy — satisfies the structural invariant again and has no cycles: every node of the copy lists
its children under distinct keys (dense decimal keys in arrays), every child points back at the node that lists it and carries the
key or index it is listed under, dirty flags are closed upwards, clean nodes have their source span, and the copy's root has no
parent. So everything proved for sound heaps (reads, edits, further clones) applies to the copy and to clones of clones. -/
theorem C14_clone_keeps_the_heap_sound {h : Heap} (hs : Struct h) (ha : Acyc h) (n : Nat) (hn : n < h.size) :
    Struct (h.clone n).1 ∧ Acyc (h.clone n).1 ∧ h.size < (h.clone n).1.size ∧ ((h.clone n).2 : Nat) = h.size :=
  clone_sound hs ha n hn

/-- **any history of edits and clones**: every finite sequence of edit requests and `Clone()` calls, each addressed to ANY nodes that
exist at that moment (originals, copies, copies of copies), leaves a sound acyclic heap -/
theorem C14_any_history_with_clones (ss : List Step) (h : Heap) (hs : Struct h) (ha : Acyc h) (hv : ValidSteps h ss) :
    Struct (ss.foldl Step.run h) ∧ Acyc (ss.foldl Step.run h) ∧ h.size ≤ (ss.foldl Step.run h).size :=
  steps_sound ss h hs ha hv

/-- the hypothesis is satisfiable: clone the root of a two-node tree, edit the copy's child, clone the copy, assign containers, SetNode,
then construct a number and an array (`NumericNode`, `ArrayNode(nil)`) and append to and from them -/
example : ValidSteps { nodes := [{ type := .array, children := some [([48], 1)] }, { type := .null, parent := some 0, index := some 0 }] }
    [.clone 0, .edit (.setNull 3), .clone 2, .edit (.appendArray 2 4), .setArray 0 [3, 1], .setObject 4 [([97], 2)], .setNode 1 4,
     .newNumeric [] 0x4000000000000000, .newArray [107], .edit (.appendArray 0 8), .edit (.appendArray 9 0)] := by
  simp only [ValidSteps, Step.names, Edit.names, Step.run, Edit.run]
  decide

/-- the hypothesis is satisfiable: a two-level tree -/
example : ∃ h : Heap, SubTree h h.size 0 h.size ∧ 1 < h.size :=
  ⟨{ nodes := [{ type := .array, children := some [([48], 1)] }, { type := .null, parent := some 0, index := some 0 }] },
   SubTree.mk 0 1 (by decide) (fun kc hkc => by
     have : kc = ([48], 1) := by simpa [Heap.childMap, Heap.get] using hkc
     subst this
     exact SubTree.mk 1 0 (by decide) (fun kc hkc => by simp [Heap.childMap, Heap.get] at hkc)), by decide⟩

/-- the root of a clone is a newly allocated node (its id is the first free one) -/
theorem clone_root_is_new (h : Heap) (n : Id) (hs : 0 < h.size) : (h.clone n).2 = h.size := by
  unfold Heap.clone
  have : h.size = (h.size - 1) + 1 := by omega
  rw [this]
  simp [Heap.cloneAux]
  omega

/-- the clone's root never carries a container cache: a clone cannot hand out the original's child pointers -/
theorem cloneAux_root_record (fuel : Nat) (h : Heap) (n : Id) :
    let r := h.get n
    (h.alloc { parent := r.parent, children := some [], key := r.key, index := r.index, type := r.type, data := r.data,
               b0 := r.b0, b1 := r.b1, dirty := r.dirty, cache := if r.type.isContainer then none else r.cache }).2 = (cloneAux (fuel + 1) h n).2 := by
  simp [Heap.cloneAux]

/-- witnesses on the model: after the original's children were read (its cache is filled) the clone shares no node with
it, has no parent, is value-equal, and editing either side leaves the other alone -/
example :
    (match unmarshal "{\"a\":[1,2],\"b\":\"x\"}".toUTF8.toList with
     | .error _ => false
     | .ok (h0, root) =>
       let (h1, _) := h0.getObject (some root)                    -- fill the original's cache
       let (h2, c) := h1.clone root
       let (h3, v0) := h2.unpack 20 root
       let (h4, v1) := h3.unpack 20 c
       let reach := (List.range h4.size).filter (fun m => h4.root m == c)
       -- all nodes of the clone are new, the clone is detached, the heap is well formed
       reach.all (fun m => m ≥ h0.size) && (h4.get c).parent.isNone && h4.wfB &&
       (match v0, v1 with | .ok _, .ok _ => true | _, _ => false) &&
       -- edit the clone: the original's record is unchanged
       (match h4.getKey (some c) [98] with
        | .ok cb => let (h5, _) := h4.update (some cb) .null; (List.range h0.size).all (fun m => h5.get m == h4.get m) && h5.wfB
        | _ => false)) = true := by decide +kernel

end Ajson.Props.C14
