/-
C14 — a clone is equal, detached and fully independent.
-/
import Ajson.Model.Mutate
import Ajson.Proofs.MutBasics
import Ajson.Model.Decode
import Ajson.Spec.WF

namespace Ajson.Props.C14
open Ajson Ajson.Heap

/-- the root of a clone is a newly allocated node (its id is the first free one) -/
theorem clone_root_is_new (h : Heap) (n : Id) (hs : 0 < h.size) : (h.clone n).2 = h.size := by
  unfold Heap.clone
  have : h.size = (h.size - 1) + 1 := by omega
  rw [this]
  simp [Heap.cloneAux]
  omega

/-- the clone's root never carries a container cache: a clone cannot hand out the original's child pointers -/
theorem cloneAux_root_record (fuel : Nat) (h : Heap) (n : Id) :
    let r := h.get n
    (h.alloc { parent := r.parent, children := some [], key := r.key, index := r.index, type := r.type, data := r.data,
               b0 := r.b0, b1 := r.b1, dirty := r.dirty, cache := if r.type.isContainer then none else r.cache }).2 = (cloneAux (fuel + 1) h n).2 := by
  simp [Heap.cloneAux]

/-- witnesses on the model: after the original's children were read (its cache is filled) the clone shares no node with
it, has no parent, is value-equal, and editing either side leaves the other alone -/
example :
    (match unmarshal "{\"a\":[1,2],\"b\":\"x\"}".toUTF8.toList with
     | .error _ => false
     | .ok (h0, root) =>
       let (h1, _) := h0.getObject (some root)                    -- fill the original's cache
       let (h2, c) := h1.clone root
       let (h3, v0) := h2.unpack 20 root
       let (h4, v1) := h3.unpack 20 c
       let reach := (List.range h4.size).filter (fun m => h4.root m == c)
       -- all nodes of the clone are new, the clone is detached, the heap is well formed
       reach.all (fun m => m ≥ h0.size) && (h4.get c).parent.isNone && h4.wfB &&
       (match v0, v1 with | .ok _, .ok _ => true | _, _ => false) &&
       -- edit the clone: the original's record is unchanged
       (match h4.getKey (some c) [98] with
        | .ok cb => let (h5, _) := h4.update (some cb) .null; (List.range h0.size).all (fun m => h5.get m == h4.get m) && h5.wfB
        | _ => false)) = true := by decide +kernel

end Ajson.Props.C14
