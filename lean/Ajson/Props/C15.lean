/-
C15 — a mutation that reports an error changes nothing.
Every error exit of every public mutator, on the model: the returned heap IS the heap before the call.
(The exits inside `appendNode`/`remove` that are reached only after modifications have started cannot be
taken in a well-formed heap; that part is `C15_atomic` in `Ajson.Props.C05`, on top of the invariant.)
-/
import Ajson.Model.Mutate
import Ajson.Proofs.HeapBasics
import Ajson.Proofs.Atomic
import Ajson.Proofs.AtomicContainers

namespace Ajson.Props.C15
open Ajson Ajson.Heap

/-- Set*, SetArray, SetObject: nil receiver and loop requests are refused before anything is touched -/
theorem C15_update_refused (h : Heap) (n : Option Id) (v : SetVal) (e : PErr) (hv : h.validate n v = .err e) :
    h.update n v = (h, .err e) := by
  unfold Heap.update; rw [hv]

/-- the validation of SetArray/SetObject looks at ALL arguments: a valid node followed by an offending one is refused as a whole -/
theorem C15_setArray_any_loop (h : Heap) (n : Id) (ids : List Id) (c : Id) (hc : c ∈ ids) (hl : h.isParentOrSelfNode n c = true) :
    h.update (some n) (.arr ids) = (h, .err (errT .wrongRequest)) := by
  apply C15_update_refused
  unfold Heap.validate
  have : ids.any (fun c => h.isParentOrSelfNode n c) = true := List.any_eq_true.mpr ⟨c, hc, hl⟩
  simp [this]

theorem C15_setObject_any_loop (h : Heap) (n : Id) (kv : List (Bytes × Id)) (p : Bytes × Id) (hp : p ∈ kv)
    (hl : h.isParentOrSelfNode n p.2 = true) :
    h.update (some n) (.obj kv) = (h, .err (errT .wrongRequest)) := by
  apply C15_update_refused
  unfold Heap.validate
  have : kv.any (fun p => h.isParentOrSelfNode n p.2) = true := List.any_eq_true.mpr ⟨p, hp, hl⟩
  simp [this]

theorem C15_setNode_loop (h : Heap) (n v : Id) (hne : n ≠ v) (hl : h.isParentOrSelfNode n v = true) :
    h.setNode n v = (h, .err (errT .wrongRequest)) := by
  unfold Heap.setNode
  have : (n == v) = false := by simp [hne]
  simp [this, hl]

theorem C15_appendArray_wrong_type (h : Heap) (n : Id) (vs : List Id) (ht : h.isArray n = false) :
    h.appendArray n vs = (h, .err (errT .wrongType)) := by
  unfold Heap.appendArray; simp [ht]

theorem C15_appendArray_any_loop (h : Heap) (n : Id) (vs : List Id) (c : Id) (ht : h.isArray n = true) (hc : c ∈ vs)
    (hl : h.isParentOrSelfNode n c = true) : h.appendArray n vs = (h, .err (errT .wrongRequest)) := by
  unfold Heap.appendArray
  have : vs.any (fun c => h.isParentOrSelfNode n c) = true := List.any_eq_true.mpr ⟨c, hc, hl⟩
  simp [ht, this]

theorem C15_appendObject_wrong_type (h : Heap) (n : Id) (k : Bytes) (v : Id) (ht : h.isObject n = false) :
    h.appendObject n k v = (h, .err (errT .wrongType)) := by
  unfold Heap.appendObject; simp [ht]

theorem C15_appendObject_loop (h : Heap) (n : Id) (k : Bytes) (v : Id) (ht : h.isObject n = true)
    (hl : h.isParentOrSelfNode n v = true) : h.appendObject n k v = (h, .err (errT .wrongRequest)) := by
  unfold Heap.appendObject Heap.appendNode; simp [ht, hl]

theorem C15_remove_not_container (h : Heap) (n v : Id) (ht : h.isContainer n = false) :
    h.remove n v = (h, .err (errT .wrongType)) := by
  unfold Heap.remove; simp [ht]

theorem C15_remove_wrong_parent (h : Heap) (n v : Id) (ht : h.isContainer n = true) (hp : (h.get v).parent ≠ some n) :
    h.remove n v = (h, .err (errT .wrongRequest)) := by
  unfold Heap.remove; simp [ht, hp]

/-- DeleteNode is `remove`; Delete of a root does nothing and reports success -/
theorem C15_delete_root (h : Heap) (n : Id) (hp : (h.get n).parent = none) : h.delete n = (h, .ok ()) := by
  unfold Heap.delete; simp [hp]

/-- DeleteKey / PopKey / DeleteIndex / PopIndex: a missing key or index, a wrong receiver type and a nil receiver are reported by
the lookup, before `remove` runs -/
theorem C15_popKey_lookup_failed (h : Heap) (n : Option Id) (k : Bytes) (e : PErr) (hl : h.getKey n k = .err e) :
    h.popKey n k = (h, .err e) := by
  unfold Heap.popKey; rw [hl]

theorem C15_popIndex_lookup_failed (h : Heap) (n : Option Id) (i : Int) (e : PErr) (hl : h.getIndex n i = .err e) :
    h.popIndex n i = (h, .err e) := by
  unfold Heap.popIndex; rw [hl]

/-- non-vacuity: the two histories of the property text, on the model: `SetArray([x, ancestor])` and `AppendArray(x, ancestor)`
fail and leave the heap as it was -/
example :
    let h0 : Heap := {}
    let (h1, root) := h0.arrayNode [] (some [])
    let (h2, inner) := h1.arrayNode [] (some [])
    let (h3, _) := h2.appendArray root [inner]
    let (h4, x) := h3.scalarNode [] .null none
    (h4.appendArray inner [x, root]).2.isErr = true ∧ ((h4.appendArray inner [x, root]).1.nodes == h4.nodes) = true ∧
    (h4.update (some inner) (.arr [x, root])).2.isErr = true ∧ ((h4.update (some inner) (.arr [x, root])).1.nodes == h4.nodes) = true := by
  decide +kernel

/-! ### universally, on sound heaps -/

/-- **every request is accepted, or rejected without a trace**: for EVERY sound acyclic heap (every parsed document, and whatever any
history of these requests makes of it) and every request of `Edit` — the scalar setters, DeleteKey, DeleteIndex, Delete, AppendArray
and AppendObject of one node, on any receiver and argument — the call reports success, or it reports an error and the heap afterwards
IS the heap before; it never ends in a panic (no write to a nil map, no nil dereference). In particular the error exits inside
`remove` and `appendNode` that lie behind the first modification cannot be taken. -/
theorem C15_accepted_or_untouched {h : Heap} (hs : Ajson.Proofs.Struct h) (ha : Ajson.Proofs.Acyc h) (e : Ajson.Proofs.Edit)
    (hnames : ∀ x ∈ e.names, x < h.size) :
    e.outcome h = .ok () ∨ (∃ er, e.outcome h = .err er ∧ e.run h = h) :=
  Ajson.Proofs.Edit.settled hs ha e hnames

/-- … at every step of every history that starts from a sound acyclic heap -/
theorem C15_accepted_or_untouched_at_every_step (pre : List Ajson.Proofs.Edit) (e : Ajson.Proofs.Edit) (post : List Ajson.Proofs.Edit) (h : Heap)
    (hs : Ajson.Proofs.Struct h) (ha : Ajson.Proofs.Acyc h) (hn : ∀ e' ∈ pre ++ e :: post, ∀ x ∈ e'.names, x < h.size) :
    e.outcome (pre.foldl Ajson.Proofs.Edit.run h) = .ok () ∨
      (∃ er, e.outcome (pre.foldl Ajson.Proofs.Edit.run h) = .err er ∧ e.run (pre.foldl Ajson.Proofs.Edit.run h) = pre.foldl Ajson.Proofs.Edit.run h) :=
  Ajson.Proofs.history_settled (pre ++ e :: post) pre e post h hs ha hn rfl

/-- `SetNode` — on ANY heap, receiver and argument: accepted, or rejected by the loop guard with the heap exactly as before; and
`Clone()` has no failure mode at all (it returns a node, never an error) -/
theorem C15_set_node_accepted_or_untouched (h : Heap) (n v : Nat) :
    Ajson.Proofs.Settled h (h.setNode n v).2 (h.setNode n v).1 := Ajson.Proofs.setNode_settled h n v

/-- **SetArray and SetObject are all-or-nothing, and so is every step of every history**: on every sound acyclic heap a step —
an edit request, Clone, SetArray or SetObject with any elements, SetNode, on any nodes that exist at that moment — is accepted, or
rejected with the heap exactly as before. For SetArray/SetObject: a request that passes the validation never fails halfway — the
loop guard, false for every element at validation time, stays false while the receiver is prepared and through each append
(an append adds the one parent link element → receiver; a chain from the receiver upwards that used it would have made the element
an ancestor of the receiver before: `up_appendNode`, Proofs/AtomicContainers) -/
theorem C15_every_step_accepted_or_untouched (pre : List Ajson.Proofs.Step) (s : Ajson.Proofs.Step) (post : List Ajson.Proofs.Step) (h : Heap)
    (hs : Ajson.Proofs.Struct h) (ha : Ajson.Proofs.Acyc h) (hv : Ajson.Proofs.ValidSteps h (pre ++ s :: post)) :
    Ajson.Proofs.Settled (pre.foldl Ajson.Proofs.Step.run h) (s.outcome (pre.foldl Ajson.Proofs.Step.run h)) (s.run (pre.foldl Ajson.Proofs.Step.run h)) :=
  Ajson.Proofs.steps_settled pre s post h hs ha hv

end Ajson.Props.C15
