/-
C16 — Path() is a working address of the node.
-/
import Ajson.Model.Read
import Ajson.Model.Path
import Ajson.Proofs.QuoteRoundTrip

import Ajson.Proofs.KeyRoundTrip

namespace Ajson.Props.C16
open Ajson Ajson.Heap

/-- a key byte that needs no escaping in a single-quoted JSONPath name -/
def plainKeyByte (c : UInt8) : Bool := 32 ≤ c.toNat && c.toNat < 128 && c != 39 && c != 92

/-- `escapePathKey` leaves plain bytes alone … -/
theorem escape_plain : ∀ k : Bytes, k.all plainKeyByte = true → escapePathKey k = k
  | [] => by simp [escapePathKey]
  | c :: cs => by
    intro h
    simp only [List.all_cons, Bool.and_eq_true] at h
    obtain ⟨hc, hcs⟩ := h
    unfold escapePathKey
    simp only [plainKeyByte, Bool.and_eq_true, decide_eq_true_eq, bne_iff_ne, ne_eq] at hc
    have h1 : (c == 92 || c == 39) = false := by simp [hc.1.2, hc.2]
    have h2 : ¬ c.toNat < 32 := by omega
    simp [h1, h2, escape_plain cs hcs]

/-- … and unquoting a single-quoted plain name gives the name back (the scanner reads what `Path()` wrote) -/
theorem unquoteLoop_plain : ∀ (k : Bytes) (fuel : Nat), k.length ≤ fuel → k.all plainKeyByte = true → unquoteLoop 39 fuel k = some k
  | [], fuel, _, _ => by cases fuel <;> simp [unquoteLoop]
  | c :: cs, 0, hl, _ => by simp at hl
  | c :: cs, fuel+1, hl, h => by
    simp only [List.all_cons, Bool.and_eq_true] at h
    obtain ⟨hc, hcs⟩ := h
    simp only [plainKeyByte, Bool.and_eq_true, decide_eq_true_eq, bne_iff_ne, ne_eq] at hc
    unfold unquoteLoop
    have h1 : (c == 92) = false := by simp [hc.2]
    have h2 : (c == 39) = false := by simp [hc.1.2]
    have h3 : ¬ c.toNat < 32 := by omega
    have h4 : c.toNat < 128 := hc.1.1.2
    have ih := unquoteLoop_plain cs fuel (by simp at hl; omega) hcs
    simp [h1, h2, h3, h4, ih]

theorem C16_plain_key_roundtrip_partial (k : Bytes) (hk : k.all plainKeyByte = true) :
    unquoteBytes ([39] ++ escapePathKey k ++ [39]) 39 = some k := by
  rw [escape_plain k hk]
  unfold unquoteBytes
  have hlen : ¬ ([39] ++ k ++ [39]).length < 2 := by simp
  have hhead : ([39] ++ k ++ [39]).head? = some 39 := by simp
  have hlast : ([39] ++ k ++ [39]).getLast? = some 39 := by
    rw [List.getLast?_append]; simp
  simp only [hlen, hhead, hlast, if_false, bne_self_eq_false, Bool.or_self]
  have hbody : (List.drop 1 ([39] ++ k ++ [39])).take (([39] ++ k ++ [39]).length - 2) = k := by simp
  rw [hbody]
  exact unquoteLoop_plain k k.length (Nat.le_refl _) hk

/-- the escapes `Path()` writes for the three kinds of byte that cannot stand raw in a single-quoted name are read
back to that byte: quote, backslash, control byte -/
theorem escaped_bytes_read_back :
    unquoteBytes ([39] ++ escapePathKey [39] ++ [39]) 39 = some [39] ∧
    unquoteBytes ([39] ++ escapePathKey [92] ++ [39]) 39 = some [92] ∧
    (∀ n, n < 32 → unquoteBytes ([39] ++ escapePathKey [n.toUInt8] ++ [39]) 39 = some [n.toUInt8]) := by
  refine ⟨by decide +kernel, by decide +kernel, ?_⟩
  decide +kernel

/-- the length of an escaped key is at most six times the key's -/
theorem escape_length : ∀ k : Bytes, (escapePathKey k).length ≤ 6 * k.length
  | [] => by simp [escapePathKey]
  | c :: cs => by
    have ih := escape_length cs
    unfold escapePathKey
    split
    · simp only [List.length_cons]; omega
    · split
      · simp only [List.length_append, List.length_cons, List.length_nil]; omega
      · simp only [List.length_cons]; omega

/-- **Every ASCII key is a working address segment**: quotes, backslashes, brackets, dots, control characters, the empty
key — whatever bytes below 0x80 a key consists of, the single-quoted name `Path()` writes for it is read back by the
path scanner's unquoter as exactly that key. -/
theorem unquoteLoop_escape_ascii : ∀ (k : Bytes) (f : Nat), (escapePathKey k).length ≤ f → (∀ c ∈ k, c.toNat < 128) →
    unquoteLoop 39 f (escapePathKey k) = some k
  | [], f, _, _ => by cases f <;> simp [escapePathKey, unquoteLoop]
  | c :: cs, f, hf, hk => by
    have hc : c.toNat < 128 := hk c (by simp)
    have hcs : ∀ x ∈ cs, x.toNat < 128 := fun x hx => hk x (by simp [hx])
    have hbo : (39 : UInt8) = 34 ∨ (39 : UInt8) = 39 := Or.inr rfl
    unfold escapePathKey at hf ⊢
    by_cases h1 : (c == 92 || c == 39) = true
    · simp only [h1, if_true, List.length_cons] at hf ⊢
      obtain ⟨f', rfl⟩ : ∃ f', f = f' + 1 := ⟨f - 1, by omega⟩
      have : c = 39 ∨ c = 92 ∨ c = 47 ∨ c = 39 := by
        simp only [Bool.or_eq_true, beq_iff_eq] at h1; rcases h1 with h | h <;> simp [h]
      rw [unq_esc_lit 39 c f' _ this, unquoteLoop_escape_ascii cs f' (by omega) hcs]
      rfl
    · simp only [h1, Bool.false_eq_true, if_false] at hf ⊢
      simp only [Bool.or_eq_true, beq_iff_eq, not_or] at h1
      by_cases h2 : c.toNat < 32
      · simp only [h2, if_true, List.cons_append, List.nil_append, List.length_cons] at hf ⊢
        obtain ⟨f', rfl⟩ : ∃ f', f = f' + 1 := ⟨f - 1, by omega⟩
        have := unq_u00 39 c f' (escapePathKey cs) hc hbo
        simp only [hexDigit] at this
        rw [this, unquoteLoop_escape_ascii cs f' (by omega) hcs]
        rfl
      · simp only [h2, if_false, List.length_cons] at hf ⊢
        obtain ⟨f', rfl⟩ : ∃ f', f = f' + 1 := ⟨f - 1, by omega⟩
        rw [unq_ascii 39 c f' _ (by omega) hc h1.1 h1.2, unquoteLoop_escape_ascii cs f' (by omega) hcs]
        rfl

theorem C16_ascii_key_roundtrip_partial (k : Bytes) (hk : ∀ c ∈ k, c.toNat < 128) :
    unquoteBytes ([39] ++ escapePathKey k ++ [39]) 39 = some k := by
  unfold unquoteBytes
  have hlen : ¬ ([39] ++ escapePathKey k ++ [39]).length < 2 := by simp
  have hhead : ([39] ++ escapePathKey k ++ [39]).head? = some 39 := by simp
  have hlast : ([39] ++ escapePathKey k ++ [39]).getLast? = some 39 := by rw [List.getLast?_append]; simp
  simp only [hlen, hhead, hlast, if_false, bne_self_eq_false, Bool.or_self]
  have hbody : (List.drop 1 ([39] ++ escapePathKey k ++ [39])).take (([39] ++ escapePathKey k ++ [39]).length - 2) = escapePathKey k := by simp
  rw [hbody]
  exact unquoteLoop_escape_ascii k _ (Nat.le_refl _) hk

/-- **every key**, whatever its bytes (non-ASCII, ill-formed UTF-8, quotes, backslashes, control characters): the single-quoted
name `Path()` writes is read back by the path scanner's unquoter as the key with every ill-formed byte replaced by U+FFFD —
Go's own `string → []rune → string` coercion, the identity on well-formed UTF-8 -/
theorem C16_key_roundtrip (k : Bytes) : unquoteBytes ([39] ++ escapePathKey k ++ [39]) 39 = some (coerceUtf8 k) :=
  Proofs.key_roundtrip k

/-- … in particular exactly the key whenever the key is well-formed UTF-8 -/
theorem C16_key_roundtrip_valid (k : Bytes) (hv : validUtf8 k = true) :
    unquoteBytes ([39] ++ escapePathKey k ++ [39]) 39 = some k := Proofs.key_roundtrip_valid k hv

/-- non-vacuity: a key with a two-byte character, a quote and an ill-formed byte -/
example : unquoteBytes ([39] ++ escapePathKey [0xC3, 0xA9, 39, 0xFF] ++ [39]) 39 = some [0xC3, 0xA9, 39, 0xEF, 0xBF, 0xBD] := by
  decide +kernel

/-- the path of a root is `$`; a child's path is its parent's path plus one bracket segment chosen by the PARENT's type -/
theorem pathOf_root (fuel : Nat) (h : Heap) (n : Id) (hp : (h.get n).parent = none) : h.pathOf (fuel + 1) n = [36] := by
  simp [Heap.pathOf, hp]

theorem pathOf_array_child (fuel : Nat) (h : Heap) (n p : Id) (i : Nat) (hp : (h.get n).parent = some p)
    (ht : h.isObject p = false) (hi : (h.get n).index = some i) :
    h.pathOf (fuel + 1) n = h.pathOf fuel p ++ [91] ++ itoa i ++ [93] := by
  simp [Heap.pathOf, hp, ht, hi]

theorem pathOf_object_child (fuel : Nat) (h : Heap) (n p : Id) (k : Bytes) (hp : (h.get n).parent = some p)
    (ht : h.isObject p = true) (hk : (h.get n).key = some k) :
    h.pathOf (fuel + 1) n = h.pathOf fuel p ++ [91, 39] ++ escapePathKey k ++ [39, 93] := by
  simp [Heap.pathOf, hp, ht, hk]

end Ajson.Props.C16
