/-
C17 — Eq is value equality and the ordering comparisons are coherent.
-/
import Ajson.Model.Cmp
import Ajson.Proofs.HeapBasics
import Ajson.Proofs.EqValue
import Ajson.Proofs.CellsSteps
import Ajson.Proofs.EqSymm
import Ajson.Proofs.UnpackTotal
import Ajson.Proofs.LazyParsed
import Ajson.Proofs.Acyclic

namespace Ajson.Props.C17
open Ajson Ajson.Heap

/-! ### numbers: IEEE comparison on bit patterns -/

theorem f64_eq_symm (a b : UInt64) : F64.eq a b = F64.eq b a := by
  unfold F64.eq
  by_cases ha : F64.isNaN a <;> by_cases hb : F64.isNaN b <;> simp [ha, hb]
  by_cases za : F64.isZero a <;> by_cases zb : F64.isZero b <;> simp [za, zb]
  all_goals exact Bool.eq_iff_iff.mpr ⟨fun h => by simpa using (by simpa using h : a = b).symm, fun h => by simpa using (by simpa using h : b = a).symm⟩

theorem f64_eq_refl (a : UInt64) (h : F64.isNaN a = false) : F64.eq a a = true := by
  unfold F64.eq; simp [h]

/-- `-0 == 0` -/
theorem f64_neg_zero : F64.eq 0x8000000000000000 0 = true := by decide

theorem f64_lt_irrefl (a : UInt64) : F64.lt a a = false := by
  unfold F64.lt
  by_cases ha : F64.isNaN a <;> simp [ha]
  by_cases za : F64.isZero a <;> simp [za]
  cases F64.signBit a <;> simp

/-- `<=` is `<` or `==`; `>` and `>=` are the mirror images (by definition of `cmp`) -/
theorem f64_le_def (a b : UInt64) : F64.le a b = (F64.lt a b || F64.eq a b) := rfl

/-! ### strings: bytewise lexicographic order -/

theorem bytesLt_irrefl : ∀ s : Bytes, bytesLt s s = false
  | [] => rfl
  | a :: as => by
    unfold bytesLt
    have h1 : ¬ a < a := by simp
    simp [h1, bytesLt_irrefl as]

theorem bytesLt_asymm : ∀ s t : Bytes, bytesLt s t = true → bytesLt t s = false
  | [], [] => by simp [bytesLt]
  | [], _ :: _ => by simp [bytesLt]
  | _ :: _, [] => by simp [bytesLt]
  | a :: as, b :: bs => by
    unfold bytesLt
    by_cases h1 : a < b
    · have h2 : ¬ b < a := by
        intro hba; exact absurd (UInt8.lt_trans h1 hba) (by simp)
      have h3 : b > a := h1
      simp [h1, h2, h3]
    · by_cases h2 : a > b
      · have : b < a := h2
        simp [h1, h2, this]
      · have h2' : ¬ b < a := h2
        simp [h1, h2, h2']
        exact bytesLt_asymm as bs

/-- total: of two different strings one is smaller -/
theorem bytesLt_total : ∀ s t : Bytes, s ≠ t → bytesLt s t = true ∨ bytesLt t s = true
  | [], [] => by simp
  | [], _ :: _ => by simp [bytesLt]
  | _ :: _, [] => by simp [bytesLt]
  | a :: as, b :: bs => by
    intro hne
    unfold bytesLt
    by_cases h1 : a < b
    · simp [h1]
    · by_cases h2 : b < a
      · have : a > b := h2
        simp [h1, h2, this]
      · have hab : a = b := by
          have := UInt8.le_antisymm (UInt8.not_lt.mp h2) (UInt8.not_lt.mp h1)
          exact this
        subst hab
        have hne' : as ≠ bs := fun e => hne (by rw [e])
        have h3 : ¬ a > a := by simp
        simp [h1, h3]
        exact bytesLt_total as bs hne'

/-! ### the comparison methods -/

/-- a nil operand: every comparison reports "not parsed" and changes nothing -/
theorem C17_nil_operand (h : Heap) (a : Option Id) (o : Ord4) :
    h.eq none a = (h, .err (errT .unparsed)) ∧ h.eq a none = (h, .err (errT .unparsed)) ∧
    h.cmp o none a = (h, .err (errT .unparsed)) ∧ h.cmp o a none = (h, .err (errT .unparsed)) := by
  refine ⟨?_, ?_, ?_, ?_⟩
  · simp [Heap.eq, Heap.eqN]
  · cases a <;> simp [Heap.eq, Heap.eqN]
  · simp [Heap.cmp]
  · cases a <;> simp [Heap.cmp]

/-- different types: Eq and the four orderings answer false -/
theorem C17_different_types (h : Heap) (a b : Id) (o : Ord4) (ht : h.typeOf a ≠ h.typeOf b) :
    h.eq (some a) (some b) = (h, .ok false) ∧ h.cmp o (some a) (some b) = (h, .ok false) := by
  have : (h.typeOf a != h.typeOf b) = true := by simp [ht]
  constructor
  · simp [Heap.eq, Heap.eqN, this]
  · simp [Heap.cmp, this]

/-- same type, neither number nor string: the orderings report a type error -/
theorem C17_order_type_error (h : Heap) (a b : Id) (o : Ord4) (ht : h.typeOf a = h.typeOf b)
    (hn : h.typeOf a ≠ .numeric) (hs : h.typeOf a ≠ .string) :
    h.cmp o (some a) (some b) = (h, .err (errT .wrongType)) := by
  unfold Heap.cmp
  have : (h.typeOf a != h.typeOf b) = false := by simp [ht]
  simp only [this]
  cases hta : h.typeOf a <;> simp_all

/-- Neq is the negation of Eq (same heap, same errors) -/
theorem C17_neq (h : Heap) (a b : Option Id) :
    h.neq a b = (match h.eq a b with | (h1, .ok r) => (h1, .ok !r) | r => r) := rfl

/-- two nulls are equal -/
theorem C17_null (h : Heap) (a b : Id) (ha : h.typeOf a = .null) (hb : h.typeOf b = .null) :
    h.eq (some a) (some b) = (h, .ok true) := by
  have : (h.typeOf a != h.typeOf b) = false := by simp [ha, hb]
  simp [Heap.eq, Heap.eqN, this, ha, hb]

/-! ### Eq is equality of the denoted values

`absVal` (Proofs/Refine) is the plain data a node denotes — the value every C05 theorem speaks about and the one `Unpack` answers
(C05_unpack_answers_the_value); `jvalEq` (Proofs/EqValue) is equality of JSON values: numbers by IEEE `==` of the float64 (so
spelling is irrelevant: `1.0`, `1e0`, `10e-1` denote the same bits), strings and booleans by decoded content, arrays element by
element, objects as maps — same number of members and every member of the left found on the right with an equal value, in whatever
order either side stores them. `CellsOK`: the cached child list / member map of a container, where filled, says what the children
map says (true of every parsed heap and kept by every read; the mutators reset the cell of each container they change). -/

/-- **`Eq` answers exactly the equality of the two values**, on every sound heap, whatever reads happened before and however the two
nodes came about (parsed, constructed, edited): the hypotheses speak about the heap, not its history -/
theorem C17_eq_is_value_equality {h : Heap} (hs : Proofs.Struct h) (hc : Proofs.CellsOK h) (a b : Nat) (ha : a < h.size) (hb : b < h.size)
    (va vb : JVal) (ea : Proofs.absVal (h.size + 1) h a = some va) (eb : Proofs.absVal (h.size + 1) h b = some vb) :
    (h.eq (some a) (some b)).2 = .ok (Proofs.jvalEq va vb) ∧ (h.neq (some a) (some b)).2 = .ok (!Proofs.jvalEq va vb) := by
  have e := Proofs.eq_value h a b va vb hs hc ha hb ea eb
  refine ⟨e, ?_⟩
  unfold Heap.neq
  generalize h.eq (some a) (some b) = res at e
  obtain ⟨h1, o⟩ := res
  simp only [] at e; subst e; rfl

/-- … in particular for every accepted text, after ANY reads (laziness is invisible to `Eq`) -/
theorem C17_eq_on_parsed_trees (data : Bytes) (v : Spec.STree) (hp : Spec.parseRef data = .ok v) :
    ∃ H, unmarshal data = .ok (H, 0) ∧ ∀ H' : Heap, Proofs.Fills H H' → ∀ (a b : Nat), a < H'.size → b < H'.size → ∀ va vb,
      Proofs.absVal (H'.size + 1) H' a = some va → Proofs.absVal (H'.size + 1) H' b = some vb →
      (H'.eq (some a) (some b)).2 = .ok (Proofs.jvalEq va vb) := by
  obtain ⟨H, hu, he, _⟩ := Proofs.coherent_unmarshal data v hp
  obtain ⟨H2, hu2, hs, _⟩ := Proofs.acyc_unmarshal data v hp
  rw [hu] at hu2; cases hu2
  refine ⟨H, hu, fun H' F a b ha hb va vb ea eb => ?_⟩
  exact Proofs.eq_value H' a b va vb (hs.of_same F.1) ((Proofs.CellsOK.of_empty he).fills hs F) ha hb ea eb

/-- **… and after any history of edit requests and reads in any order** (`ReachedS`, Proofs/CellsSteps: the four scalar setters, DeleteKey,
DeleteIndex, Delete, AppendArray and AppendObject of one node, Clone, SetArray, SetObject, SetNode — accepted or rejected, any receiver
and arguments that exist at that moment, the copies made on the way included — interleaved with arbitrary reads): every edit keeps the container cells right (`Step.cells`: each step of a mutator leaves
type, children and cell of a record alone, or empties the cell, or changes the children of a node whose cell it emptied before), every
read does (`CellsAll.fills`), so `Eq` still answers the equality of the denoted values — whether a node was parsed or edited, read
before or not -/
theorem C17_eq_after_any_history (data : Bytes) (v : Spec.STree) (hp : Spec.parseRef data = .ok v) :
    ∃ H, unmarshal data = .ok (H, 0) ∧ ∀ H' : Heap, Proofs.ReachedS H H' → ∀ (a b : Nat), a < H'.size → b < H'.size → ∀ va vb,
      Proofs.absVal (H'.size + 1) H' a = some va → Proofs.absVal (H'.size + 1) H' b = some vb →
      (H'.eq (some a) (some b)).2 = .ok (Proofs.jvalEq va vb) := by
  obtain ⟨H, hu, he, _⟩ := Proofs.coherent_unmarshal data v hp
  obtain ⟨H2, hu2, hs, hac⟩ := Proofs.acyc_unmarshal data v hp
  rw [hu] at hu2; cases hu2
  refine ⟨H, hu, fun H' R a b ha hb va vb ea eb => ?_⟩
  obtain ⟨s', _, c'⟩ := Proofs.reachedS_sound R hs hac (Proofs.CellsAll.of_empty he)
  exact Proofs.eq_value H' a b va vb s' c'.ok ha hb ea eb

/-- the histories exist: on a one-node heap, Clone of the node, a read, then SetNode of the node with its copy -/
example : let h0 := (({} : Heap).alloc { type := .array, children := some [] }).1
    Proofs.ReachedS h0 (Proofs.Step.run ((Proofs.Step.run h0 (.clone 0)).getValue 0).1 (.setNode 0 1)) := by
  intro h0
  refine Proofs.ReachedS.step (.setNode 0 1) (Proofs.ReachedS.read (Proofs.ReachedS.step (.clone 0) (Proofs.ReachedS.refl h0) ?_) (Proofs.getValue_fills _ 0)) ?_
  · decide
  · decide

/-- the same from any sound heap whose cells are right (several documents, constructed nodes, …) -/
theorem C17_eq_after_any_history_from {h h' : Heap} (hs : Proofs.Struct h) (hac : Proofs.Acyc h) (c : Proofs.CellsAll h) (R : Proofs.ReachedS h h')
    (a b : Nat) (ha : a < h'.size) (hb : b < h'.size) (va vb : JVal)
    (ea : Proofs.absVal (h'.size + 1) h' a = some va) (eb : Proofs.absVal (h'.size + 1) h' b = some vb) :
    (h'.eq (some a) (some b)).2 = .ok (Proofs.jvalEq va vb) := by
  obtain ⟨s', _, c'⟩ := Proofs.reachedS_sound R hs hac c
  exact Proofs.eq_value h' a b va vb s' c'.ok ha hb ea eb

/-- **`Eq` is symmetric and reflexive** — on the nodes of every sound heap with right container cells (so after any history, see above):
`a.Eq(b)` and `b.Eq(a)` answer the same; `a.Eq(a)` answers true unless a NaN (which no JSON text denotes, but `SetNumeric` can store)
sits in the value. The values of nodes have pairwise different keys in every object, which is what the symmetry of the map
comparison needs (every key of the left is a key of the right, both have the same number of distinct keys, so — pigeonhole — every
key of the right is a key of the left); the induction is on the fuel of `absVal`. -/
theorem C17_eq_is_symmetric_and_reflexive {h : Heap} (hs : Proofs.Struct h) (hc : Proofs.CellsOK h) (a b : Nat) (ha : a < h.size) (hb : b < h.size)
    (va vb : JVal) (ea : Proofs.absVal (h.size + 1) h a = some va) (eb : Proofs.absVal (h.size + 1) h b = some vb) :
    (h.eq (some a) (some b)).2 = (h.eq (some b) (some a)).2 ∧ Proofs.jvalEq va vb = Proofs.jvalEq vb va ∧
    (Proofs.noNaN va = true → (h.eq (some a) (some a)).2 = .ok true) :=
  ⟨Proofs.eq_symm h a b va vb hs hc ha hb ea eb, Proofs.jvalEq_symm_nodes (h.size + 1) h hs a b va vb ha hb ea eb,
   fun nn => Proofs.eq_refl h a va hs hc ha ea nn⟩

/-- **`Eq` always answers** on a sound acyclic heap with right cells whose scalars have values (no number literal out of range): the
fuel suffices, no panic, no error — and the answer is the equality of the two values -/
theorem C17_eq_total {h : Heap} (hs : Proofs.Struct h) (ha : Proofs.Acyc h) (hc : Proofs.CellsOK h) (sc : Proofs.ScalarsOK h)
    (a b : Nat) (hna : a < h.size) (hnb : b < h.size) :
    ∃ va vb, Proofs.absVal (h.size + 1) h a = some va ∧ Proofs.absVal (h.size + 1) h b = some vb ∧
      (h.eq (some a) (some b)).2 = .ok (Proofs.jvalEq va vb) := by
  have val : ∀ n : Nat, n < h.size → ∃ v, Proofs.absVal (h.size + 1) h n = some v := by
    intro n hn
    obtain ⟨w, hw⟩ := Proofs.absSorted_total sc (Proofs.clone_hypothesis hs ha n hn).more
    rw [Proofs.absSorted_eq_canon] at hw
    cases hv : Proofs.absVal (h.size + 1) h n with
    | none => rw [hv] at hw; cases hw
    | some v => exact ⟨v, rfl⟩
  obtain ⟨va, ea⟩ := val a hna
  obtain ⟨vb, eb⟩ := val b hnb
  exact ⟨va, vb, ea, eb, Proofs.eq_value h a b va vb hs hc hna hnb ea eb⟩

/-- the comparison is a read: it fills empty value cells only, and no node's value changes -/
theorem C17_comparisons_are_reads (h : Heap) (a b : Option Id) (o : Ord4) :
    Proofs.Fills h (h.eq a b).1 ∧ Proofs.Fills h (h.neq a b).1 ∧ Proofs.Fills h (h.cmp o a b).1 :=
  ⟨Proofs.eq_fills h a b, Proofs.neq_fills h a b, Proofs.cmp_fills o h a b⟩

/-- **Le, Leq, Ge, Geq on two numbers are <, <=, >, >= of the float64 values; on two strings, of the decoded byte strings** -/
theorem C17_order_of_the_values (o : Ord4) (h : Heap) (a b : Nat) :
    (∀ x y, h.typeOf a = .numeric → h.typeOf b = .numeric → Proofs.scalarVal h a = some (.num x) → Proofs.scalarVal h b = some (.num y) →
      (h.cmp o (some a) (some b)).2 = .ok (match o with | .le => F64.lt x y | .leq => F64.le x y | .ge => F64.lt y x | .geq => F64.le y x)) ∧
    (∀ x y, h.typeOf a = .string → h.typeOf b = .string → Proofs.scalarVal h a = some (.str x) → Proofs.scalarVal h b = some (.str y) →
      (h.cmp o (some a) (some b)).2 = .ok (match o with
        | .le => bytesLt x y | .leq => bytesLt x y || x == y | .ge => bytesLt y x | .geq => bytesLt y x || x == y)) :=
  ⟨fun x y ta tb sx sy => Proofs.cmp_numbers o h a b x y ta tb sx sy, fun x y ta tb sx sy => Proofs.cmp_strings o h a b x y ta tb sx sy⟩

/-- witness (kernel evaluation): two spellings, key orders and a duplicate key — both sides denote a value, `Eq` answers true, and
so does `jvalEq` -/
example :
    (match unmarshal "[{\"a\":1.0,\"b\":[\"x\",null],\"a\":10e-1},{\"b\":[\"\\u0078\",null],\"a\":1}]".toUTF8.toList with
     | .error _ => false
     | .ok (h0, root) =>
       match h0.getIndex (some root) 0, h0.getIndex (some root) 1 with
       | .ok a, .ok b =>
         match (h0.eq (some a) (some b)).2, Proofs.absVal (h0.size + 1) h0 a, Proofs.absVal (h0.size + 1) h0 b with
         | .ok r, some va, some vb => r && Proofs.jvalEq va vb
         | _, _, _ => false
       | _, _ => false) = true := by decide +kernel

end Ajson.Props.C17
