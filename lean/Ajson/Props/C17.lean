/-
C17 — Eq is value equality and the ordering comparisons are coherent.
-/
import Ajson.Model.Cmp
import Ajson.Proofs.HeapBasics

namespace Ajson.Props.C17
open Ajson Ajson.Heap

/-! ### numbers: IEEE comparison on bit patterns -/

theorem f64_eq_symm (a b : UInt64) : F64.eq a b = F64.eq b a := by
  unfold F64.eq
  by_cases ha : F64.isNaN a <;> by_cases hb : F64.isNaN b <;> simp [ha, hb]
  by_cases za : F64.isZero a <;> by_cases zb : F64.isZero b <;> simp [za, zb]
  all_goals exact Bool.eq_iff_iff.mpr ⟨fun h => by simpa using (by simpa using h : a = b).symm, fun h => by simpa using (by simpa using h : b = a).symm⟩

theorem f64_eq_refl (a : UInt64) (h : F64.isNaN a = false) : F64.eq a a = true := by
  unfold F64.eq; simp [h]

/-- `-0 == 0` -/
theorem f64_neg_zero : F64.eq 0x8000000000000000 0 = true := by decide

theorem f64_lt_irrefl (a : UInt64) : F64.lt a a = false := by
  unfold F64.lt
  by_cases ha : F64.isNaN a <;> simp [ha]
  by_cases za : F64.isZero a <;> simp [za]
  cases F64.signBit a <;> simp

/-- `<=` is `<` or `==`; `>` and `>=` are the mirror images (by definition of `cmp`) -/
theorem f64_le_def (a b : UInt64) : F64.le a b = (F64.lt a b || F64.eq a b) := rfl

/-! ### strings: bytewise lexicographic order -/

theorem bytesLt_irrefl : ∀ s : Bytes, bytesLt s s = false
  | [] => rfl
  | a :: as => by
    unfold bytesLt
    have h1 : ¬ a < a := by simp
    simp [h1, bytesLt_irrefl as]

theorem bytesLt_asymm : ∀ s t : Bytes, bytesLt s t = true → bytesLt t s = false
  | [], [] => by simp [bytesLt]
  | [], _ :: _ => by simp [bytesLt]
  | _ :: _, [] => by simp [bytesLt]
  | a :: as, b :: bs => by
    unfold bytesLt
    by_cases h1 : a < b
    · have h2 : ¬ b < a := by
        intro hba; exact absurd (UInt8.lt_trans h1 hba) (by simp)
      have h3 : b > a := h1
      simp [h1, h2, h3]
    · by_cases h2 : a > b
      · have : b < a := h2
        simp [h1, h2, this]
      · have h2' : ¬ b < a := h2
        simp [h1, h2, h2']
        exact bytesLt_asymm as bs

/-- total: of two different strings one is smaller -/
theorem bytesLt_total : ∀ s t : Bytes, s ≠ t → bytesLt s t = true ∨ bytesLt t s = true
  | [], [] => by simp
  | [], _ :: _ => by simp [bytesLt]
  | _ :: _, [] => by simp [bytesLt]
  | a :: as, b :: bs => by
    intro hne
    unfold bytesLt
    by_cases h1 : a < b
    · simp [h1]
    · by_cases h2 : b < a
      · have : a > b := h2
        simp [h1, h2, this]
      · have hab : a = b := by
          have := UInt8.le_antisymm (UInt8.not_lt.mp h2) (UInt8.not_lt.mp h1)
          exact this
        subst hab
        have hne' : as ≠ bs := fun e => hne (by rw [e])
        have h3 : ¬ a > a := by simp
        simp [h1, h3]
        exact bytesLt_total as bs hne'

/-! ### the comparison methods -/

/-- a nil operand: every comparison reports "not parsed" and changes nothing -/
theorem C17_nil_operand (h : Heap) (a : Option Id) (o : Ord4) :
    h.eq none a = (h, .err (errT .unparsed)) ∧ h.eq a none = (h, .err (errT .unparsed)) ∧
    h.cmp o none a = (h, .err (errT .unparsed)) ∧ h.cmp o a none = (h, .err (errT .unparsed)) := by
  refine ⟨?_, ?_, ?_, ?_⟩
  · simp [Heap.eq, Heap.eqN]
  · cases a <;> simp [Heap.eq, Heap.eqN]
  · simp [Heap.cmp]
  · cases a <;> simp [Heap.cmp]

/-- different types: Eq and the four orderings answer false -/
theorem C17_different_types (h : Heap) (a b : Id) (o : Ord4) (ht : h.typeOf a ≠ h.typeOf b) :
    h.eq (some a) (some b) = (h, .ok false) ∧ h.cmp o (some a) (some b) = (h, .ok false) := by
  have : (h.typeOf a != h.typeOf b) = true := by simp [ht]
  constructor
  · simp [Heap.eq, Heap.eqN, this]
  · simp [Heap.cmp, this]

/-- same type, neither number nor string: the orderings report a type error -/
theorem C17_order_type_error (h : Heap) (a b : Id) (o : Ord4) (ht : h.typeOf a = h.typeOf b)
    (hn : h.typeOf a ≠ .numeric) (hs : h.typeOf a ≠ .string) :
    h.cmp o (some a) (some b) = (h, .err (errT .wrongType)) := by
  unfold Heap.cmp
  have : (h.typeOf a != h.typeOf b) = false := by simp [ht]
  simp only [this]
  cases hta : h.typeOf a <;> simp_all

/-- Neq is the negation of Eq (same heap, same errors) -/
theorem C17_neq (h : Heap) (a b : Option Id) :
    h.neq a b = (match h.eq a b with | (h1, .ok r) => (h1, .ok !r) | r => r) := rfl

/-- two nulls are equal -/
theorem C17_null (h : Heap) (a b : Id) (ha : h.typeOf a = .null) (hb : h.typeOf b = .null) :
    h.eq (some a) (some b) = (h, .ok true) := by
  have : (h.typeOf a != h.typeOf b) = false := by simp [ha, hb]
  simp [Heap.eq, Heap.eqN, this, ha, hb]

end Ajson.Props.C17
