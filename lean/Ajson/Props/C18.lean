/-
C18 — the caller's bytes are never written; UnmarshalSafe cuts the link.
-/
import Ajson.Spec.Static
import Ajson.Proofs.Datas
import Ajson.Proofs.ReadFrame2

namespace Ajson.Props.C18
open Ajson Ajson.Heap

/-- destinations a byte-level write may have: memory the function itself has just allocated -/
def freshRoots : List String := ["fresh:make", "fresh:literal", "fresh:conversion", "zero"]

/-- Over the regenerated table of ALL byte-level writes of the package (`x[i] = …` on a byte slice,
`copy(dst, …)`, `append(base, …)`): the destination's syntactic root is a `make`, a literal, a
`[]byte(string)` conversion or a nil slice declared in the same function. An in-place unescape, or an
`append` onto a sub-slice of the input or of `Source()`, would appear with root `param:…`, `field:…`
or `call:…` and break this theorem. -/
theorem C18_static : Gen.byteWrites.all (fun w => freshRoots.contains w.2.2) = true := by decide +kernel

/-- the byte-writing functions are the expected ones (a new one must be reviewed here) -/
theorem C18_writers : (Gen.byteWrites.map (·.1)).eraseDups =
    ["Marshal", "UnmarshalSafe", "buffer.token", "escapePathKey", "quoteString", "unquoteBytes"] := by decide +kernel

/-- on the model, the primitives of the heap never touch an input buffer … -/
theorem C18_primitives (h : Heap) (n : Id) (r : NodeRec) (f : NodeRec → NodeRec) :
    (h.set n r).datas = h.datas ∧ (h.modify n f).datas = h.datas ∧ (h.alloc r).1.datas = h.datas := by
  simp

/-- … reads leave every buffer as it is … -/
theorem C18_reads (fmtF : UInt64 → Option Bytes) (fuel : Nat) (h : Heap) (n : Id) (a b : Option Id) :
    (h.unpack fuel n).1.datas = h.datas ∧ (h.marshal fmtF fuel n).1.datas = h.datas ∧ (h.eq a b).1.datas = h.datas ∧
    (h.getString a).1.datas = h.datas ∧ (h.getNumeric a).1.datas = h.datas :=
  ⟨(unpack_frame fuel h n).1, (marshal_frame fmtF fuel h n).1, (eq_frame h a b).1, (getString_frame h a).1, (getNumeric_frame h a).1⟩

/-- … and so do `mark`, `clear`, `setReference`, `dropindex` (the primitives every mutator is made of) -/
theorem C18_mutator_primitives (h : Heap) (n : Id) (i : Nat) :
    (h.mark n).datas = h.datas ∧ (h.clear n).datas = h.datas ∧ (h.dropindex n i).datas = h.datas := by simp

/-- the only operation that adds a buffer is `addData` (called by `Unmarshal`), and it appends -/
theorem C18_addData_appends (h : Heap) (d : Bytes) : (h.addData d).1.datas = h.datas ++ [d] := rfl

end Ajson.Props.C18
