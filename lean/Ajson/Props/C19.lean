/-
C19 — all query entry points and anchors agree.
-/
import Ajson.Model.Path

namespace Ajson.Props.C19
open Ajson Ajson.Heap

/-- `Node.JSONPath(p)` IS `ParseJSONPath` followed by `ApplyJSONPath` (the model of the method is that composition) -/
theorem C19_entry (env : Env) (h : Heap) (n : Option Id) (p : Bytes) (cmds : List Bytes) (hp : parseJSONPath p = .ok cmds) :
    h.jsonPath env n p = h.applyJSONPath env (h.size + p.length + 8) n cmds := by
  unfold Heap.jsonPath; rw [hp]

/-- a path that does not parse fails the same way through both entry points, before any node is looked at -/
theorem C19_parse_error (env : Env) (h : Heap) (n : Option Id) (p : Bytes) (e : PErr) (hp : parseJSONPath p = .err e) :
    h.jsonPath env n p = (h, .err e) := by
  unfold Heap.jsonPath; rw [hp]

/-- the `$` command puts the root of the START node's tree into the working set, and only as the first command;
`@` puts the start node itself (built-in registry) -/
theorem C19_root_command (o : Oracle) (fuel : Nat) (h : Heap) (start : Id) (i : Nat) (result : List Id) :
    applyCmd ⟨builtinTable, o⟩ (fuel + 1) start h i [36] result = (h, .ok (if i = 0 then result ++ [h.root start] else result)) ∧
    applyCmd ⟨builtinTable, o⟩ (fuel + 1) start h i [64] result = (h, .ok (if i = 0 then result ++ [start] else result)) := by
  have t1 : Cur.tokenize builtinTable [36] = .ok [[36]] := by decide +kernel
  have t2 : Cur.tokenize builtinTable [64] = .ok [[64]] := by decide +kernel
  constructor
  · unfold Heap.applyCmd
    simp only [t1]
    by_cases hi : i = 0 <;> simp [hi]
  · unfold Heap.applyCmd
    simp only [t2]
    by_cases hi : i = 0 <;> simp [hi]

/-- `root()` of a node without a parent is the node itself; of a node with a parent it is `root()` of the parent
(for one step of the walk) — so `$` means the same from a node and from its parent -/
theorem root_step (fuel : Nat) (h : Heap) (n p : Id) (hp : (h.get n).parent = some p) :
    rootAux (fuel + 1) h n = rootAux fuel h p := by
  simp [rootAux, hp]

theorem root_of_root (fuel : Nat) (h : Heap) (n : Id) (hp : (h.get n).parent = none) : rootAux (fuel + 1) h n = n := by
  simp [rootAux, hp]

end Ajson.Props.C19
