/-
C19 — all query entry points and anchors agree.
-/
import Ajson.Model.Path
import Ajson.Proofs.Anchor
import Ajson.Proofs.Roots
import Ajson.Proofs.CloneSound
import Ajson.Proofs.Steps

namespace Ajson.Props.C19
open Ajson Ajson.Heap

/-- `Node.JSONPath(p)` IS `ParseJSONPath` followed by `ApplyJSONPath` (the model of the method is that composition) -/
theorem C19_entry (env : Env) (h : Heap) (n : Option Id) (p : Bytes) (cmds : List Bytes) (hp : parseJSONPath p = .ok cmds) :
    h.jsonPath env n p = h.applyJSONPath env (h.size + p.length + 8) n cmds := by
  unfold Heap.jsonPath; rw [hp]

/-- a path that does not parse fails the same way through both entry points, before any node is looked at -/
theorem C19_parse_error (env : Env) (h : Heap) (n : Option Id) (p : Bytes) (e : PErr) (hp : parseJSONPath p = .err e) :
    h.jsonPath env n p = (h, .err e) := by
  unfold Heap.jsonPath; rw [hp]

/-- the `$` command puts the root of the START node's tree into the working set, and only as the first command;
`@` puts the start node itself (built-in registry) -/
theorem C19_root_command (o : Oracle) (fuel : Nat) (h : Heap) (start : Id) (i : Nat) (result : List Id) :
    applyCmd ⟨builtinTable, o⟩ (fuel + 1) start h i [36] result = (h, .ok (if i = 0 then result ++ [h.root start] else result)) ∧
    applyCmd ⟨builtinTable, o⟩ (fuel + 1) start h i [64] result = (h, .ok (if i = 0 then result ++ [start] else result)) := by
  have t1 : Cur.tokenize builtinTable [36] = .ok [[36]] := by decide +kernel
  have t2 : Cur.tokenize builtinTable [64] = .ok [[64]] := by decide +kernel
  constructor
  · unfold Heap.applyCmd
    simp only [t1]
    by_cases hi : i = 0 <;> simp [hi]
  · unfold Heap.applyCmd
    simp only [t2]
    by_cases hi : i = 0 <;> simp [hi]

/-- `root()` of a node without a parent is the node itself; of a node with a parent it is `root()` of the parent
(for one step of the walk) — so `$` means the same from a node and from its parent -/
theorem root_step (fuel : Nat) (h : Heap) (n p : Id) (hp : (h.get n).parent = some p) :
    rootAux (fuel + 1) h n = rootAux fuel h p := by
  simp [rootAux, hp]

theorem root_of_root (fuel : Nat) (h : Heap) (n : Id) (hp : (h.get n).parent = none) : rootAux (fuel + 1) h n = n := by
  simp [rootAux, hp]

/-! ### anchors -/

/-- **a path starting with `$` gives the same result from every node of a tree**: for every registry, every heap — parsed,
constructed or edited, sound or not — and any two start nodes with the same `root()`, a query whose first command is `$` returns the
same nodes in the same order (or the same error) and leaves the same heap. The reason (`Proofs/Anchor`): a command other than `$`
and `@` never looks at the start node, `$` looks at it only through `root()`, and both only in first position. -/
theorem C19_dollar_same_from_every_node (env : Env) (fuel : Nat) (h : Heap) (s1 s2 : Id) (rest : List Bytes)
    (hroot : h.root s1 = h.root s2) :
    h.applyJSONPath env fuel (some s1) ([36] :: rest) = h.applyJSONPath env fuel (some s2) ([36] :: rest) :=
  Ajson.Proofs.dollar_same_from_every_node env fuel h s1 s2 rest hroot

/-- on a sound acyclic heap the hypothesis holds between any two nodes of one tree: `root()` ends at a node without a parent, a node
and its parent have the same root (the fuel of `root()` suffices: a parent chain has fewer links than there are nodes), so a `$` path
gives the same result from a node, from each of its ancestors, from its root, and from any node with a common ancestor -/
theorem C19_dollar_same_within_a_tree {h : Heap} (hs : Ajson.Proofs.Struct h) (ha : Ajson.Proofs.Acyc h) (env : Env) (fuel : Nat) (n m : Nat)
    (hn : n < h.size) (hm : m < h.size) (a : Id) (han : Ajson.Proofs.Anc h a n) (ham : Ajson.Proofs.Anc h a m) (rest : List Bytes) :
    h.applyJSONPath env fuel (some n) ([36] :: rest) = h.applyJSONPath env fuel (some m) ([36] :: rest) ∧
    h.applyJSONPath env fuel (some n) ([36] :: rest) = h.applyJSONPath env fuel (some (h.root n)) ([36] :: rest) :=
  ⟨Ajson.Proofs.dollar_same_tree hs.pir ha env fuel n m hn hm a han ham rest, Ajson.Proofs.dollar_from_node_and_root hs.pir ha env fuel n hn rest⟩

/-- **before and after edits**: after ANY history of edit requests and clones on a sound acyclic heap (every parsed document is one)
a `$` path still gives the same result from every node and from that node's root -/
theorem C19_dollar_after_any_history (ss : List Ajson.Proofs.Step) (h : Heap) (hs : Ajson.Proofs.Struct h) (ha : Ajson.Proofs.Acyc h)
    (hv : Ajson.Proofs.ValidSteps h ss) (env : Env) (fuel : Nat) (n : Nat) (hn : n < (ss.foldl Ajson.Proofs.Step.run h).size) (rest : List Bytes) :
    (ss.foldl Ajson.Proofs.Step.run h).applyJSONPath env fuel (some n) ([36] :: rest) =
      (ss.foldl Ajson.Proofs.Step.run h).applyJSONPath env fuel (some ((ss.foldl Ajson.Proofs.Step.run h).root n)) ([36] :: rest) := by
  obtain ⟨s1, a1, _⟩ := Ajson.Proofs.steps_sound ss h hs ha hv
  exact Ajson.Proofs.dollar_from_node_and_root s1.pir a1 env fuel n hn rest

/-- … and a path whose first command is neither `$` nor `@` does not depend on the start node at all -/
theorem C19_anchorless_same (env : Env) (fuel : Nat) (h : Heap) (s1 s2 : Id) (c : Bytes) (rest : List Bytes) (h36 : c ≠ [36]) (h64 : c ≠ [64]) :
    h.applyJSONPath env fuel (some s1) (c :: rest) = h.applyJSONPath env fuel (some s2) (c :: rest) :=
  Ajson.Proofs.anchorless_same env fuel h s1 s2 c rest h36 h64

/-- **a path starting with `@`, evaluated at node n, is `Path(n)` followed by the rest, evaluated at the root**: whenever the commands
`pre`, run from the root `r`, designate exactly the node `n` and leave the heap as it is — what the commands of `Path(n)` do (C16) —
the query `pre ++ rest` from the root and the query `@ rest` from `n` return the same nodes (or the same error) and the same heap -/
theorem C19_at_is_path_then_rest (env : Env) (fuel : Nat) (h : Heap) (r n : Id) (pre rest : List Bytes) (k : Nat) (hk : k ≠ 0)
    (toks : List Bytes) (ht : Cur.tokenize env.tbl [64] = .ok toks)
    (hpre : foldH (Ajson.Proofs.pathStep env fuel r) h pre (0, []) = (h, .ok (k, [n]))) :
    h.applyJSONPath env (fuel + 1) (some r) (pre ++ rest) = h.applyJSONPath env (fuel + 1) (some n) ([64] :: rest) :=
  Ajson.Proofs.at_is_path_then_rest env fuel h r n pre rest k hk toks ht hpre

/-- the premise is met (kernel evaluation): in `{"a":[10,{"b":2}]}` the commands of `$['a'][1]` run from the root designate the
second element of `a`, use three positions and leave the heap as it is -/
example :
    (match unmarshal "{\"a\":[10,{\"b\":2}]}".toUTF8.toList with
     | .error _ => false
     | .ok (h, r) =>
       match parseJSONPath "$['a'][1]".toUTF8.toList with
       | .ok pre =>
         (match foldH (Ajson.Proofs.pathStep ⟨builtinTable, {}⟩ 50 r) h pre (0, []) with
          | (h1, .ok (k, [n])) => k == 3 && h1.nodes == h.nodes && (h.get n).index == some 1 && h.typeOf n == .object
          | _ => false)
       | _ => false) = true := by decide +kernel

end Ajson.Props.C19
