/-
C20 — the command-line tool prints what the library computes.
-/
import Ajson.Model.Cli

namespace Ajson.Props.C20
open Ajson Ajson.Cli

/-- single-document mode: either the serialisation, a newline and exit status 0 with nothing on stderr; or nothing on
stdout, a message on stderr and a non-zero exit status -/
theorem C20_single (quiet : Bool) (lib : Bytes → LibRes) (input : Bytes) :
    (∃ s m, lib input = .value s (some m) ∧ run false quiet lib input = (m ++ [10], 0, false)) ∨
    (run false quiet lib input = ([], 1, true)) := by
  cases h : lib input with
  | parseErr => right; simp [run, apply, h]
  | queryErr => right; simp [run, apply, h]
  | value s m =>
    cases m with
    | none => right; simp [run, apply, h]
    | some bs => left; exact ⟨s, bs, rfl, by simp [run, apply, h]⟩

theorem apply_stdout_quiet (multiline : Bool) (r : LibRes) : (apply multiline true r).stdout = (apply multiline false r).stdout := by
  unfold apply
  cases r with
  | parseErr => cases multiline <;> rfl
  | queryErr => cases multiline <;> rfl
  | value s m => cases multiline <;> cases s <;> cases m <;> rfl

theorem mlLoop_stdout_quiet (lib : Bytes → LibRes) : ∀ (fuel : Nat) (rest : Bytes) (a b : Out), a.stdout = b.stdout →
    (mlLoop true lib fuel rest a).stdout = (mlLoop false lib fuel rest b).stdout
  | 0, rest, a, b, hab => by simpa [mlLoop] using hab
  | fuel+1, rest, a, b, hab => by
    unfold mlLoop
    simp only []
    by_cases hd : (readBytes rest).1.isEmpty
    · simp only [hd, if_true]
      by_cases he : (readBytes rest).2.2
      · simpa [he] using hab
      · simp only [he]; exact mlLoop_stdout_quiet lib fuel _ a b hab
    · simp only [hd]
      by_cases he : (readBytes rest).2.2
      · simp [he, hab, apply_stdout_quiet]
      · simp only [he]
        exact mlLoop_stdout_quiet lib fuel _ _ _ (by simp [hab, apply_stdout_quiet])

/-- `-q` changes stderr only: stdout and the exit status are the same -/
theorem C20_quiet_only_stderr (multiline : Bool) (lib : Bytes → LibRes) (input : Bytes) :
    (run multiline true lib input).1 = (run multiline false lib input).1 ∧
    (run multiline true lib input).2.1 = (run multiline false lib input).2.1 := by
  cases multiline
  · constructor
    · simp [run, apply_stdout_quiet]
    · simp only [run]
      cases lib input with
      | parseErr => rfl
      | queryErr => rfl
      | value s m => cases s <;> cases m <;> rfl
  · exact ⟨by simp only [run, if_true]; exact mlLoop_stdout_quiet lib _ _ _ _ rfl, rfl⟩

/-- the reader hands `apply` exactly the lines of the input — including a last line that has no newline — each once and in
order: what one round of the loop reads is the first line of `splitLines`, and the rest is split the same way -/
theorem readBytes_cons_ne (b : UInt8) (bs : Bytes) (hb : ¬ (b == 10) = true) :
    readBytes (b :: bs) = (b :: (readBytes bs).1, (readBytes bs).2.1, (readBytes bs).2.2) := by
  simp [readBytes, hb]

theorem readBytes_is_first_line : ∀ (input : Bytes), input ≠ [] →
    splitLines input = (readBytes input).1 :: splitLines (readBytes input).2.1
  | [], h => absurd rfl h
  | [b], _ => by
    by_cases hb : (b == 10) = true <;> simp [readBytes, splitLines, hb]
  | b :: c :: cs, _ => by
    have ih := readBytes_is_first_line (c :: cs) (by simp)
    by_cases hb : (b == 10) = true
    · simp [readBytes, splitLines, hb]
    · rw [splitLines]
      simp only [hb, if_false]
      rw [ih, readBytes_cons_ne b (c :: cs) hb]
      simp

/-- lines partition the input: nothing is lost, nothing is read twice -/
theorem splitLines_flatten : ∀ input : Bytes, (splitLines input).flatten = input
  | [] => rfl
  | b :: bs => by
    have ih := splitLines_flatten bs
    by_cases hb : (b == 10) = true
    · rw [splitLines]; simp [hb, ih]
    · rw [splitLines]
      simp only [hb, if_false]
      cases hs : splitLines bs with
      | nil => rw [hs] at ih; simp at ih; simp [← ih]
      | cons l ls => rw [hs] at ih; simp at ih ⊢; rw [← ih]

/-- the former defect D14 on the model: the last line of `-m` input is processed although it has no newline, and a
bad line does not affect the others -/
example :
    let lib : Bytes → LibRes := fun l => if l == [49, 10] then .value false (some [91, 49, 93]) else if l == [120, 10] then .parseErr
      else if l == [50] then .value false (some [91, 50, 93]) else .queryErr
    run true true lib [49, 10, 120, 10, 50] = ([91, 49, 93, 10, 91, 50, 93, 10], 0, false) := by decide +kernel

end Ajson.Props.C20
