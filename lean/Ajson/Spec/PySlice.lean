/-
Python's slice semantics (CPython `PySlice_AdjustIndices` + `range`), the reference for JSONPath slices.
-/
import Ajson.Model.Path

namespace Ajson.Spec
open Ajson Ajson.Heap

/-- Python's `slice(s, e, st).indices(n)` for st ≠ 0, on `Option Int` bounds -/
def pyBounds (n : Nat) (s e : Option Int) (st : Int) : Int × Int :=
  let len : Int := n
  if st > 0 then
    let start := match s with
      | none => 0
      | some v => if v < 0 then (if v + len < 0 then 0 else v + len) else (if v > len then len else v)
    let stop := match e with
      | none => len
      | some v => if v < 0 then (if v + len < 0 then 0 else v + len) else (if v > len then len else v)
    (start, stop)
  else
    let start := match s with
      | none => len - 1
      | some v => if v < 0 then (if v + len < 0 then -1 else v + len) else (if v ≥ len then len - 1 else v)
    let stop := match e with
      | none => -1
      | some v => if v < 0 then (if v + len < 0 then -1 else v + len) else (if v ≥ len then len - 1 else v)
    (start, stop)

/-- does Python's `range(start, stop, st)` visit index k -/
def pyVisits (n : Nat) (s e : Option Int) (st : Int) (k : Nat) : Bool :=
  let (start, stop) := pyBounds n s e st
  let ki : Int := k
  if st > 0 then start ≤ ki && ki < stop && (ki - start) % st == 0
  else ki ≤ start && ki > stop && (start - ki) % (-st) == 0

/-- what ApplyJSONPath computes before the loop: absent bound ↦ default by direction, present bound ↦ `getPositiveIndex` -/
def ajsonBounds (n : Nat) (s e : Option Int) (st : Int) : Int × Int :=
  (match s with | none => (if st > 0 then 0 else (n : Int) - 1) | some v => getPositiveIndex v n,
   match e with | none => (if st > 0 then (n : Int) else -1) | some v => getPositiveIndex v n)

/-- the list Python's `a[s:e:st]` visits, as indices: ascending for a positive step, descending for a negative one -/
def pySlice (n : Nat) (s e : Option Int) (st : Int) : List Nat :=
  (if st > 0 then List.range n else (List.range n).reverse).filter (pyVisits n s e st)

end Ajson.Spec
