/-
Reference reading of RFC 8259, written directly from the grammar and independent of the transition
table and of the model's decoder: a recursive-descent recogniser/evaluator `parseRef` that returns the
denoted value with the span of every node, or the offset of the first byte at which the input stops
being a prefix of any JSON text (`RefErr.at`), or `RefErr.eof` when the input is a proper prefix.
Strings are decoded with the model's `unquoteLoop` (shared with the implementation model; its own
specification is `Spec.decodeString`, see `Props.C02`).
-/
import Ajson.Model.Read
import Ajson.Model.Scan

namespace Ajson.Spec
open Ajson

inductive RefErr
  | at (i : Nat)
  | eof
  deriving Repr, DecidableEq

/-- a JSON value with the [start, stop) span of every node -/
inductive STree
  | null (a b : Nat)
  | num (a b : Nat) (lit : Bytes)
  | str (a b : Nat) (raw : Bytes)                -- raw = the literal including its quotes
  | bool (a b : Nat) (v : Bool)
  | arr (a b : Nat) (xs : List STree)
  | obj (a b : Nat) (kvs : List (Bytes × STree)) -- keys decoded; source order, duplicates kept
  deriving Repr, Inhabited

def isHex (b : UInt8) : Bool := (hexVal b).isSome

/-- string body after the opening quote: returns the remaining input AFTER the closing quote and its index -/
def scanStringBody : Bytes → Nat → Except RefErr (Bytes × Nat)
  | [], _ => .error .eof
  | 34 :: r, i => .ok (r, i + 1)
  | 92 :: r, i =>
    match r with
    | [] => .error .eof
    | e :: r1 =>
      if e == 34 || e == 92 || e == 47 || e == 98 || e == 102 || e == 110 || e == 114 || e == 116 then scanStringBody r1 (i + 2)
      else if e == 117 then
        match r1 with
        | a :: b :: c :: d :: r2 =>
          if !isHex a then .error (.at (i + 2)) else if !isHex b then .error (.at (i + 3))
          else if !isHex c then .error (.at (i + 4)) else if !isHex d then .error (.at (i + 5))
          else scanStringBody r2 (i + 6)
        | [a, b, c] => if !isHex a then .error (.at (i + 2)) else if !isHex b then .error (.at (i + 3)) else if !isHex c then .error (.at (i + 4)) else .error .eof
        | [a, b] => if !isHex a then .error (.at (i + 2)) else if !isHex b then .error (.at (i + 3)) else .error .eof
        | [a] => if !isHex a then .error (.at (i + 2)) else .error .eof
        | [] => .error .eof
      else .error (.at (i + 1))
  | c :: r, i => if c.toNat < 32 then .error (.at i) else scanStringBody r (i + 1)

def skipDigits : Bytes → Nat → Bytes × Nat
  | [], i => ([], i)
  | b :: bs, i => if isDigit b then skipDigits bs (i + 1) else (b :: bs, i)

/-- number literal: returns the remaining input after the longest number and its index -/
def scanNumber (s : Bytes) (i : Nat) : Except RefErr (Bytes × Nat) :=
  let (s1, i1) := match s with
    | 45 :: r => (r, i + 1)
    | _ => (s, i)
  -- int part
  let intPart : Except RefErr (Bytes × Nat) := match s1 with
    | [] => .error .eof
    | 48 :: r => .ok (r, i1 + 1)
    | b :: r => if isDigit b then .ok (skipDigits r (i1 + 1)) else .error (.at i1)
  match intPart with
  | .error e => .error e
  | .ok (s2, i2) =>
    let fracPart : Except RefErr (Bytes × Nat) := match s2 with
      | 46 :: r =>
        match r with
        | [] => .error .eof
        | b :: r' => if isDigit b then .ok (skipDigits r' (i2 + 2)) else .error (.at (i2 + 1))
      | _ => .ok (s2, i2)
    match fracPart with
    | .error e => .error e
    | .ok (s3, i3) =>
      match s3 with
      | c :: r =>
        if c == 101 || c == 69 then
          let (r1, j) := match r with
            | 43 :: t => (t, i3 + 2)
            | 45 :: t => (t, i3 + 2)
            | _ => (r, i3 + 1)
          match r1 with
          | [] => .error .eof
          | b :: r' => if isDigit b then .ok (skipDigits r' (j + 1)) else .error (.at j)
        else .ok (s3, i3)
      | [] => .ok (s3, i3)

def expectWord : Bytes → Bytes → Nat → Except RefErr (Bytes × Nat)
  | [], rest, i => .ok (rest, i)
  | _ :: _, [], _ => .error .eof
  | w :: ws, b :: bs, i => if b == w then expectWord ws bs (i + 1) else .error (.at i)

/-- value at `s` (no leading whitespace), index `i`; fuel bounds the nesting + breadth (input length suffices) -/
def parseValue : Nat → Bytes → Nat → Except RefErr (STree × Bytes × Nat)
  | 0, _, _ => .error .eof
  | fuel+1, s, i =>
    match s with
    | [] => .error .eof
    | c :: r =>
      if c == 123 then          -- {
        let (r1, i1) := skipWs r (i + 1)
        match r1 with
        | [] => .error .eof
        | 125 :: r2 => .ok (.obj i (i1 + 1) [], r2, i1 + 1)
        | _ => members fuel r1 i1 i []
      else if c == 91 then      -- [
        let (r1, i1) := skipWs r (i + 1)
        match r1 with
        | [] => .error .eof
        | 93 :: r2 => .ok (.arr i (i1 + 1) [], r2, i1 + 1)
        | _ => elements fuel r1 i1 i []
      else if c == 34 then
        match scanStringBody r (i + 1) with
        | .error e => .error e
        | .ok (r1, j) => .ok (.str i j (s.take (j - i)), r1, j)
      else if c == 116 then (expectWord wTrue s i).map (fun (r1, j) => (.bool i j true, r1, j))
      else if c == 102 then (expectWord wFalse s i).map (fun (r1, j) => (.bool i j false, r1, j))
      else if c == 110 then (expectWord wNull s i).map (fun (r1, j) => (.null i j, r1, j))
      else if c == 45 || isDigit c then
        (scanNumber s i).map (fun (r1, j) => (.num i j (s.take (j - i)), r1, j))
      else .error (.at i)
where
  /-- elements of an array, positioned on the first byte of a value -/
  elements : Nat → Bytes → Nat → Nat → List STree → Except RefErr (STree × Bytes × Nat)
    | 0, _, _, _, _ => .error .eof
    | fuel+1, s, i, start, acc =>
      match parseValue fuel s i with
      | .error e => .error e
      | .ok (v, r, j) =>
        let (r1, j1) := skipWs r j
        match r1 with
        | [] => .error .eof
        | 93 :: r2 => .ok (.arr start (j1 + 1) (acc ++ [v]), r2, j1 + 1)
        | 44 :: r2 =>
          let (r3, j3) := skipWs r2 (j1 + 1)
          elements fuel r3 j3 start (acc ++ [v])
        | _ => .error (.at j1)
  /-- members of an object, positioned on the first byte of a key -/
  members : Nat → Bytes → Nat → Nat → List (Bytes × STree) → Except RefErr (STree × Bytes × Nat)
    | 0, _, _, _, _ => .error .eof
    | fuel+1, s, i, start, acc =>
      match s with
      | [] => .error .eof
      | 34 :: r =>
        match scanStringBody r (i + 1) with
        | .error e => .error e
        | .ok (r1, j) =>
          let raw := s.take (j - i)
          let key := (unquoteBytes raw 34).getD []
          let (r2, j2) := skipWs r1 j
          match r2 with
          | [] => .error .eof
          | 58 :: r3 =>
            let (r4, j4) := skipWs r3 (j2 + 1)
            match parseValue fuel r4 j4 with
            | .error e => .error e
            | .ok (v, r5, j5) =>
              let (r6, j6) := skipWs r5 j5
              match r6 with
              | [] => .error .eof
              | 125 :: r7 => .ok (.obj start (j6 + 1) (acc ++ [(key, v)]), r7, j6 + 1)
              | 44 :: r7 =>
                let (r8, j8) := skipWs r7 (j6 + 1)
                members fuel r8 j8 start (acc ++ [(key, v)])
              | _ => .error (.at j6)
          | _ => .error (.at j2)
      | _ => .error (.at i)

/-- a whole JSON text: ws value ws -/
def parseRef (bs : Bytes) : Except RefErr STree :=
  let (s, i) := skipWs bs 0
  match parseValue (2 * bs.length + 4) s i with
  | .error e => .error e
  | .ok (v, r, j) =>
    match skipWs r j with
    | ([], _) => .ok v
    | (_, k) => .error (.at k)

/-- value denoted by a span tree: numbers by `parseFloat64` (an out-of-range literal denotes `none`),
strings by `unquoteBytes`, objects keep the LAST duplicate, members sorted by key -/
def dedupLast {α : Type} : List (Bytes × α) → List (Bytes × α)
  | [] => []
  | (k, v) :: rest => if rest.any (fun p => p.1 == k) then dedupLast rest else (k, v) :: dedupLast rest

def insertKV (p : Bytes × JVal) : List (Bytes × JVal) → List (Bytes × JVal)
  | [] => [p]
  | q :: qs => if Heap.bytesLt p.1 q.1 then p :: q :: qs else q :: insertKV p qs
def sortKV (m : List (Bytes × JVal)) : List (Bytes × JVal) := m.foldr insertKV []

def sequenceKV : List (Bytes × Option JVal) → Option (List (Bytes × JVal))
  | [] => some []
  | (k, some v) :: rest => (sequenceKV rest).map ((k, v) :: ·)
  | (_, none) :: _ => none

mutual
/-- `none` = the value contains a number literal outside the float64 range (the one permitted read error);
a shadowed duplicate member is never read, so it does not count. -/
def STree.value : STree → Option JVal
  | .null _ _ => some .null
  | .num _ _ lit => match parseFloat64 lit with
    | .ok b => some (.num b)
    | .error _ => none
  | .str _ _ raw => (unquoteBytes raw 34).map .str
  | .bool _ _ v => some (.bool v)
  | .arr _ _ xs => (STree.values xs).map .arr
  | .obj _ _ kvs => (sequenceKV (dedupLast (STree.kvalues kvs))).map (fun l => .obj (sortKV l))
def STree.values : List STree → Option (List JVal)
  | [] => some []
  | x :: xs => match x.value, STree.values xs with
    | some v, some vs => some (v :: vs)
    | _, _ => none
def STree.kvalues : List (Bytes × STree) → List (Bytes × Option JVal)
  | [] => []
  | (k, x) :: xs => (k, x.value) :: STree.kvalues xs
end

end Ajson.Spec
