/-
Token-level view of `rpn()` (C09): the shunting-yard core on already-lexed tokens. It is built from the
SAME functions the byte-level model uses (`popOps`, `popParen`, `flushStack` of Model/Expr.lean), so the
theorems about it are theorems about the model's stack discipline; the lexing around it (what is an
operand, longest-match operators, names) is tied by the `scan` correspondence stream.
-/
import Ajson.Model.Expr

namespace Ajson.Spec
open Ajson Ajson.Cur

inductive Tok
  | operand (s : Bytes)      -- number, string, path, constant
  | op (s : Bytes)           -- a registered operation
  | fn (s : Bytes)           -- a registered function name (followed by `(`)
  | lparen
  | rparen
  deriving Repr, DecidableEq

/-- one pass over the tokens: operator stack (top first) and output queue -/
def shuntLoop (t : OpTable) : List Tok → List Bytes → List Bytes → Option (List Bytes × List Bytes)
  | [], stack, out => some (stack, out)
  | .operand s :: rest, stack, out => shuntLoop t rest stack (out ++ [s])
  | .op o :: rest, stack, out =>
    let (stack', out') := popOps t o stack out
    shuntLoop t rest (o :: stack') out'
  | .fn f :: rest, stack, out => shuntLoop t rest (f :: stack) out
  | .lparen :: rest, stack, out => shuntLoop t rest ([40] :: stack) out
  | .rparen :: rest, stack, out =>
    match popParen stack out with
    | none => none
    | some (stack', out') => shuntLoop t rest stack' out'

/-- infix tokens to postfix -/
def shunt (t : OpTable) (toks : List Tok) : Option (List Bytes) :=
  match shuntLoop t toks [] [] with
  | none => none
  | some (stack, out) => flushStack t stack out

end Ajson.Spec
