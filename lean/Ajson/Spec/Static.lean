/-
Static reasoning over the regenerated syntactic facts (`Gen.Effects`): reachability in the call graph.
Functions are numbered by the translator (`Gen.funcNames`); a set of functions is a bit mask in a `Nat`,
so the kernel decides everything here with its built-in natural-number arithmetic.
-/
import Ajson.Gen.Effects

namespace Ajson.Spec

def mem (s : Nat) (i : Nat) : Bool := s.testBit i
def ins (s : Nat) (i : Nat) : Nat := s ||| (1 <<< i)

/-- one round: add every callee of a function already in the set -/
def reachStep (edges : List (Nat × Nat)) (s : Nat) : Nat :=
  edges.foldl (fun acc e => if mem acc e.1 then ins acc e.2 else acc) s

def reachIter (edges : List (Nat × Nat)) : Nat → Nat → Nat
  | 0, s => s
  | k+1, s => reachIter edges k (reachStep edges s)

def fnId (name : String) : Option Nat := Gen.funcNames.idxOf? name

/-- the read-only entry points of the library (C12, C13) -/
def readEntryNames : List String := [
  "Node.GetNull", "Node.GetNumeric", "Node.GetString", "Node.GetBool", "Node.GetArray", "Node.GetObject",
  "Node.MustNull", "Node.MustNumeric", "Node.MustString", "Node.MustBool", "Node.MustArray", "Node.MustObject",
  "Node.Value", "Node.Unpack", "Marshal", "Node.String", "Node.Source", "Node.Eq", "Node.Neq", "Node.Le", "Node.Leq", "Node.Ge", "Node.Geq",
  "Node.Path", "Paths", "Node.Inheritors", "Node.JSONPath", "ApplyJSONPath", "ParseJSONPath", "Eval", "Node.Clone",
  "Node.Keys", "Node.Size", "Node.GetIndex", "Node.MustIndex", "Node.GetKey", "Node.MustKey", "Node.HasKey", "Node.Empty",
  "Node.Type", "Node.Key", "Node.Index", "Node.Parent", "Node.IsArray", "Node.IsObject", "Node.IsNull", "Node.IsNumeric",
  "Node.IsString", "Node.IsBool", "Node.IsDirty"]

/-- entry points as a set (an entry point without calls or writes does not occur in the facts and has no number) -/
def readEntrySet : Nat := (readEntryNames.filterMap fnId).foldl ins 0

/-- functions reachable from the read-only entry points (16 rounds; closure is theorem `reach_closed`) -/
def readReachable : Nat := reachIter Gen.callEdgesN 16 readEntrySet

def nameOf (i : Nat) : String := Gen.funcNames.getD i "?"

def reachableName (name : String) : Bool := match fnId name with | some i => mem readReachable i | none => false

end Ajson.Spec
