/-
The well-formedness invariant of the node heap (DESIGN.md §5, C05/C06), as an executable check.
`wfNode h p` states, for one node p:
  I1  every child listed by p is a live node whose parent is p and whose position matches its map key
      (arrays: key = itoa index; objects: key = the child's key);
  I1' p's own parent (if any) lists p;
  I3  the keys of p's children are pairwise different, and an array's keys are "0" … "n-1";
  I4  dirty is upward closed (a dirty node has a dirty parent); a clean node has a data cell and is complete,
      and so are its children;
  I6  a scalar has no children; a container has a children map.
`acyclicFrom` is I2 (no node is its own ancestor).  The cache condition I5 is `cacheOK`.
-/
import Ajson.Model.Mutate

namespace Ajson
namespace Heap

def keysNodup : List Bytes → Bool
  | [] => true
  | k :: ks => !ks.contains k && keysNodup ks

def wfNode (h : Heap) (p : Id) : Bool :=
  let r := h.get p
  let kids := r.children.getD []
  kids.all (fun kc =>
    kc.2 < h.size && kc.2 != p && (h.get kc.2).parent == some p &&
    (if r.type == .array then (h.get kc.2).index.map itoa == some kc.1 else (h.get kc.2).key == some kc.1)) &&
  keysNodup kids.keys &&
  (r.type != .array || (List.range kids.length).all (fun i => (kids.lookup (itoa i)).isSome)) &&
  (if r.type.isContainer then r.children.isSome else kids.isEmpty) &&
  (match r.parent with
   | some q => q < h.size && (h.get q).type.isContainer && (h.childMap q).vals.contains p && (!r.dirty || (h.get q).dirty)
   | none => true) &&
  (r.dirty || (r.data.isSome && r.b1 != 0 && kids.all (fun kc => !(h.get kc.2).dirty)))

/-- the parent chain of n ends within `fuel` steps -/
def chainEnds : Nat → Heap → Id → Bool
  | 0, _, _ => false
  | fuel+1, h, n => match (h.get n).parent with
    | none => true
    | some p => chainEnds fuel h p

/-- I5: a filled cache cell holds what the other fields imply (containers: the children; the scalar cases are
checked against the source literal by `C02`) -/
def cacheOK (h : Heap) (n : Id) : Bool :=
  let r := h.get n
  match r.cache with
  | some (.arr ids) => r.type == .array && (match h.placeByIndex (r.children.getD []) with | .ok ids' => ids == ids' | _ => false)
  | some (.obj kv) => r.type == .object && kv.length == (r.children.getD []).length && kv.all (fun p => (r.children.getD []).lookup p.1 == some p.2)
  | some (.num _) => r.type == .numeric
  | some (.str _) => r.type == .string
  | some (.bool _) => r.type == .bool
  | some .bad => false
  | none => r.type != .numeric || !r.dirty || true

/-- the whole heap: every node is well formed, parent chains end, caches are coherent -/
def wfB (h : Heap) : Bool :=
  (List.range h.size).all (fun n => h.wfNode n && chainEnds (h.size + 1) h n && h.cacheOK n)

def WF (h : Heap) : Prop := h.wfB = true

end Heap
end Ajson
