/-
Line-protocol driver of the model: one request per line on stdin (fields separated by tabs, byte strings
in hex), one canonical response line on stdout. The Go harness runs the implementation on the same
requests and the two output streams are compared line by line.
-/
import Ajson.Model.Dump
import Ajson.Model.Decode
import Ajson.Model.Session
import Ajson.Model.Cli

open Ajson

def respDecode (bs : Bytes) : String :=
  match unmarshal bs with
  | .error e => errStr e
  | .ok (h, r) => "ok " ++ (dumpTree h r).2

def respRef (bs : Bytes) : String :=
  match Spec.parseRef bs with
  | .error (.at i) => s!"err at {i}"
  | .error .eof => "err eof"
  | .ok t => match t.value with
    | some v => "ok " ++ v.canon
    | none => "ok range"

def handle (line : String) : String :=
  match line.splitOn "\t" with
  | ["decode", x] => match fromHex x with
    | some bs => respDecode bs
    | none => "bad-hex"
  | ["ref", x] => match fromHex x with
    | some bs => respRef bs
    | none => "bad-hex"
  | ["unquote", x, b] => match fromHex x, b.toNat? with
    | some bs, some q => match unquoteBytes bs (UInt8.ofNat q) with
      | some r => "ok " ++ hexOrDash r
      | none => "fail"
    | _, _ => "bad-req"
  | ["quote", x] => match fromHex x with
    | some bs => hexOrDash (quoteString bs)
    | none => "bad-hex"
  | ["num", x] => match fromHex x with
    | some bs => match parseFloat64 bs with
      | .ok b => "ok " ++ hex64 b
      | .error (some b) => "range " ++ hex64 b
      | .error none => "syntax"
    | none => "bad-hex"
  | ["pparse", x] => match fromHex x with
    | some bs => match parseJSONPath bs with
      | .ok cmds => "ok " ++ ",".intercalate (cmds.map hexOrDash)
      | .err e => errStr e
      | .panic s => "panic " ++ s
    | none => "bad-hex"
  | ["tokenize", x] => match fromHex x with
    | some bs => match Cur.tokenize builtinTable bs with
      | .ok toks => "ok " ++ ",".intercalate (toks.map hexOrDash)
      | .err e => errStr e
      | .panic s => "panic " ++ s
    | none => "bad-hex"
  | ["rpn", x] => match fromHex x with
    | some bs => match Cur.rpn builtinTable bs with
      | .ok toks => "ok " ++ ",".intercalate (toks.map hexOrDash)
      | .err e => errStr e
      | .panic s => "panic " ++ s
    | none => "bad-hex"
  | ["cli", mode, x, table] =>
    match fromHex x with
    | none => "bad-hex"
    | some input =>
      let entries : List (Bytes × Cli.LibRes) := (table.splitOn ";").filterMap (fun e => match e.splitOn "=" with
        | [k, v] => match fromHex k with
          | some kb =>
            if v == "P" then some (kb, Cli.LibRes.parseErr)
            else if v == "Q" then some (kb, Cli.LibRes.queryErr)
            else match (v.drop 1).toString.splitOn ":" with
              | [s, m] => some (kb, Cli.LibRes.value (s == "1") (if m == "E" then none else fromHex m))
              | _ => none
          | none => none
        | _ => none)
      let lib : Bytes → Cli.LibRes := fun l => ((entries.find? (fun p => p.1 == l)).map (·.2)).getD Cli.LibRes.parseErr
      let multiline := mode.startsWith "m"
      let quiet := mode.endsWith "q"
      let (out, code, err) := Cli.run multiline quiet lib input
      s!"{hexOrDash out} {code} {if err then 1 else 0}"
  | ["apath", x] => match fromHex x with
    | some path =>
      -- a path applied to the fixed document of the scan stream, from its root
      match unmarshal "{\"a\":[1,2,{\"b\":\"x\"}],\"0\":3}".toUTF8.toList with
      | .error _ => "bad-doc"
      | .ok (h, root) =>
        match h.jsonPath ⟨builtinTable, {}⟩ (some root) path with
        | (h', .ok ids) => "ok " ++ ",".intercalate (ids.map (fun n => if n < h.size then hexOrDash (h'.pathOf (h'.size + 1) n) else "new"))
        | (_, .err e) => s!"err {e.typ.code}"
        | (_, .panic site) => if site.startsWith "oracle:" then "oracle-missing" else "panic " ++ site
    | none => "bad-hex"
  | ["race", _, _, _] =>
    -- the model's prediction for any pair of read-only operations run concurrently on one tree: every call returns what it
    -- returns alone (Props.C12: reads write nothing but deterministic cache fills)
    "ok"
  | ["utf8", x] => match fromHex x with
    | some bs => let (r, s) := decodeRune bs; s!"{r} {s} {toHex (encodeRune r)}"
    | none => "bad-hex"
  | _ => "bad-req"

structure DriverState where
  heap : Session := {}
  table : OpTable := builtinTable     -- the registries after the user registrations made so far (`register`)

def sortedBytes (l : List Bytes) : List Bytes := (l.toArray.qsort (fun a b => decide (compare (a.map (·.toNat)) (b.map (·.toNat)) = .lt))).toList

def handleSt (st : DriverState) (line : String) : DriverState × String :=
  match line.splitOn "\t" with
  | "heap" :: rest =>
    let (s, out) := st.heap.step rest
    ({ st with heap := s }, out)
  | ["register", x, p, r] => match fromHex x, p.toNat? with
    | some alias, some prior => ({ st with table := st.table.addOperation alias prior (r == "1") }, "ok")
    | _, _ => (st, "bad-req")
  | ["regdump"] =>
    -- the registries as `VerifRegistry` reports them: operators sorted by name with priority and associativity, priority bytes
    let ops := (sortedBytes st.table.operations).map (fun op => s!"{hexOrDash op}:{st.table.prio op}:{if st.table.isRight op then 1 else 0}")
    let chars := (st.table.priorityChar.map (·.toNat)).toArray.qsort (· < ·)
    let fs := (sortedBytes st.table.functions).map hexOrDash
    let cs := (sortedBytes st.table.constants).map hexOrDash
    (st, "ok " ++ ",".intercalate ops ++ " " ++ ",".intercalate (chars.toList.map toString) ++ " f:" ++ ",".intercalate fs ++ " c:" ++ ",".intercalate cs)
  | ["regfn", x] => match fromHex x with
    | some alias => ({ st with table := st.table.addFunction alias }, "ok")
    | none => (st, "bad-hex")
  | ["regconst", x] => match fromHex x with
    | some alias => ({ st with table := st.table.addConstant alias }, "ok")
    | none => (st, "bad-hex")
  | ["rpnu", x] => match fromHex x with
    | some bs => (st, match Cur.rpn st.table bs with
      | .ok toks => "ok " ++ ",".intercalate (toks.map hexOrDash)
      | .err e => errStr e
      | .panic s => "panic " ++ s)
    | none => (st, "bad-hex")
  | _ => (st, handle line)

partial def loop (hin : IO.FS.Stream) (hout : IO.FS.Stream) (st : DriverState) : IO Unit := do
  let line ← hin.getLine
  if line.isEmpty then return ()
  let l := (line.dropEndWhile (· == '\n')).toString
  let (st', out) := handleSt st l
  hout.putStrLn out
  loop hin hout st'

def main : IO Unit := do
  let hin ← IO.getStdin
  let hout ← IO.getStdout
  loop hin hout {}
  hout.flush
