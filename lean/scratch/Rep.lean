import Ajson.Proofs.Build
import Ajson.Proofs.MapLemmas
namespace Ajson.Proofs
open Ajson Ajson.Heap Ajson.Spec

/-- a clean scalar node with borders [a, b) in data cell d -/
def Leaf (h : Heap) (d : Nat) (id : Nat) (t : NType) (a b : Nat) : Prop :=
  (h.get id).type = t ∧ (h.get id).data = some d ∧ (h.get id).b0 = a ∧ (h.get id).b1 = b ∧ (h.get id).dirty = false ∧
    (h.get id).children = none ∧ (h.get id).cache = none

/-- a clean container node with borders [a, b) in data cell d -/
def Cont (h : Heap) (d : Nat) (id : Nat) (t : NType) (a b : Nat) : Prop :=
  (h.get id).type = t ∧ (h.get id).data = some d ∧ (h.get id).b0 = a ∧ (h.get id).b1 = b ∧ (h.get id).dirty = false ∧
    (h.get id).cache = none

mutual
/-- the heap subtree rooted at `id` represents the span tree `v` of data cell `d`: every node has the type and the borders
of its value, is clean and uncached; an array has exactly its elements under the keys "0", "1", … with matching `index`; an
object has, under each distinct key, the LAST member of that name (`key` set), and nothing else. Node ids are the positions
in document order. -/
def Rep (h : Heap) (d : Nat) : STree → Nat → Prop
  | .null a b, id => Leaf h d id .null a b
  | .num a b _, id => Leaf h d id .numeric a b
  | .str a b _, id => Leaf h d id .string a b
  | .bool a b _, id => Leaf h d id .bool a b
  | .arr a b xs, id => Cont h d id .array a b ∧ (h.childMap id).keys = (List.range xs.length).map itoa ∧
      RepElems h d xs 0 (id + 1) (h.childMap id)
  | .obj a b kvs, id => Cont h d id .object a b ∧ (∀ key, ((h.childMap id).lookup key).isSome = kvs.any (fun p => p.1 == key)) ∧
      RepMembers h d kvs (id + 1) (h.childMap id)
def RepElems (h : Heap) (d : Nat) : List STree → Nat → Nat → ChildMap → Prop
  | [], _, _, _ => True
  | x :: xs, k, cid, m => m.lookup (itoa k) = some cid ∧ (h.get cid).index = some k ∧ Rep h d x cid ∧
      RepElems h d xs (k + 1) (cid + nodes x) m
def RepMembers (h : Heap) (d : Nat) : List (Bytes × STree) → Nat → ChildMap → Prop
  | [], _, _ => True
  | (key, v) :: rest, cid, m =>
      (rest.any (fun p => p.1 == key) = true ∨ (m.lookup key = some cid ∧ (h.get cid).key = some key ∧ Rep h d v cid)) ∧
      RepMembers h d rest (cid + nodes v) m
end

theorem EqModParent.fields {r r' : NodeRec} (h : EqModParent r r') :
    r.type = r'.type ∧ r.data = r'.data ∧ r.b0 = r'.b0 ∧ r.b1 = r'.b1 ∧ r.dirty = r'.dirty ∧ r.children = r'.children ∧
    r.cache = r'.cache ∧ r.key = r'.key ∧ r.index = r'.index := by
  cases r; cases r'; simp only [EqModParent, NodeRec.mk.injEq] at h; simp_all

theorem Leaf.frame {h h' : Heap} {d id : Nat} {t : NType} {a b : Nat} (hl : Leaf h d id t a b) (he : EqModParent (h'.get id) (h.get id)) :
    Leaf h' d id t a b := by
  obtain ⟨e1, e2, e3, e4, e5, e6, e7, _, _⟩ := he.fields
  unfold Leaf at *
  rw [e1, e2, e3, e4, e5, e6, e7]; exact hl

theorem Cont.frame {h h' : Heap} {d id : Nat} {t : NType} {a b : Nat} (hl : Cont h d id t a b) (he : EqModParent (h'.get id) (h.get id)) :
    Cont h' d id t a b := by
  obtain ⟨e1, e2, e3, e4, e5, e6, e7, _, _⟩ := he.fields
  unfold Cont at *
  rw [e1, e2, e3, e4, e5, e7]; exact hl

theorem nodes_pos (v : STree) : 0 < nodes v := by cases v <;> simp [nodes] <;> omega

mutual
theorem Rep.frame {h h' : Heap} {d : Nat} : (v : STree) → (id : Nat) → Rep h d v id →
    (∀ n : Nat, id ≤ n → n < id + nodes v → EqModParent (h'.get n) (h.get n)) → Rep h' d v id
  | .null a b, id, hr, hf => by simp only [Rep] at hr ⊢; exact hr.frame (hf id (Nat.le_refl _) (by simp [nodes]))
  | .num a b _, id, hr, hf => by simp only [Rep] at hr ⊢; exact hr.frame (hf id (Nat.le_refl _) (by simp [nodes]))
  | .str a b _, id, hr, hf => by simp only [Rep] at hr ⊢; exact hr.frame (hf id (Nat.le_refl _) (by simp [nodes]))
  | .bool a b _, id, hr, hf => by simp only [Rep] at hr ⊢; exact hr.frame (hf id (Nat.le_refl _) (by simp [nodes]))
  | .arr a b xs, id, hr, hf => by
    simp only [Rep] at hr ⊢
    have he := hf id (Nat.le_refl _) (by simp [nodes]; omega)
    have hcm : h'.childMap id = h.childMap id := by unfold childMap; rw [he.fields.2.2.2.2.2.1]
    rw [hcm]
    exact ⟨hr.1.frame he, hr.2.1, RepElems.frame xs 0 (id + 1) _ hr.2.2 (fun n h1 h2 => hf n (by omega) (by simp only [nodes]; omega))⟩
  | .obj a b kvs, id, hr, hf => by
    simp only [Rep] at hr ⊢
    have he := hf id (Nat.le_refl _) (by simp [nodes]; omega)
    have hcm : h'.childMap id = h.childMap id := by unfold childMap; rw [he.fields.2.2.2.2.2.1]
    rw [hcm]
    exact ⟨hr.1.frame he, hr.2.1, RepMembers.frame kvs (id + 1) _ hr.2.2 (fun n h1 h2 => hf n (by omega) (by simp only [nodes]; omega))⟩
theorem RepElems.frame {h h' : Heap} {d : Nat} : (xs : List STree) → (k cid : Nat) → (m : ChildMap) → RepElems h d xs k cid m →
    (∀ n : Nat, cid ≤ n → n < cid + nodesL xs → EqModParent (h'.get n) (h.get n)) → RepElems h' d xs k cid m
  | [], _, _, _, _, _ => by simp only [RepElems]
  | x :: xs, k, cid, m, hr, hf => by
    simp only [RepElems] at hr ⊢
    have hp := nodes_pos x
    refine ⟨hr.1, ?_, Rep.frame x cid hr.2.2.1 (fun n h1 h2 => hf n h1 (by simp only [nodesL]; omega)),
      RepElems.frame xs (k + 1) (cid + nodes x) m hr.2.2.2 (fun n h1 h2 => hf n (by omega) (by simp only [nodesL]; omega))⟩
    rw [(hf cid (Nat.le_refl _) (by simp only [nodesL]; omega)).fields.2.2.2.2.2.2.2.2]; exact hr.2.1
theorem RepMembers.frame {h h' : Heap} {d : Nat} : (kvs : List (Bytes × STree)) → (cid : Nat) → (m : ChildMap) → RepMembers h d kvs cid m →
    (∀ n : Nat, cid ≤ n → n < cid + nodesM kvs → EqModParent (h'.get n) (h.get n)) → RepMembers h' d kvs cid m
  | [], _, _, _, _ => by simp only [RepMembers]
  | (key, v) :: rest, cid, m, hr, hf => by
    simp only [RepMembers] at hr ⊢
    have hp := nodes_pos v
    refine ⟨?_, RepMembers.frame rest (cid + nodes v) m hr.2 (fun n h1 h2 => hf n (by omega) (by simp only [nodesM]; omega))⟩
    rcases hr.1 with hsh | ⟨h1, h2, h3⟩
    · exact Or.inl hsh
    · refine Or.inr ⟨h1, ?_, Rep.frame v cid h3 (fun n a b => hf n a (by simp only [nodesM]; omega))⟩
      rw [(hf cid (Nat.le_refl _) (by simp only [nodesM]; omega)).fields.2.2.2.2.2.2.2.1]; exact h2
end

/-- the root node of a freshly built value and its entry in the parent's map -/
structure BuiltRoot (h h' : Heap) (p : Option Nat) (k : Option Bytes) : Prop where
  key : (h'.get h.size).key = k
  index : (h'.get h.size).index = childIndex h p
  kids : ∀ q : Nat, p = some q → q < h.size →
    h'.childMap q = (h.childMap q).insert (if h.isArray q then itoa (h.nchildren q) else k.getD []) h.size

theorem EqModChildren.fields {r r' : NodeRec} (h : EqModChildren r r') :
    r.type = r'.type ∧ r.data = r'.data ∧ r.b0 = r'.b0 ∧ r.b1 = r'.b1 ∧ r.dirty = r'.dirty ∧ r.parent = r'.parent ∧
    r.cache = r'.cache ∧ r.key = r'.key ∧ r.index = r'.index := by
  cases r; cases r'; simp only [EqModChildren, NodeRec.mk.injEq] at h; simp_all

theorem leaf_rep (d : Nat) (h : Heap) (p : Option Nat) (k : Option Bytes) (t : NType) (a b : Nat) (ho : HeapOrd h)
    (hb : Buildable h p k) (ht : t.isContainer = false) :
    Leaf (leafHeap d h p k t a b []) d h.size t a b ∧ BuiltRoot h (leafHeap d h p k t a b []) p k := by
  obtain ⟨h1, cur, hn, hf⟩ := hb.newNode ho d a [] t
  have hcur := hf.id_eq
  subst hcur
  simp only [leafHeap, hn]
  have hlt : h.size < h1.size := by rw [hf.size_eq]; omega
  have hget : (h1.modify h.size (fun r => { r with b1 := b })).get h.size = { h1.get h.size with b1 := b } := by
    rw [get_modify]; simp [hlt]
  refine ⟨?_, ?_, ?_, ?_⟩
  · unfold Leaf; rw [hget, hf.node]; simp [newRec, ht]
  · rw [hget, hf.node]; rfl
  · rw [hget, hf.node]; rfl
  · intro q hq hqlt
    unfold childMap
    rw [get_modify_other _ _ _ _ (Nat.ne_of_lt hqlt), hf.kids q hq]; rfl

theorem RepElems.append {h : Heap} {d : Nat} : ∀ (acc : List STree) (x : STree) (k cid : Nat) (m : ChildMap),
    RepElems h d acc k cid m → m.lookup (itoa (k + acc.length)) = some (cid + nodesL acc) →
    (h.get (cid + nodesL acc)).index = some (k + acc.length) → Rep h d x (cid + nodesL acc) →
    RepElems h d (acc ++ [x]) k cid m
  | [], x, k, cid, m, _, h1, h2, h3 => by
    simp only [List.nil_append, RepElems, nodesL, Nat.add_zero, List.length_nil] at *
    exact ⟨h1, h2, h3, trivial⟩
  | y :: ys, x, k, cid, m, hr, h1, h2, h3 => by
    simp only [List.cons_append, RepElems] at hr ⊢
    refine ⟨hr.1, hr.2.1, hr.2.2.1, RepElems.append ys x (k + 1) (cid + nodes y) m hr.2.2.2 ?_ ?_ ?_⟩
    · simp only [List.length_cons, nodesL] at h1
      rw [show k + 1 + ys.length = k + (ys.length + 1) by omega, show cid + nodes y + nodesL ys = cid + (nodes y + nodesL ys) by omega]
      exact h1
    · simp only [List.length_cons, nodesL] at h2
      rw [show k + 1 + ys.length = k + (ys.length + 1) by omega, show cid + nodes y + nodesL ys = cid + (nodes y + nodesL ys) by omega]
      exact h2
    · simp only [nodesL] at h3; rw [show cid + nodes y + nodesL ys = cid + (nodes y + nodesL ys) by omega]; exact h3

theorem RepElems.map_congr {h : Heap} {d : Nat} : ∀ (xs : List STree) (k cid : Nat) (m m' : ChildMap),
    RepElems h d xs k cid m → (∀ j, k ≤ j → j < k + xs.length → m'.lookup (itoa j) = m.lookup (itoa j)) → RepElems h d xs k cid m'
  | [], _, _, _, _, _, _ => by simp only [RepElems]
  | x :: xs, k, cid, m, m', hr, hm => by
    simp only [RepElems] at hr ⊢
    refine ⟨by rw [hm k (Nat.le_refl _) (by simp)]; exact hr.1, hr.2.1, hr.2.2.1,
      RepElems.map_congr xs (k + 1) _ m m' hr.2.2.2 (fun j h1 h2 => hm j (by omega) (by simp only [List.length_cons]; omega))⟩

theorem itoa_not_mem_range (n : Nat) : itoa n ∉ (List.range n).map itoa := by
  intro h
  obtain ⟨j, hj, he⟩ := List.mem_map.mp h
  have := itoa_inj he
  simp at hj; omega

theorem RepMembers.snoc {h : Heap} {d : Nat} : ∀ (acc : List (Bytes × STree)) (key : Bytes) (v : STree) (cid : Nat) (m : ChildMap),
    RepMembers h d acc cid m → (h.get (cid + nodesM acc)).key = some key → Rep h d v (cid + nodesM acc) →
    RepMembers h d (acc ++ [(key, v)]) cid (m.insert key (cid + nodesM acc))
  | [], key, v, cid, m, _, h2, h3 => by
    simp only [List.nil_append, RepMembers, nodesM, Nat.add_zero] at *
    refine ⟨Or.inr ⟨?_, h2, h3⟩, trivial⟩
    rw [lookup_insert]; simp
  | (k', v') :: rest, key, v, cid, m, hr, h2, h3 => by
    simp only [List.cons_append, RepMembers] at hr ⊢
    have ih := RepMembers.snoc rest key v (cid + nodes v') m hr.2
      (by simp only [nodesM] at h2; rw [show cid + nodes v' + nodesM rest = cid + (nodes v' + nodesM rest) by omega]; exact h2)
      (by simp only [nodesM] at h3; rw [show cid + nodes v' + nodesM rest = cid + (nodes v' + nodesM rest) by omega]; exact h3)
    have e : cid + nodes v' + nodesM rest = cid + nodesM ((k', v') :: rest) := by simp only [nodesM]; omega
    rw [e] at ih
    refine ⟨?_, ih⟩
    rcases hr.1 with hsh | ⟨a, b, c⟩
    · left; rw [List.any_append]; simp [hsh]
    · by_cases hk : (key == k') = true
      · left; rw [List.any_append]; simp [hk]
      · right
        refine ⟨?_, b, c⟩
        rw [lookup_insert]; simp only [hk, Bool.false_eq_true, if_false]; exact a

theorem nodesL_append : ∀ (xs ys : List STree), nodesL (xs ++ ys) = nodesL xs + nodesL ys
  | [], ys => by simp [nodesL]
  | x :: xs, ys => by simp only [List.cons_append, nodesL, nodesL_append xs ys]; omega

theorem nodesM_append : ∀ (xs ys : List (Bytes × STree)), nodesM (xs ++ ys) = nodesM xs + nodesM ys
  | [], ys => by simp [nodesM]
  | (k, v) :: xs, ys => by simp only [List.cons_append, nodesM, nodesM_append xs ys]; omega

mutual
theorem build_rep (d : Nat) : (v : STree) → (h : Heap) → (p : Option Nat) → (k : Option Bytes) → HeapOrd h → Buildable h p k →
    Rep (build d v h p k) d v h.size ∧ BuiltRoot h (build d v h p k) p k
  | .null a b, h, p, k, ho, hb => by simp only [build, Rep]; exact leaf_rep d h p k _ a b ho hb rfl
  | .num a b _, h, p, k, ho, hb => by simp only [build, Rep]; exact leaf_rep d h p k _ a b ho hb rfl
  | .str a b _, h, p, k, ho, hb => by simp only [build, Rep]; exact leaf_rep d h p k _ a b ho hb rfl
  | .bool a b _, h, p, k, ho, hb => by simp only [build, Rep]; exact leaf_rep d h p k _ a b ho hb rfl
  | .arr a b xs, h, p, k, ho, hb => by
    obtain ⟨h1, cur, hn, hf⟩ := hb.newNode ho d a [] .array
    have hcur := hf.id_eq
    subst hcur
    simp only [build, openHeap, hn, Rep]
    have hlt : h.size < h1.size := by rw [hf.size_eq]; omega
    have hty : (h1.get h.size).type = .array := by rw [hf.node]; rfl
    have hcm1 : h1.childMap h.size = [] := by unfold childMap; rw [hf.node]; rfl
    obtain ⟨hk2, hr2⟩ := buildElems_rep d xs h1 h.size [] hf.grown.ord hlt hty (by rw [hcm1]; rfl) (by simp only [RepElems])
      (by rw [hf.size_eq]; simp [nodesL])
    obtain ⟨g, _⟩ := buildElems_grown d xs h1 h.size hf.grown.ord hlt hty
    have hlt2 : h.size < (buildElems d xs h1 h.size).size := by have := g.size_le; omega
    have hget : ((buildElems d xs h1 h.size).modify h.size (fun r => { r with b1 := b })).get h.size =
        { (buildElems d xs h1 h.size).get h.size with b1 := b } := by rw [get_modify]; simp [hlt2]
    have hpar := (g.par h.size rfl hlt).fields
    have hcm3 : ((buildElems d xs h1 h.size).modify h.size (fun r => { r with b1 := b })).childMap h.size =
        (buildElems d xs h1 h.size).childMap h.size := by unfold childMap; rw [hget]
    refine ⟨⟨?_, ?_, ?_⟩, ?_, ?_, ?_⟩
    · unfold Cont; rw [hget]
      simp only [hpar.1, hpar.2.1, hpar.2.2.1, hpar.2.2.2.2.1, hpar.2.2.2.2.2.2.1, hf.node]
      simp [newRec]
    · rw [hcm3]; simpa using hk2
    · rw [hcm3]
      simp only [List.nil_append] at hr2
      exact RepElems.frame xs 0 (h.size + 1) _ hr2 (fun n h1' _ => EqModParent.of_eq (get_modify_other _ _ _ _ (Nat.ne_of_gt (Nat.lt_of_succ_le h1'))))
    · rw [hget]; simp only [hpar.2.2.2.2.2.2.2.1, hf.node]; rfl
    · rw [hget]; simp only [hpar.2.2.2.2.2.2.2.2, hf.node]; rfl
    · intro q hq hqlt
      unfold childMap
      rw [get_modify_other _ _ _ _ (Nat.ne_of_lt hqlt)]
      have := (g.other q (by omega) (fun q' hq' => by cases hq'; omega)).fields.2.2.2.2.2.1
      rw [this, hf.kids q hq]; rfl
  | .obj a b kvs, h, p, k, ho, hb => by
    obtain ⟨h1, cur, hn, hf⟩ := hb.newNode ho d a [] .object
    have hcur := hf.id_eq
    subst hcur
    simp only [build, openHeap, hn, Rep]
    have hlt : h.size < h1.size := by rw [hf.size_eq]; omega
    have hty : (h1.get h.size).type = .object := by rw [hf.node]; rfl
    have hcm1 : h1.childMap h.size = [] := by unfold childMap; rw [hf.node]; rfl
    obtain ⟨hk2, hr2⟩ := buildMembers_rep d kvs h1 h.size [] hf.grown.ord hlt hty (by intro key; rw [hcm1]; rfl) (by simp only [RepMembers])
      (by rw [hf.size_eq]; simp [nodesM])
    obtain ⟨g, _⟩ := buildMembers_grown d kvs h1 h.size hf.grown.ord hlt hty
    have hlt2 : h.size < (buildMembers d kvs h1 h.size).size := by have := g.size_le; omega
    have hget : ((buildMembers d kvs h1 h.size).modify h.size (fun r => { r with b1 := b })).get h.size =
        { (buildMembers d kvs h1 h.size).get h.size with b1 := b } := by rw [get_modify]; simp [hlt2]
    have hpar := (g.par h.size rfl hlt).fields
    have hcm3 : ((buildMembers d kvs h1 h.size).modify h.size (fun r => { r with b1 := b })).childMap h.size =
        (buildMembers d kvs h1 h.size).childMap h.size := by unfold childMap; rw [hget]
    refine ⟨⟨?_, ?_, ?_⟩, ?_, ?_, ?_⟩
    · unfold Cont; rw [hget]
      simp only [hpar.1, hpar.2.1, hpar.2.2.1, hpar.2.2.2.2.1, hpar.2.2.2.2.2.2.1, hf.node]
      simp [newRec]
    · rw [hcm3]; simpa using hk2
    · rw [hcm3]
      simp only [List.nil_append] at hr2
      exact RepMembers.frame kvs (h.size + 1) _ hr2 (fun n h1' _ => EqModParent.of_eq (get_modify_other _ _ _ _ (Nat.ne_of_gt (Nat.lt_of_succ_le h1'))))
    · rw [hget]; simp only [hpar.2.2.2.2.2.2.2.1, hf.node]; rfl
    · rw [hget]; simp only [hpar.2.2.2.2.2.2.2.2, hf.node]; rfl
    · intro q hq hqlt
      unfold childMap
      rw [get_modify_other _ _ _ _ (Nat.ne_of_lt hqlt)]
      have := (g.other q (by omega) (fun q' hq' => by cases hq'; omega)).fields.2.2.2.2.2.1
      rw [this, hf.kids q hq]; rfl
theorem buildElems_rep (d : Nat) : (xs : List STree) → (h : Heap) → (c : Nat) → (acc : List STree) → HeapOrd h → c < h.size →
    (h.get c).type = .array → (h.childMap c).keys = (List.range acc.length).map itoa → RepElems h d acc 0 (c + 1) (h.childMap c) →
    h.size = c + 1 + nodesL acc →
    ((buildElems d xs h c).childMap c).keys = (List.range (acc ++ xs).length).map itoa ∧
      RepElems (buildElems d xs h c) d (acc ++ xs) 0 (c + 1) ((buildElems d xs h c).childMap c)
  | [], h, c, acc, ho, hc, ht, hk, hr, hs => by simp only [buildElems, List.append_nil]; exact ⟨hk, hr⟩
  | x :: xs, h, c, acc, ho, hc, ht, hk, hr, hs => by
    simp only [buildElems]
    obtain ⟨hrx, hbr⟩ := build_rep d x h (some c) none ho (Or.inl ht)
    obtain ⟨g, hsz⟩ := build_grown d x h (some c) none ho (Or.inl ht)
    have hisA : h.isArray c = true := by simp [isArray, typeOf, ht]
    have hn : h.nchildren c = acc.length := by
      unfold nchildren
      have := congrArg List.length hk
      simpa [ChildMap.keys] using this
    have hkids := hbr.kids c rfl hc
    simp only [hisA, if_true, hn] at hkids
    have hfresh : (h.childMap c).lookup (itoa acc.length) = none := by
      apply lookup_none_of_not_mem_keys; rw [hk]; exact itoa_not_mem_range _
    have ht' : ((build d x h (some c) none).get c).type = .array := by rw [(g.par c rfl hc).type]; exact ht
    have := buildElems_rep d xs (build d x h (some c) none) c (acc ++ [x]) g.ord (by have := g.size_le; omega) ht'
      (by rw [hkids, keys_insert_fresh _ _ _ hfresh, hk]; simp [List.range_succ])
      (by
        rw [hkids]
        apply RepElems.append
        · apply RepElems.map_congr acc 0 (c + 1) (h.childMap c)
          · exact RepElems.frame acc 0 (c + 1) _ hr (fun n h1 h2 => g.other n (by omega) (fun q hq => by cases hq; omega))
          · intro j _ hj
            rw [lookup_insert]
            have : (itoa acc.length == itoa j) = false := by
              apply beq_false_of_ne; intro e; have := itoa_inj e; omega
            simp [this]
        · rw [lookup_insert]; simp [hs]
        · rw [← hs, hbr.index]; simp [childIndex, hisA, hn]
        · rw [← hs]; exact hrx)
      (by rw [hsz, hs, nodesL_append]; simp only [nodesL]; omega)
    simpa using this
theorem buildMembers_rep (d : Nat) : (kvs : List (Bytes × STree)) → (h : Heap) → (c : Nat) → (acc : List (Bytes × STree)) → HeapOrd h →
    c < h.size → (h.get c).type = .object →
    (∀ key, ((h.childMap c).lookup key).isSome = acc.any (fun p => p.1 == key)) → RepMembers h d acc (c + 1) (h.childMap c) →
    h.size = c + 1 + nodesM acc →
    (∀ key, (((buildMembers d kvs h c).childMap c).lookup key).isSome = (acc ++ kvs).any (fun p => p.1 == key)) ∧
      RepMembers (buildMembers d kvs h c) d (acc ++ kvs) (c + 1) ((buildMembers d kvs h c).childMap c)
  | [], h, c, acc, ho, hc, ht, hk, hr, hs => by simp only [buildMembers, List.append_nil]; exact ⟨hk, hr⟩
  | (key, v) :: rest, h, c, acc, ho, hc, ht, hk, hr, hs => by
    simp only [buildMembers]
    obtain ⟨hrx, hbr⟩ := build_rep d v h (some c) (some key) ho (Or.inr ⟨ht, rfl⟩)
    obtain ⟨g, hsz⟩ := build_grown d v h (some c) (some key) ho (Or.inr ⟨ht, rfl⟩)
    have hisA : h.isArray c = false := by simp [isArray, typeOf, ht]
    have hkids := hbr.kids c rfl hc
    simp only [hisA, Bool.false_eq_true, if_false, Option.getD_some] at hkids
    have ht' : ((build d v h (some c) (some key)).get c).type = .object := by rw [(g.par c rfl hc).type]; exact ht
    have := buildMembers_rep d rest (build d v h (some c) (some key)) c (acc ++ [(key, v)]) g.ord (by have := g.size_le; omega) ht'
      (by
        intro key'
        rw [hkids, lookup_insert, List.any_append]
        by_cases hkk : (key == key') = true
        · simp [hkk]
        · simp [hkk, hk key'])
      (by
        rw [hkids, hs]
        apply RepMembers.snoc
        · exact RepMembers.frame acc (c + 1) _ hr (fun n h1 h2 => g.other n (by omega) (fun q hq => by cases hq; omega))
        · rw [← hs, hbr.key]
        · rw [← hs]; exact hrx)
      (by rw [hsz, hs, nodesM_append]; simp only [nodesM]; omega)
    simpa using this
end
