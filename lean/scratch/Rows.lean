import Ajson.Model.Scan
import Ajson.Spec.Ref
namespace Ajson.Proofs
open Ajson Ajson.Spec

/-- one table step on a byte: class lookup then transition; both "no class" and "no transition" are -1 -/
def nextSt (q : Int) (c : UInt8) : Int := if classOf false c == -1 then -1 else sttAt q (classOf false c)

/-- the state a byte leads to where a value may start -/
def valueStart (c : UInt8) : Int :=
  if c == 123 then Gen.aco else if c == 91 then Gen.abo else if c == 34 then Gen.sST else if c == 45 then Gen.sMI
  else if c == 48 then Gen.sZE else if isDigit c then Gen.sIN else if c == 116 then Gen.sT1 else if c == 102 then Gen.sF1
  else if c == 110 then Gen.sN1 else -1

theorem row_GO : ∀ n, n < 256 → isWs n.toUInt8 = false → nextSt Gen.sGO n.toUInt8 = valueStart n.toUInt8 := by decide +kernel
theorem row_VA : ∀ n, n < 256 → isWs n.toUInt8 = false → nextSt Gen.sVA n.toUInt8 = valueStart n.toUInt8 := by decide +kernel
theorem row_AR : ∀ n, n < 256 → isWs n.toUInt8 = false →
    nextSt Gen.sAR n.toUInt8 = if n.toUInt8 == 93 then Gen.abc else valueStart n.toUInt8 := by decide +kernel
theorem row_OB : ∀ n, n < 256 → isWs n.toUInt8 = false →
    nextSt Gen.sOB n.toUInt8 = if n.toUInt8 == 125 then Gen.aec else if n.toUInt8 == 34 then Gen.sST else -1 := by decide +kernel
theorem row_KE : ∀ n, n < 256 → isWs n.toUInt8 = false →
    nextSt Gen.sKE n.toUInt8 = if n.toUInt8 == 34 then Gen.sST else -1 := by decide +kernel
theorem row_CO : ∀ n, n < 256 → isWs n.toUInt8 = false →
    nextSt Gen.sCO n.toUInt8 = if n.toUInt8 == 58 then Gen.acl else -1 := by decide +kernel
theorem row_OK : ∀ n, n < 256 → isWs n.toUInt8 = false →
    nextSt Gen.sOK n.toUInt8 = if n.toUInt8 == 125 then Gen.acc else if n.toUInt8 == 93 then Gen.abc else if n.toUInt8 == 44 then Gen.acm else -1 := by
  decide +kernel

/-! string states -/
theorem row_ST : ∀ n, n < 256 → nextSt Gen.sST n.toUInt8 =
    if n.toUInt8 == 34 then -4 else if n.toUInt8 == 92 then Gen.sES else if n < 32 then -1 else Gen.sST := by decide +kernel
theorem row_ES : ∀ n, n < 256 → nextSt Gen.sES n.toUInt8 =
    (let e := n.toUInt8
     if e == 34 || e == 92 || e == 47 || e == 98 || e == 102 || e == 110 || e == 114 || e == 116 then Gen.sST
     else if e == 117 then Gen.sU1 else -1) := by decide +kernel
theorem row_U1 : ∀ n, n < 256 → nextSt Gen.sU1 n.toUInt8 = if isHex n.toUInt8 then Gen.sU2 else -1 := by decide +kernel
theorem row_U2 : ∀ n, n < 256 → nextSt Gen.sU2 n.toUInt8 = if isHex n.toUInt8 then Gen.sU3 else -1 := by decide +kernel
theorem row_U3 : ∀ n, n < 256 → nextSt Gen.sU3 n.toUInt8 = if isHex n.toUInt8 then Gen.sU4 else -1 := by decide +kernel
theorem row_U4 : ∀ n, n < 256 → nextSt Gen.sU4 n.toUInt8 = if isHex n.toUInt8 then Gen.sST else -1 := by decide +kernel

/-- what may follow a complete value: whitespace, or one of `}` `]` `,` as an action; everything else is an error -/
def afterNum (c : UInt8) : Int :=
  if isWs c then Gen.sOK else if c == 125 then Gen.acc else if c == 93 then Gen.abc else if c == 44 then Gen.acm else -1

theorem row_OK' : ∀ n, n < 256 → nextSt Gen.sOK n.toUInt8 = afterNum n.toUInt8 := by decide +kernel
theorem row_MI : ∀ n, n < 256 → nextSt Gen.sMI n.toUInt8 =
    if n.toUInt8 == 48 then Gen.sZE else if isDigit n.toUInt8 then Gen.sIN else -1 := by decide +kernel
theorem row_ZE : ∀ n, n < 256 → nextSt Gen.sZE n.toUInt8 =
    if n.toUInt8 == 46 then Gen.sDT else if n.toUInt8 == 101 || n.toUInt8 == 69 then Gen.sE1 else afterNum n.toUInt8 := by decide +kernel
theorem row_IN : ∀ n, n < 256 → nextSt Gen.sIN n.toUInt8 =
    if isDigit n.toUInt8 then Gen.sIN else if n.toUInt8 == 46 then Gen.sDT else if n.toUInt8 == 101 || n.toUInt8 == 69 then Gen.sE1
    else afterNum n.toUInt8 := by decide +kernel
theorem row_DT : ∀ n, n < 256 → nextSt Gen.sDT n.toUInt8 = if isDigit n.toUInt8 then Gen.sFR else -1 := by decide +kernel
theorem row_FR : ∀ n, n < 256 → nextSt Gen.sFR n.toUInt8 =
    if isDigit n.toUInt8 then Gen.sFR else if n.toUInt8 == 101 || n.toUInt8 == 69 then Gen.sE1 else afterNum n.toUInt8 := by decide +kernel
theorem row_E1 : ∀ n, n < 256 → nextSt Gen.sE1 n.toUInt8 =
    if n.toUInt8 == 43 || n.toUInt8 == 45 then Gen.sE2 else if isDigit n.toUInt8 then Gen.sE3 else -1 := by decide +kernel
theorem row_E2 : ∀ n, n < 256 → nextSt Gen.sE2 n.toUInt8 = if isDigit n.toUInt8 then Gen.sE3 else -1 := by decide +kernel
theorem row_E3 : ∀ n, n < 256 → nextSt Gen.sE3 n.toUInt8 = if isDigit n.toUInt8 then Gen.sE3 else afterNum n.toUInt8 := by decide +kernel
