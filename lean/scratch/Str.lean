import Ajson.Proofs.TableRows
namespace Ajson.Proofs
open Ajson Ajson.Spec

theorem stringLoop_cons (c : UInt8) (bs : Bytes) (i : Nat) (q : Int) :
    stringLoop false (c :: bs) i q =
      if nextSt q c == -1 then .error (symErr (c :: bs) i)
      else if nextSt q c < -1 then .ok ⟨c :: bs, i, nextSt q c, q⟩
      else stringLoop false bs (i + 1) (nextSt q c) := by
  rw [stringLoop]
  simp only [nextSt]
  by_cases h : (classOf false c == -1) = true
  · simp [h]
  · simp only [h, if_false, Bool.false_eq_true]

/-- the model error that corresponds to a reference error found while scanning `r` from index `i` -/
def strErr (r : Bytes) (i : Nat) : RefErr → PErr
  | .at k => symErr (r.drop (k - i)) k
  | .eof => symErr [] (i + r.length)

theorem ssb_plain (c : UInt8) (r : Bytes) (i : Nat) (h34 : c ≠ 34) (h92 : c ≠ 92) :
    scanStringBody (c :: r) i = if c.toNat < 32 then .error (.at i) else scanStringBody r (i + 1) := by
  conv => lhs; unfold scanStringBody
  split
  · rename_i h; cases h
  · rename_i h; cases h; exact absurd rfl h34
  · rename_i h; cases h; exact absurd rfl h92
  · rename_i heq; cases heq; rfl

theorem ssb_esc (r : Bytes) (i : Nat) :
    scanStringBody (92 :: r) i = match r with
    | [] => .error .eof
    | e :: r1 =>
      if e == 34 || e == 92 || e == 47 || e == 98 || e == 102 || e == 110 || e == 114 || e == 116 then scanStringBody r1 (i + 2)
      else if e == 117 then
        match r1 with
        | a :: b :: c :: d :: r2 =>
          if !isHex a then .error (.at (i + 2)) else if !isHex b then .error (.at (i + 3))
          else if !isHex c then .error (.at (i + 4)) else if !isHex d then .error (.at (i + 5))
          else scanStringBody r2 (i + 6)
        | [a, b, c] => if !isHex a then .error (.at (i + 2)) else if !isHex b then .error (.at (i + 3)) else if !isHex c then .error (.at (i + 4)) else .error .eof
        | [a, b] => if !isHex a then .error (.at (i + 2)) else if !isHex b then .error (.at (i + 3)) else .error .eof
        | [a] => if !isHex a then .error (.at (i + 2)) else .error .eof
        | [] => .error .eof
      else .error (.at (i + 1)) := by
  conv => lhs; unfold scanStringBody
  split
  · rename_i h; cases h
  · rename_i h; cases h
  · rename_i h; cases h; rfl
  · rename_i h1 h2 heq; cases heq; exact absurd rfl h2

theorem strErr_cons (c : UInt8) (r : Bytes) (i k : Nat) (hk : i + 1 ≤ k) :
    strErr r (i + 1) (.at k) = strErr (c :: r) i (.at k) := by
  simp only [strErr]
  have : k - i = (k - (i + 1)) + 1 := by omega
  rw [this, List.drop_succ_cons]

theorem strErr_cons_eof (c : UInt8) (r : Bytes) (i : Nat) : strErr r (i + 1) .eof = strErr (c :: r) i .eof := by
  simp only [strErr, List.length_cons]
  rw [show i + 1 + r.length = i + (r.length + 1) by omega]

/-- result of the table-driven string scanner in terms of the reference scanner -/
def StrRel (r : Bytes) (i : Nat) : Except RefErr (Bytes × Nat) → Prop
  | .ok (r1, j) => stringLoop false r i Gen.sST = .ok ⟨34 :: r1, j - 1, -4, Gen.sST⟩ ∧ i + 1 ≤ j
  | .error e => stringLoop false r i Gen.sST = .error (strErr r i e) ∧ (∀ k, e = .at k → i ≤ k)

theorem StrRel.shift {c : UInt8} {r : Bytes} {i : Nat} {res : Except RefErr (Bytes × Nat)}
    (h : StrRel r (i + 1) res) (hl : stringLoop false (c :: r) i Gen.sST = stringLoop false r (i + 1) Gen.sST) :
    StrRel (c :: r) i res := by
  cases res with
  | ok v => obtain ⟨r1, j⟩ := v; exact ⟨hl ▸ h.1, by have := h.2; omega⟩
  | error e =>
    refine ⟨?_, fun k hk => by have := h.2 k hk; omega⟩
    rw [hl, h.1]
    cases e with
    | eof => rw [strErr_cons_eof]
    | «at» k => rw [strErr_cons c r i k (h.2 k rfl)]

theorem StrRel.shiftN (p : Bytes) {r : Bytes} {i : Nat} {res : Except RefErr (Bytes × Nat)}
    (h : StrRel r (i + p.length) res) (hl : stringLoop false (p ++ r) i Gen.sST = stringLoop false r (i + p.length) Gen.sST) :
    StrRel (p ++ r) i res := by
  cases res with
  | ok v => obtain ⟨r1, j⟩ := v; exact ⟨hl ▸ h.1, by have := h.2; omega⟩
  | error e =>
    refine ⟨?_, fun k hk => by have := h.2 k hk; omega⟩
    rw [hl, h.1]
    cases e with
    | eof => simp only [strErr, List.length_append]; rw [show i + p.length + r.length = i + (p.length + r.length) by omega]
    | «at» k =>
      have := h.2 k rfl
      simp only [strErr]
      rw [show k - i = p.length + (k - (i + p.length)) by omega, ← List.drop_drop, List.drop_left]

theorem string_equiv : ∀ (n : Nat) (r : Bytes) (i : Nat), r.length ≤ n → StrRel r i (scanStringBody r i)
  | n, [], i, _ => by simp [scanStringBody, stringLoop, strErr, StrRel]
  | 0, c :: r, i, h => by simp at h
  | n+1, c :: r, i, h => by
    have hlen : r.length ≤ n := by simpa using h
    by_cases h34 : c = 34
    · subst h34
      simp [scanStringBody, StrRel, stringLoop_cons, next_ST]
    by_cases h92 : c = 92
    · subst h92
      rw [ssb_esc]
      have hES : stringLoop false (92 :: r) i Gen.sST = stringLoop false r (i + 1) Gen.sES := by
        rw [stringLoop_cons, next_ST]; simp (decide := true)
      cases r with
      | nil =>
        refine ⟨?_, fun k hk => by cases hk⟩
        rw [hES]; simp [stringLoop, strErr]
      | cons e r1 =>
        simp only []
        have hlen1 : r1.length ≤ n := by simp at hlen; omega
        by_cases hsimple : (e == 34 || e == 92 || e == 47 || e == 98 || e == 102 || e == 110 || e == 114 || e == 116) = true
        · rw [if_pos hsimple]
          apply StrRel.shiftN [92, e] (string_equiv n r1 (i + 2) hlen1)
          show stringLoop false (92 :: e :: r1) i Gen.sST = _
          rw [hES, stringLoop_cons, next_ES]
          simp only [hsimple, if_true]
          simp (decide := true)
        · rw [if_neg hsimple]
          by_cases hu : (e == 117) = true
          · rw [if_pos hu]
            have hU1 : stringLoop false (92 :: e :: r1) i Gen.sST = stringLoop false r1 (i + 2) Gen.sU1 := by
              rw [hES, stringLoop_cons, next_ES]
              simp only [hsimple, hu, Bool.false_eq_true, if_false, if_true]
              simp (decide := true)
            have stepU : ∀ (q q' : Int) (x : UInt8) (xs : Bytes) (j : Nat), (∀ c, nextSt q c = if isHex c then q' else -1) →
                (q' == -1) = false → ¬ (q' < -1) →
                stringLoop false (x :: xs) j q = if isHex x then stringLoop false xs (j + 1) q' else .error (symErr (x :: xs) j) := by
              intro q q' x xs j hrow h1 h2
              rw [stringLoop_cons, hrow]
              by_cases hx : isHex x = true
              · simp only [hx, if_true, h1, Bool.false_eq_true, if_false, h2]
              · simp [hx]
            have s1 := fun x xs j => stepU Gen.sU1 Gen.sU2 x xs j next_U1 (by decide) (by decide)
            have s2 := fun x xs j => stepU Gen.sU2 Gen.sU3 x xs j next_U2 (by decide) (by decide)
            have s3 := fun x xs j => stepU Gen.sU3 Gen.sU4 x xs j next_U3 (by decide) (by decide)
            have s4 := fun x xs j => stepU Gen.sU4 Gen.sST x xs j next_U4 (by decide) (by decide)
            have errAt : ∀ (m : Nat) (tl : Bytes), (92 :: e :: r1).drop m = tl → 
                stringLoop false (92 :: e :: r1) i Gen.sST = .error (symErr tl (i + m)) →
                StrRel (92 :: e :: r1) i (.error (.at (i + m))) := by
              intro m tl hd hs
              refine ⟨?_, fun k hk => by cases hk; omega⟩
              rw [hs]; simp only [strErr]; rw [show i + m - i = m by omega, hd]
            have errEof : stringLoop false (92 :: e :: r1) i Gen.sST = .error (symErr [] (i + (92 :: e :: r1).length)) →
                StrRel (92 :: e :: r1) i (.error .eof) := by
              intro hs
              exact ⟨by rw [hs]; rfl, fun k hk => by cases hk⟩
            match r1, hlen1, hU1, errAt, errEof with
            | [], _, hU1, errAt, errEof => exact errEof (by rw [hU1]; simp [stringLoop])
            | [a], _, hU1, errAt, errEof =>
              simp only []
              by_cases ha : isHex a = true
              · simp only [ha, Bool.not_true, Bool.false_eq_true, if_false]
                exact errEof (by rw [hU1, s1]; simp [ha, stringLoop])
              · simp only [ha, Bool.not_false, if_true]
                exact errAt 2 [a] rfl (by rw [hU1, s1]; simp [ha])
            | [a, b], _, hU1, errAt, errEof =>
              simp only []
              by_cases ha : isHex a = true
              · simp only [ha, Bool.not_true, Bool.false_eq_true, if_false]
                by_cases hb : isHex b = true
                · simp only [hb, Bool.not_true, Bool.false_eq_true, if_false]
                  exact errEof (by rw [hU1, s1]; simp only [ha, if_true]; rw [s2]; simp [hb, stringLoop])
                · simp only [hb, Bool.not_false, if_true]
                  exact errAt 3 [b] rfl (by rw [hU1, s1]; simp only [ha, if_true]; rw [s2]; simp [hb])
              · simp only [ha, Bool.not_false, if_true]
                exact errAt 2 [a, b] rfl (by rw [hU1, s1]; simp [ha])
            | [a, b, c], _, hU1, errAt, errEof =>
              simp only []
              by_cases ha : isHex a = true
              · simp only [ha, Bool.not_true, Bool.false_eq_true, if_false]
                by_cases hb : isHex b = true
                · simp only [hb, Bool.not_true, Bool.false_eq_true, if_false]
                  by_cases hc : isHex c = true
                  · simp only [hc, Bool.not_true, Bool.false_eq_true, if_false]
                    exact errEof (by rw [hU1, s1]; simp only [ha, if_true]; rw [s2]; simp only [hb, if_true]; rw [s3]; simp [hc, stringLoop])
                  · simp only [hc, Bool.not_false, if_true]
                    exact errAt 4 [c] rfl (by rw [hU1, s1]; simp only [ha, if_true]; rw [s2]; simp only [hb, if_true]; rw [s3]; simp [hc])
                · simp only [hb, Bool.not_false, if_true]
                  exact errAt 3 [b, c] rfl (by rw [hU1, s1]; simp only [ha, if_true]; rw [s2]; simp [hb])
              · simp only [ha, Bool.not_false, if_true]
                exact errAt 2 [a, b, c] rfl (by rw [hU1, s1]; simp [ha])
            | a :: b :: c :: d :: r2, hlen1, hU1, errAt, errEof =>
              simp only []
              by_cases ha : isHex a = true
              · simp only [ha, Bool.not_true, Bool.false_eq_true, if_false]
                by_cases hb : isHex b = true
                · simp only [hb, Bool.not_true, Bool.false_eq_true, if_false]
                  by_cases hc : isHex c = true
                  · simp only [hc, Bool.not_true, Bool.false_eq_true, if_false]
                    by_cases hd : isHex d = true
                    · simp only [hd, Bool.not_true, Bool.false_eq_true, if_false]
                      have hlen2 : r2.length ≤ n := by simp at hlen1; omega
                      apply StrRel.shiftN [92, e, a, b, c, d] (string_equiv n r2 (i + 6) hlen2)
                      show stringLoop false (92 :: e :: a :: b :: c :: d :: r2) i Gen.sST = _
                      rw [hU1, s1]; simp only [ha, if_true]; rw [s2]; simp only [hb, if_true]; rw [s3]; simp only [hc, if_true]
                      rw [s4]; simp only [hd, if_true]
                      rfl
                    · simp only [hd, Bool.not_false, if_true]
                      exact errAt 5 (d :: r2) rfl (by
                        rw [hU1, s1]; simp only [ha, if_true]; rw [s2]; simp only [hb, if_true]; rw [s3]; simp only [hc, if_true]
                        rw [s4]; simp [hd])
                  · simp only [hc, Bool.not_false, if_true]
                    exact errAt 4 (c :: d :: r2) rfl (by rw [hU1, s1]; simp only [ha, if_true]; rw [s2]; simp only [hb, if_true]; rw [s3]; simp [hc])
                · simp only [hb, Bool.not_false, if_true]
                  exact errAt 3 (b :: c :: d :: r2) rfl (by rw [hU1, s1]; simp only [ha, if_true]; rw [s2]; simp [hb])
              · simp only [ha, Bool.not_false, if_true]
                exact errAt 2 (a :: b :: c :: d :: r2) rfl (by rw [hU1, s1]; simp [ha])
          · rw [if_neg hu]
            refine ⟨?_, fun k hk => by cases hk; omega⟩
            rw [hES, stringLoop_cons, next_ES]
            simp only [hsimple, hu, Bool.false_eq_true, if_false]
            simp [strErr]
    · rw [ssb_plain c r i h34 h92]
      have e34 : (c == 34) = false := by simpa using h34
      have e92 : (c == 92) = false := by simpa using h92
      by_cases hlt : c.toNat < 32
      · simp [hlt, strErr, StrRel, stringLoop_cons, next_ST, e34, e92]
      · simp only [hlt, if_false]
        apply StrRel.shift (string_equiv n r (i + 1) hlen)
        rw [stringLoop_cons, next_ST]
        simp only [e34, e92, hlt, Bool.false_eq_true, if_false, show (Gen.sST == -1) = false by decide, show ¬ (Gen.sST < -1) by decide]

/-- the opening quote, read in any state whose table row sends `"` to ST -/
theorem stringLoop_open (σ : Int) (r : Bytes) (i : Nat) (h : nextSt σ 34 = Gen.sST) :
    stringLoop false (34 :: r) i σ = stringLoop false r (i + 1) Gen.sST := by
  rw [stringLoop_cons, h]; simp (decide := true)

/-- the table-driven string scanner, started on the opening quote, agrees with the grammar's scanner: same verdict, the
same closing quote, and on failure the error names the byte the reference scanner blames (or the end of input) -/
theorem string_scanner_equiv (σ : Int) (r : Bytes) (i : Nat) (h : nextSt σ 34 = Gen.sST) :
    match scanStringBody r (i + 1) with
    | .ok (r1, j) => stringLoop false (34 :: r) i σ = .ok ⟨34 :: r1, j - 1, -4, Gen.sST⟩ ∧ i + 2 ≤ j
    | .error e => stringLoop false (34 :: r) i σ = .error (strErr r (i + 1) e) := by
  rw [stringLoop_open σ r i h]
  have := string_equiv r.length r (i + 1) (Nat.le_refl _)
  cases hs : scanStringBody r (i + 1) with
  | ok v => obtain ⟨r1, j⟩ := v; rw [hs] at this; exact this
  | error e => rw [hs] at this; exact this.1

end Ajson.Proofs
