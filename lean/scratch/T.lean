import Ajson.Model.Heap
open Ajson
example (x : Option Id) (c : Nat) (h : ∀ p : Nat, x = some p → p < c) : ∀ p : Id, x = some p → p + 1 ≤ c := by
  intro (p : Nat) hp
  have := h p hp
  omega
example (x : Option Id) (c : Nat) (h : ∀ p : Nat, x = some p → p < c) : True := by
  cases hx : x with
  | none => trivial
  | some p =>
    revert hx p
    intro (p : Nat) hx
    have := h p hx
    have : p + 1 ≤ c := by omega
    trivial
