import Ajson.Proofs.StringEquiv
import Ajson.Proofs.QuoteValid
namespace Ajson.Proofs
open Ajson Ajson.Spec

def simpleEsc (e : UInt8) : Bool := e == 34 || e == 92 || e == 47 || e == 98 || e == 102 || e == 110 || e == 114 || e == 116

/-- a string body the RFC 8259 grammar accepts -/
inductive VB : Bytes → Prop
  | nil : VB []
  | plain (c : UInt8) (bs : Bytes) : plainByte c → VB bs → VB (c :: bs)
  | esc (e : UInt8) (bs : Bytes) : simpleEsc e = true → VB bs → VB (92 :: e :: bs)
  | uni (a b c d : UInt8) (bs : Bytes) : isHex a = true → isHex b = true → isHex c = true → isHex d = true → VB bs →
      VB (92 :: 117 :: a :: b :: c :: d :: bs)

/-- what the grammar's scanner accepts is a valid body followed by the closing quote -/
theorem scan_body : ∀ (n : Nat) (r : Bytes) (i : Nat) (r1 : Bytes) (j : Nat), r.length ≤ n → scanStringBody r i = .ok (r1, j) →
    ∃ body, r = body ++ 34 :: r1 ∧ VB body ∧ j = i + body.length + 1
  | n, [], i, r1, j, _, h => by simp [scanStringBody] at h
  | 0, c :: r, i, r1, j, hl, _ => by simp at hl
  | n+1, c :: r, i, r1, j, hl, h => by
    have hlen : r.length ≤ n := by simpa using hl
    by_cases h34 : c = 34
    · subst h34
      simp only [scanStringBody, Except.ok.injEq, Prod.mk.injEq] at h
      exact ⟨[], by simp [h.1], VB.nil, by simp [← h.2]⟩
    by_cases h92 : c = 92
    · subst h92
      rw [ssb_esc] at h
      cases r with
      | nil => simp at h
      | cons e r' =>
        simp only [] at h
        have hlen' : r'.length ≤ n := by simp at hlen; omega
        by_cases hs : simpleEsc e = true
        · have hs' := hs; unfold simpleEsc at hs'
          rw [if_pos hs'] at h
          obtain ⟨body, hb, hv, hj⟩ := scan_body n r' (i + 2) r1 j hlen' h
          exact ⟨92 :: e :: body, by simp [hb], VB.esc e body hs hv, by simp [hj]; omega⟩
        · have hs' := hs; unfold simpleEsc at hs'
          rw [if_neg hs'] at h
          by_cases hu : (e == 117) = true
          · rw [if_pos hu] at h
            have he : e = 117 := by simpa using hu
            subst he
            match r', hlen', h with
            | a :: b :: c :: d :: r2, hlen', h =>
              simp only [] at h
              by_cases ha : isHex a = true <;> by_cases hb : isHex b = true <;> by_cases hc : isHex c = true <;> by_cases hd : isHex d = true <;>
                simp only [ha, hb, hc, hd, Bool.not_true, Bool.not_false, Bool.false_eq_true, if_false, if_true] at h <;> try (cases h; done)
              have hlen2 : r2.length ≤ n := by simp at hlen'; omega
              obtain ⟨body, hbd, hv, hj⟩ := scan_body n r2 (i + 6) r1 j hlen2 h
              exact ⟨92 :: 117 :: a :: b :: c :: d :: body, by simp [hbd], VB.uni a b c d body ha hb hc hd hv, by simp [hj]; omega⟩
            | [a, b, c], _, h => by_cases ha : isHex a = true <;> by_cases hb : isHex b = true <;> by_cases hc : isHex c = true <;> simp [ha, hb, hc] at h
            | [a, b], _, h => by_cases ha : isHex a = true <;> by_cases hb : isHex b = true <;> simp [ha, hb] at h
            | [a], _, h => by_cases ha : isHex a = true <;> simp [ha] at h
            | [], _, h => cases h
          · rw [if_neg hu] at h; cases h
    · rw [ssb_plain c r i h34 h92] at h
      by_cases hlt : c.toNat < 32
      · simp [hlt] at h
      · simp only [hlt, if_false] at h
        obtain ⟨body, hb, hv, hj⟩ := scan_body n r (i + 1) r1 j hlen h
        exact ⟨c :: body, by simp [hb], VB.plain c body ⟨by omega, h34, h92⟩ hv, by simp [hj]; omega⟩

theorem VB.peel_high : ∀ (xs ys : Bytes), VB (xs ++ ys) → (∀ c ∈ xs, 128 ≤ c.toNat) → VB ys
  | [], ys, h, _ => by simpa using h
  | c :: xs, ys, h, hx => by
    have hc := hx c (by simp)
    have hxs : ∀ x ∈ xs, 128 ≤ x.toNat := fun x hx' => hx x (by simp [hx'])
    simp only [List.cons_append] at h
    generalize hz : xs ++ ys = zs at h
    cases h with
    | plain _ _ _ hv => subst hz; exact VB.peel_high xs ys hv hxs
    | esc e bs he hv => simp at hc
    | uni a b c' d bs ha hb hc' hd hv => simp at hc

theorem getu4_hex (a b c d : UInt8) (tl : Bytes) (ha : isHex a = true) (hb : isHex b = true) (hc : isHex c = true) (hd : isHex d = true) :
    ∃ rr, getu4 (92 :: 117 :: a :: b :: c :: d :: tl) = some rr := by
  unfold isHex at ha hb hc hd
  simp only [getu4]
  cases h1 : hexVal a <;> cases h2 : hexVal b <;> cases h3 : hexVal c <;> cases h4 : hexVal d <;> simp_all

theorem getu4_shape (s : Bytes) (rr : Nat) (h : getu4 s = some rr) : ∃ a b c d tl, s = 92 :: 117 :: a :: b :: c :: d :: tl := by
  unfold getu4 at h
  split at h
  · rename_i a b c d tl; exact ⟨a, b, c, d, tl, rfl⟩
  · cases h

/-- **every string the grammar accepts can be unquoted**: the rewriting loop of `unquoteBytes` never fails on a valid body -/
theorem unquote_valid : ∀ (n : Nat) (body : Bytes), body.length ≤ n → VB body → ∀ fuel, body.length ≤ fuel →
    (unquoteLoop 34 fuel body).isSome = true
  | _, [], _, _, fuel, _ => by cases fuel <;> simp [unquoteLoop]
  | 0, c :: bs, hl, _, _, _ => by simp at hl
  | n+1, c :: bs, hl, hv, 0, hf => by simp at hf
  | n+1, c :: bs, hl, hv, fuel+1, hf => by
    have hlen : bs.length ≤ n := by simpa using hl
    have hfl : bs.length ≤ fuel := by simpa using hf
    cases hv with
    | plain _ _ hp hv' =>
      obtain ⟨p1, p2, p3⟩ := hp
      have e92 : (c == 92) = false := by simpa using p3
      have e34 : (c == 34) = false := by simpa using p2
      have nlt : ¬ c.toNat < 32 := by omega
      unfold unquoteLoop
      simp only [e92, e34, Bool.false_eq_true, if_false, Bool.false_or, decide_eq_true_eq, nlt]
      by_cases hasc : c.toNat < 128
      · simp only [hasc, if_true, Option.isSome_map]
        exact unquote_valid n bs hlen hv' fuel hfl
      · simp only [hasc, if_false, Option.isSome_map]
        have hsz := decodeRune_size c bs
        rcases decodeRune_high c bs (by omega) with hbad | ⟨k, hk2, hks, hkl, hall, _, _⟩
        · rw [hbad]
          simp only [List.drop_succ_cons, List.drop_zero]
          exact unquote_valid n bs hlen hv' fuel hfl
        · rw [hks]
          have hsplit : c :: bs = (c :: bs).take k ++ (c :: bs).drop k := (List.take_append_drop k _).symm
          have hvd : VB ((c :: bs).drop k) := by
            apply VB.peel_high ((c :: bs).take k) _ _ hall
            rw [← hsplit]; exact VB.plain c bs ⟨p1, p2, p3⟩ hv'
          have hdl : ((c :: bs).drop k).length ≤ n := by simp only [List.length_drop, List.length_cons] at hl ⊢; omega
          exact unquote_valid n _ hdl hvd fuel (by simp only [List.length_drop, List.length_cons] at hf ⊢; omega)
    | esc e bs' he hv' =>
      have hlen' : bs'.length ≤ n := by simp at hlen; omega
      have hfl' : bs'.length ≤ fuel := by simp at hfl; omega
      have ih := unquote_valid n bs' hlen' hv' fuel hfl'
      have hcases : ((((((e = 34 ∨ e = 92) ∨ e = 47) ∨ e = 98) ∨ e = 102) ∨ e = 110) ∨ e = 114) ∨ e = 116 := by
        unfold simpleEsc at he; simpa using he
      rcases hcases with ((((((h | h) | h) | h) | h) | h) | h) | h <;> subst h <;> simp [unquoteLoop, ih]
    | uni a b c' d bs' ha hb hc hd hv' =>
      have hlen' : bs'.length ≤ n := by simp at hlen; omega
      have hfl' : bs'.length ≤ fuel := by simp at hfl; omega
      have ih := unquote_valid n bs' hlen' hv' fuel hfl'
      obtain ⟨rr, hrr⟩ := getu4_hex a b c' d bs' ha hb hc hd
      unfold unquoteLoop
      simp only [show ((92 : UInt8) == 92) = true by decide, if_true, show ((117 : UInt8) == 34 || (117 : UInt8) == 92 || (117 : UInt8) == 47 || (117 : UInt8) == 39) = false by decide,
        show ((117 : UInt8) == 98) = false by decide, show ((117 : UInt8) == 102) = false by decide, show ((117 : UInt8) == 110) = false by decide,
        show ((117 : UInt8) == 114) = false by decide, show ((117 : UInt8) == 116) = false by decide, show ((117 : UInt8) == 117) = true by decide,
        Bool.false_eq_true, if_false, hrr]
      have hdrop : (a :: b :: c' :: d :: bs').drop 4 = bs' := rfl
      rw [hdrop]
      by_cases hsur : isSurrogate rr = true
      · simp only [hsur, if_true]
        cases hg : getu4 bs' with
        | none =>
          simp only [show (runeError != runeError) = false by decide, Bool.false_eq_true, if_false]
          rw [Option.isSome_map]; exact ih
        | some rr1 =>
          simp only []
          by_cases hdec : (utf16Decode rr rr1 != runeError) = true
          · rw [if_pos hdec]
            obtain ⟨a2, b2, c2, d2, tl, htl⟩ := getu4_shape bs' rr1 hg
            subst htl
            have hvt : VB tl := by
              cases hv' with
              | plain _ _ hp _ => exact absurd rfl hp.2.2
              | esc _ _ he _ => simp [simpleEsc] at he
              | uni _ _ _ _ _ _ _ _ _ hvt => exact hvt
            rw [Option.isSome_map]
            have : (92 :: 117 :: a2 :: b2 :: c2 :: d2 :: tl).drop 6 = tl := rfl
            rw [this]
            exact unquote_valid n tl (by simp at hlen'; omega) hvt fuel (by simp at hfl'; omega)
          · rw [if_neg hdec, Option.isSome_map]; exact ih
      · simp only [hsur, Bool.false_eq_true, if_false]; rw [Option.isSome_map]; exact ih

/-- the literal of a string the grammar accepts (opening quote … closing quote) is unquoted successfully: `getString` and the
lazy string read cannot fail on an accepted text -/
theorem unquoteBytes_valid (r : Bytes) (i : Nat) (r1 : Bytes) (j : Nat) (h : scanStringBody r (i + 1) = .ok (r1, j)) :
    ∃ k, unquoteBytes ((34 :: r).take (j - i)) 34 = some k := by
  obtain ⟨body, hb, hv, hj⟩ := scan_body r.length r (i + 1) r1 j (Nat.le_refl _) h
  subst hb
  have hji : j - i = body.length + 2 := by omega
  have htake : (34 :: (body ++ 34 :: r1)).take (j - i) = 34 :: (body ++ [34]) := by
    rw [hji]
    simp only [List.take_succ_cons]
    rw [show body ++ 34 :: r1 = (body ++ [34]) ++ r1 by simp]
    rw [List.take_append_of_le_length (by simp)]
    rw [List.take_of_length_le (by simp)]
  rw [htake]
  have hu := unquote_valid body.length body (Nat.le_refl _) hv body.length (Nat.le_refl _)
  unfold unquoteBytes
  have h1 : ¬ (34 :: (body ++ [34])).length < 2 := by simp
  have h2 : ((34 :: (body ++ [34])).head? != some 34 || (34 :: (body ++ [34])).getLast? != some 34) = false := by
    have : (34 :: (body ++ [34])).getLast? = some 34 := by
      rw [show (34 : UInt8) :: (body ++ [34]) = (34 :: body) ++ [34] by simp, List.getLast?_append]; simp
    simp [this]
  simp only [h1, if_false, h2, Bool.false_eq_true]
  have hbody : ((34 :: (body ++ [34])).drop 1).take ((34 :: (body ++ [34])).length - 2) = body := by
    simp
  rw [hbody]
  exact Option.isSome_iff_exists.mp hu

end Ajson.Proofs
