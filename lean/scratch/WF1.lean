import Ajson.Spec.WF
import Ajson.Proofs.HeapBasics
import Ajson.Proofs.MutBasics
import Ajson.Proofs.MapLemmas
namespace Ajson.Proofs
open Ajson Ajson.Heap

/-- the position of a child matches its key in the parent's map -/
def PosOK (h : Heap) (p : Nat) (kc : Bytes × Id) : Prop :=
  if (h.get p).type = .array then (h.get kc.2).index.map itoa = some kc.1 else (h.get kc.2).key = some kc.1

/-- the structural part of the heap invariant for one node (`Heap.wfNode` as propositions) -/
structure NodeOK (h : Heap) (p : Nat) : Prop where
  kids : ∀ kc ∈ h.childMap p, (kc.2 : Nat) < h.size ∧ (kc.2 : Nat) ≠ p ∧ (h.get kc.2).parent = some p ∧ PosOK h p kc
  nodup : (h.childMap p).keys.Nodup
  dense : (h.get p).type = .array → ∀ i : Nat, i < (h.childMap p).length → ((h.childMap p).lookup (itoa i)).isSome = true
  shape : if (h.get p).type.isContainer = true then (h.get p).children.isSome = true else h.childMap p = []
  par : ∀ q : Nat, (h.get p).parent = some q → q < h.size ∧ (h.get q).type.isContainer = true ∧ (p : Id) ∈ (h.childMap q).vals ∧
    ((h.get p).dirty = true → (h.get q).dirty = true)
  clean : (h.get p).dirty = false → (h.get p).data.isSome = true ∧ (h.get p).b1 ≠ 0 ∧ ∀ kc ∈ h.childMap p, (h.get kc.2).dirty = false

/-- every allocated node is structurally sound -/
def Struct (h : Heap) : Prop := ∀ p : Nat, p < h.size → NodeOK h p

/-! ### `mark()` -/

/-- number of clean nodes -/
def cleanCount (h : Heap) : Nat := ((List.range h.size).filter (fun m => !(h.get m).dirty)).length

theorem filter_length_lt {α : Type} (l : List α) (p q : α → Bool) (hpq : ∀ x, q x = true → p x = true) (x : α) (hx : x ∈ l)
    (hp : p x = true) (hq : q x = false) : (l.filter q).length < (l.filter p).length := by
  induction l with
  | nil => cases hx
  | cons y ys ih =>
    have hle : (ys.filter q).length ≤ (ys.filter p).length := by
      clear ih hx
      induction ys with
      | nil => simp
      | cons z zs ihz =>
        simp only [List.filter_cons]
        by_cases hqz : q z = true
        · simp [hqz, hpq z hqz]; exact ihz
        · simp only [hqz, Bool.false_eq_true, if_false]
          split
          · simp only [List.length_cons]; omega
          · exact ihz
    simp only [List.filter_cons]
    rcases List.mem_cons.mp hx with rfl | hx'
    · simp only [hp, hq, if_true, Bool.false_eq_true, if_false, List.length_cons]; omega
    · have := ih hx'
      by_cases hqy : q y = true
      · simp [hqy, hpq y hqy]; exact this
      · simp only [hqy, Bool.false_eq_true, if_false]
        split
        · simp only [List.length_cons]; omega
        · exact this

theorem cleanCount_set_dirty (h : Heap) (n : Nat) (hn : n < h.size) (hc : (h.get n).dirty = false) :
    cleanCount (h.set n { h.get n with dirty := true }) < cleanCount h := by
  unfold cleanCount
  rw [size_set]
  apply filter_length_lt _ _ _ _ n (List.mem_range.mpr hn)
  · simp [hc]
  · simp [get_set, hn]
  · intro x hx
    rw [get_set] at hx
    split at hx
    · simp at hx
    · exact hx

theorem cleanCount_zero (h : Heap) (hz : cleanCount h = 0) (n : Nat) (hn : n < h.size) : (h.get n).dirty = true := by
  unfold cleanCount at hz
  have := List.length_eq_zero_iff.mp hz
  have hm : n ∈ List.range h.size := List.mem_range.mpr hn
  by_cases hd : (h.get n).dirty = true
  · exact hd
  · have : n ∈ (List.range h.size).filter (fun m => !(h.get m).dirty) := List.mem_filter.mpr ⟨hm, by simpa using hd⟩
    rw [‹(List.range h.size).filter _ = []›] at this
    cases this

/-- only dirty flags changed, and only from false to true -/
def DirtyOnly (h h' : Heap) : Prop :=
  h'.size = h.size ∧ ∀ m : Nat, h'.get m = h.get m ∨ h'.get m = { h.get m with dirty := true }

/-- dirtiness is closed upwards -/
def UpClosed (h : Heap) : Prop := ∀ m : Nat, m < h.size → ∀ q : Nat, (h.get m).parent = some q → (h.get m).dirty = true → (h.get q).dirty = true

theorem DirtyOnly.fields {h h' : Heap} (d : DirtyOnly h h') (m : Nat) :
    (h'.get m).parent = (h.get m).parent ∧ (h'.get m).children = (h.get m).children ∧ (h'.get m).type = (h.get m).type ∧
    (h'.get m).key = (h.get m).key ∧ (h'.get m).index = (h.get m).index ∧ (h'.get m).data = (h.get m).data ∧
    (h'.get m).b1 = (h.get m).b1 ∧ ((h.get m).dirty = true → (h'.get m).dirty = true) := by
  rcases d.2 m with e | e <;> rw [e] <;> simp

theorem Struct.upClosed {h : Heap} (hs : Struct h) : UpClosed h :=
  fun m hm q hq hd => ((hs m hm).par q hq).2.2.2 hd

theorem Struct.of_dirtyOnly {h h' : Heap} (hs : Struct h) (d : DirtyOnly h h') (hu : UpClosed h') : Struct h' := by
  intro p hp
  rw [d.1] at hp
  have ok := hs p hp
  obtain ⟨f1, f2, f3, f4, f5, f6, f7, f8⟩ := d.fields p
  have hcm : h'.childMap p = h.childMap p := by unfold childMap; rw [f2]
  refine ⟨?_, by rw [hcm]; exact ok.nodup, by rw [hcm, f3]; exact ok.dense, by rw [hcm, f3, f2]; exact ok.shape, ?_, ?_⟩
  · intro kc hkc
    rw [hcm] at hkc
    obtain ⟨a, b, c, e⟩ := ok.kids kc hkc
    obtain ⟨g1, _, _, g4, g5, _, _, _⟩ := d.fields kc.2
    refine ⟨by rw [d.1]; exact a, b, by rw [g1]; exact c, ?_⟩
    unfold PosOK at e ⊢
    rw [f3, g4, g5]; exact e
  · intro q hq
    rw [f1] at hq
    obtain ⟨a, b, c, _⟩ := ok.par q hq
    obtain ⟨_, g2, g3, _⟩ := d.fields q
    refine ⟨by rw [d.1]; exact a, by rw [g3]; exact b, ?_, fun hd => hu p (by rw [d.1]; exact hp) q (by rw [f1]; exact hq) hd⟩
    have : h'.childMap q = h.childMap q := by unfold childMap; rw [g2]
    rw [this]; exact c
  · intro hcl
    have hcl0 : (h.get p).dirty = false := by
      cases hd : (h.get p).dirty with
      | false => rfl
      | true => rw [f8 hd] at hcl; cases hcl
    obtain ⟨a, b, c⟩ := ok.clean hcl0
    refine ⟨by rw [f6]; exact a, by rw [f7]; exact b, ?_⟩
    intro kc hkc
    rw [hcm] at hkc
    obtain ⟨k1, _, k3, _⟩ := ok.kids kc hkc
    cases hd : (h'.get kc.2).dirty with
    | false => rfl
    | true =>
      have hpar : (h'.get kc.2).parent = some p := by rw [(d.fields kc.2).1]; exact k3
      have := hu kc.2 (by rw [d.1]; exact k1) p hpar hd
      rw [hcl] at this; cases this

/-- the loop invariant of `mark()`: dirtiness is closed upwards except possibly at the node `o` the loop is about to visit -/
def ClosedBut (h : Heap) (o : Option Id) : Prop :=
  ∀ m : Nat, m < h.size → ∀ q : Nat, (h.get m).parent = some q → (h.get m).dirty = true → (h.get q).dirty = true ∨ o = some q

theorem markAux_closed : ∀ (fuel : Nat) (h : Heap) (o : Option Id), ClosedBut h o → cleanCount h ≤ fuel →
    (∀ n : Nat, o = some n → n < h.size) → (∀ m : Nat, m < h.size → ∀ q : Nat, (h.get m).parent = some q → q < h.size) →
    UpClosed (markAux fuel h o)
  | 0, h, o, hc, hf, ho, _ => by
    simp only [markAux]
    intro m hm q hq hd
    rcases hc m hm q hq hd with h1 | h1
    · exact h1
    · exact cleanCount_zero h (by omega) q (ho q h1)
  | fuel+1, h, none, hc, _, _, _ => by
    simp only [markAux]
    intro m hm q hq hd
    rcases hc m hm q hq hd with h1 | h1
    · exact h1
    · cases h1
  | fuel+1, h, some n, hc, hf, ho, hr => by
    unfold markAux
    simp only []
    have hn := ho n rfl
    by_cases hd : (h.get n).dirty = true
    · simp only [hd, if_true]
      intro m hm q hq hdm
      rcases hc m hm q hq hdm with h1 | h1
      · exact h1
      · cases h1; exact hd
    · simp only [hd, Bool.false_eq_true, if_false]
      have hd' : (h.get n).dirty = false := by simpa using hd
      apply markAux_closed fuel
      · intro m hm q hq hdm
        simp only [size_set] at hm
        by_cases hmn : m = n
        · subst hmn
          rw [get_set_same _ _ _ hn] at hq
          right; simpa using hq
        · rw [get_set_other _ _ _ _ hmn] at hq hdm
          rcases hc m hm q hq hdm with h1 | h1
          · left
            rw [get_set]; split
            · rfl
            · exact h1
          · left
            cases h1
            rw [get_set_same _ _ _ hn]
      · have := cleanCount_set_dirty h n hn hd'
        exact Nat.le_of_lt_succ (Nat.lt_of_lt_of_le this hf)
      · intro q hq
        simp only [size_set]
        exact hr n hn q hq
      · intro m hm q hq
        simp only [size_set] at hm ⊢
        rw [get_set] at hq
        split at hq
        · rename_i hcn; rw [hcn.1] at hm; exact hr n hn q hq
        · exact hr m hm q hq

theorem cleanCount_le (h : Heap) : cleanCount h ≤ h.size := by
  unfold cleanCount
  have := List.length_filter_le (fun m => !(h.get m).dirty) (List.range h.size)
  simpa using this

/-- **`mark()` preserves the invariant** and leaves the marked node dirty -/
theorem Struct.mark {h : Heap} (hs : Struct h) (n : Nat) (hn : n < h.size) : Struct (h.mark n) ∧ DirtyOnly h (h.mark n) := by
  have hd : DirtyOnly h (h.mark n) := ⟨size_markAux _ _ _, fun m => mark_get h n m⟩
  refine ⟨hs.of_dirtyOnly hd ?_, hd⟩
  unfold Heap.mark
  apply markAux_closed
  · intro m hm q hq hdm; left; exact hs.upClosed m hm q hq hdm
  · exact cleanCount_le h
  · intro n' hn'; cases hn'; exact hn
  · intro m hm q hq; exact ((hs m hm).par q hq).1
