import Ajson.Proofs.WFInv
namespace Ajson.Proofs
open Ajson Ajson.Heap

theorem foldl_detach_size (kids : List Id) (h : Heap) :
    (kids.foldl (fun h c => h.modify c (fun r => { r with parent := none })) h).size = h.size := by
  induction kids generalizing h with
  | nil => rfl
  | cons c cs ih => simp only [List.foldl_cons]; rw [ih]; simp

theorem foldl_detach_get (kids : List Id) (h : Heap) (m : Nat) :
    (kids.foldl (fun h c => h.modify c (fun r => { r with parent := none })) h).get m =
      if (m : Id) ∈ kids ∧ m < h.size then { h.get m with parent := none } else h.get m := by
  induction kids generalizing h with
  | nil => simp
  | cons c cs ih =>
    simp only [List.foldl_cons]
    rw [ih]
    simp only [size_modify, List.mem_cons]
    by_cases hmc : m = c
    · subst hmc
      by_cases hlt : m < h.size
      · simp [get_modify, hlt]
      · simp [get_modify, hlt]
    · have : (m : Id) ≠ c := hmc
      rw [get_modify_other _ _ _ _ hmc]
      by_cases hin : (m : Id) ∈ cs
      · simp [hin]
      · simp [hin, this]

/-- `clear()` followed by a retype to a scalar payload: what `update` does for SetNull/SetNumeric/SetString/SetBool after `mark` -/
def setScalar (h : Heap) (n : Id) (t : NType) (c : Option CacheVal) : Heap :=
  ((h.clear n).modify n (fun r => { r with type := t, cache := none })).modify n (fun r => { r with cache := c })

theorem setScalar_size (h : Heap) (n : Id) (t : NType) (c : Option CacheVal) : (setScalar h n t c).size = h.size := by
  simp [setScalar, clear, foldl_detach_size]

theorem setScalar_other (h : Heap) (n : Nat) (t : NType) (c : Option CacheVal) (m : Nat) (hmn : m ≠ n) :
    (setScalar h n t c).get m = if (m : Id) ∈ (h.childMap n).vals ∧ m < h.size then { h.get m with parent := none } else h.get m := by
  unfold setScalar clear
  simp only []
  rw [get_modify_other _ _ _ _ hmn, get_modify_other _ _ _ _ hmn, get_modify_other _ _ _ _ hmn, foldl_detach_get]

theorem setScalar_self (h : Heap) (n : Nat) (t : NType) (c : Option CacheVal) (hn : n < h.size) (hnk : (n : Id) ∉ (h.childMap n).vals) :
    ((setScalar h n t c).get n).type = t ∧ ((setScalar h n t c).get n).cache = c ∧ ((setScalar h n t c).get n).children = none ∧
    ((setScalar h n t c).get n).dirty = (h.get n).dirty ∧ ((setScalar h n t c).get n).parent = (h.get n).parent ∧
    ((setScalar h n t c).get n).key = (h.get n).key ∧ ((setScalar h n t c).get n).index = (h.get n).index := by
  unfold setScalar clear
  simp [get_modify, foldl_detach_size, hn, foldl_detach_get, hnk]

theorem struct_setScalar {h : Heap} (hs : Struct h) (n : Nat) (hn : n < h.size) (hd : (h.get n).dirty = true) (t : NType)
    (ht : t.isContainer = false) (c : Option CacheVal) : Struct (setScalar h n t c) := by
  have okn := hs n hn
  have hK : ∀ x : Id, x ∈ (h.childMap n).vals → (x : Nat) < h.size ∧ (x : Nat) ≠ n ∧ (h.get x).parent = some n := by
    intro x hx
    obtain ⟨kc, hkc, he⟩ := List.mem_map.mp hx
    have := okn.kids kc hkc
    rw [he] at this
    exact ⟨this.1, this.2.1, this.2.2.1⟩
  have hnk : (n : Id) ∉ (h.childMap n).vals := fun hx => (hK n hx).2.1 rfl
  obtain ⟨s1, s2, s3, s4, s5, s6, s7⟩ := setScalar_self h n t c hn hnk
  have hcmn : (setScalar h n t c).childMap n = [] := by unfold childMap; rw [s3]; rfl
  have hother := setScalar_other h n t c
  have hcm : ∀ p : Nat, p ≠ n → (setScalar h n t c).childMap p = h.childMap p := by
    intro p hp
    unfold childMap
    rw [hother p hp]; split <;> rfl
  -- fields of a node other than n
  have hf : ∀ p : Nat, p ≠ n → ((setScalar h n t c).get p).type = (h.get p).type ∧ ((setScalar h n t c).get p).dirty = (h.get p).dirty ∧
      ((setScalar h n t c).get p).key = (h.get p).key ∧ ((setScalar h n t c).get p).index = (h.get p).index ∧
      ((setScalar h n t c).get p).data = (h.get p).data ∧ ((setScalar h n t c).get p).b1 = (h.get p).b1 ∧
      ((setScalar h n t c).get p).children = (h.get p).children := by
    intro p hp; rw [hother p hp]; split <;> simp
  have hpar : ∀ p : Nat, p ≠ n → (p : Id) ∉ (h.childMap n).vals → ((setScalar h n t c).get p).parent = (h.get p).parent := by
    intro p hp hpk; rw [hother p hp]; simp [hpk]
  have hparK : ∀ p : Nat, (p : Id) ∈ (h.childMap n).vals → ((setScalar h n t c).get p).parent = none := by
    intro p hpk
    have := hK p hpk
    rw [hother p this.2.1]; simp [hpk, this.1]
  intro p hp
  rw [setScalar_size] at hp
  by_cases hpn : p = n
  · subst hpn
    refine ⟨(by rw [hcmn]; intro kc hkc; cases hkc), (by rw [hcmn]; exact List.nodup_nil), ?_, ?_, ?_, ?_⟩
    · intro hta; rw [s1] at hta; subst hta; cases ht
    · rw [s1, ht]; simpa using hcmn
    · intro q hq
      rw [s5] at hq
      obtain ⟨a, b, c', e⟩ := okn.par q hq
      have hqn : q ≠ p := by
        intro e'; subst e'; exact hnk c'
      obtain ⟨f1, f2, _, _, _, _, _⟩ := hf q hqn
      refine ⟨by rw [setScalar_size]; exact a, by rw [f1]; exact b, by rw [hcm q hqn]; exact c', fun _ => by rw [f2]; exact e hd⟩
    · intro hcl; rw [s4, hd] at hcl; cases hcl
  · have ok := hs p hp
    obtain ⟨f1, f2, f3, f4, f5, f6, f7⟩ := hf p hpn
    refine ⟨?_, by rw [hcm p hpn]; exact ok.nodup, by rw [hcm p hpn, f1]; exact ok.dense, by rw [hcm p hpn, f1, f7]; exact ok.shape, ?_, ?_⟩
    · intro kc hkc
      rw [hcm p hpn] at hkc
      obtain ⟨a, b, c', e⟩ := ok.kids kc hkc
      have hnotK : (kc.2 : Id) ∉ (h.childMap n).vals := by
        intro hx
        have := (hK kc.2 hx).2.2
        rw [c'] at this
        exact hpn (Option.some.inj this)
      refine ⟨by rw [setScalar_size]; exact a, b, ?_, ?_⟩
      · by_cases hkn : (kc.2 : Nat) = n
        · rw [hkn, s5, ← hkn]; exact c'
        · rw [hpar kc.2 hkn hnotK]; exact c'
      · unfold PosOK at e ⊢
        rw [f1]
        by_cases hkn : (kc.2 : Nat) = n
        · rw [hkn, s6, s7, ← hkn]; exact e
        · obtain ⟨_, _, g3, g4, _⟩ := hf kc.2 hkn
          rw [g3, g4]; exact e
    · intro q hq
      by_cases hpk : (p : Id) ∈ (h.childMap n).vals
      · rw [hparK p hpk] at hq; cases hq
      · rw [hpar p hpn hpk] at hq
        obtain ⟨a, b, c', e⟩ := ok.par q hq
        have hqn : q ≠ n := by intro e'; subst e'; exact hpk c'
        obtain ⟨g1, g2, _⟩ := hf q hqn
        exact ⟨by rw [setScalar_size]; exact a, by rw [g1]; exact b, by rw [hcm q hqn]; exact c', by rw [f2, g2]; exact e⟩
    · intro hcl
      rw [f2] at hcl
      obtain ⟨a, b, c'⟩ := ok.clean hcl
      refine ⟨by rw [f5]; exact a, by rw [f6]; exact b, ?_⟩
      intro kc hkc
      rw [hcm p hpn] at hkc
      have := c' kc hkc
      by_cases hkn : (kc.2 : Nat) = n
      · rw [hkn] at this; rw [hd] at this; cases this
      · rw [(hf kc.2 hkn).2.1]; exact this

theorem modify_same (h : Heap) (n : Id) (f : NodeRec → NodeRec) (hf : f (h.get n) = h.get n) : h.modify n f = h := by
  rw [modify_eq]
  split
  · rename_i hlt
    rw [hf]
    unfold Heap.set Heap.get
    cases h with
    | mk nodes datas =>
      simp only [Heap.mk.injEq, and_true]
      apply List.ext_getElem?
      intro i
      rw [List.getElem?_set]
      split
      · rename_i hin
        subst hin
        simp only [Heap.size] at hlt
        simp [hlt, List.getD_eq_getElem?_getD]
      · rfl
  · rfl

/-- **SetNull / SetNumeric / SetString / SetBool preserve the invariant** (any receiver: scalar or container, root or child) -/
theorem struct_update_scalar {h : Heap} (hs : Struct h) (n : Nat) (hn : n < h.size) (v : SetVal)
    (hv : v.type.isContainer = false) : Struct (h.update (some n) v).1 ∧ (h.update (some n) v).2 = .ok () := by
  have hm := hs.mark n hn
  have hd : ((h.mark n).get n).dirty = true := mark_self_dirty h n hn
  have hsz : n < (h.mark n).size := by rw [hm.2.1]; exact hn
  cases v with
  | null =>
    have e : (h.update (some n) .null) = (setScalar (h.mark n) n .null none, .ok ()) := by
      simp only [Heap.update, Heap.validate, setScalar, SetVal.type]
      congr 1
      symm
      apply modify_same
      rw [get_modify]; simp
      split <;> rfl
    rw [e]; exact ⟨struct_setScalar hm.1 n hsz hd .null rfl none, rfl⟩
  | num b =>
    have e : (h.update (some n) (.num b)) = (setScalar (h.mark n) n .numeric (some (.num b)), .ok ()) := by
      simp only [Heap.update, Heap.validate, setScalar, SetVal.type]
    rw [e]; exact ⟨struct_setScalar hm.1 n hsz hd .numeric rfl _, rfl⟩
  | str s =>
    have e : (h.update (some n) (.str s)) = (setScalar (h.mark n) n .string (some (.str s)), .ok ()) := by
      simp only [Heap.update, Heap.validate, setScalar, SetVal.type]
    rw [e]; exact ⟨struct_setScalar hm.1 n hsz hd .string rfl _, rfl⟩
  | bool b =>
    have e : (h.update (some n) (.bool b)) = (setScalar (h.mark n) n .bool (some (.bool b)), .ok ()) := by
      simp only [Heap.update, Heap.validate, setScalar, SetVal.type]
    rw [e]; exact ⟨struct_setScalar hm.1 n hsz hd .bool rfl _, rfl⟩
  | arr ids => simp [SetVal.type, NType.isContainer] at hv
  | obj kv => simp [SetVal.type, NType.isContainer] at hv
