import Ajson.Proofs.WFInv
namespace Ajson.Proofs
open Ajson Ajson.Heap

/-- a change of fields the invariant does not look at (cache, b0) -/
theorem struct_modify_irrelevant {h : Heap} (hs : Struct h) (n : Id) (f : NodeRec → NodeRec)
    (hf : ∀ r, (f r).parent = r.parent ∧ (f r).children = r.children ∧ (f r).type = r.type ∧ (f r).key = r.key ∧
      (f r).index = r.index ∧ (f r).data = r.data ∧ (f r).b1 = r.b1 ∧ (f r).dirty = r.dirty) : Struct (h.modify n f) := by
  have hfld : ∀ m : Nat, ((h.modify n f).get m).parent = (h.get m).parent ∧ ((h.modify n f).get m).children = (h.get m).children ∧
      ((h.modify n f).get m).type = (h.get m).type ∧ ((h.modify n f).get m).key = (h.get m).key ∧
      ((h.modify n f).get m).index = (h.get m).index ∧ ((h.modify n f).get m).data = (h.get m).data ∧
      ((h.modify n f).get m).b1 = (h.get m).b1 ∧ ((h.modify n f).get m).dirty = (h.get m).dirty := by
    intro m
    rw [get_modify]
    split
    · rename_i hc; rw [hc.1]; exact hf _
    · exact ⟨rfl, rfl, rfl, rfl, rfl, rfl, rfl, rfl⟩
  have hcm : ∀ m : Nat, (h.modify n f).childMap m = h.childMap m := by
    intro m; unfold childMap; rw [(hfld m).2.1]
  intro p hp
  rw [size_modify] at hp
  have ok := hs p hp
  obtain ⟨f1, f2, f3, f4, f5, f6, f7, f8⟩ := hfld p
  refine ⟨?_, by rw [hcm]; exact ok.nodup, by rw [hcm, f3]; exact ok.dense, by rw [hcm, f3, f2]; exact ok.shape, ?_, ?_⟩
  · intro kc hkc
    rw [hcm] at hkc
    obtain ⟨a, b, c, e⟩ := ok.kids kc hkc
    obtain ⟨g1, _, _, g4, g5, _⟩ := hfld kc.2
    refine ⟨by rw [size_modify]; exact a, b, by rw [g1]; exact c, ?_⟩
    unfold PosOK at e ⊢; rw [f3, g4, g5]; exact e
  · intro q hq
    rw [f1] at hq
    obtain ⟨a, b, c, e⟩ := ok.par q hq
    obtain ⟨_, _, g3, _, _, _, _, g8⟩ := hfld q
    exact ⟨by rw [size_modify]; exact a, by rw [g3]; exact b, by rw [hcm]; exact c, by rw [f8, g8]; exact e⟩
  · intro hcl
    rw [f8] at hcl
    obtain ⟨a, b, c⟩ := ok.clean hcl
    refine ⟨by rw [f6]; exact a, by rw [f7]; exact b, ?_⟩
    intro kc hkc
    rw [hcm] at hkc
    rw [(hfld kc.2).2.2.2.2.2.2.2]; exact c kc hkc

/-! ### removing a member of an object -/

theorem keys_erase (m : ChildMap) (k : Bytes) : (m.erase k).keys = m.keys.filter (fun x => !(x == k)) := by
  unfold ChildMap.erase ChildMap.keys
  induction m with
  | nil => rfl
  | cons p ps ih =>
    simp only [List.filter_cons, List.map_cons]
    by_cases hp : (p.1 == k) = true
    · simp [hp, ih]
    · simp [hp, ih]

theorem mem_erase {m : ChildMap} {k : Bytes} {kc : Bytes × Id} (h : kc ∈ m.erase k) : kc ∈ m ∧ kc.1 ≠ k := by
  unfold ChildMap.erase at h
  obtain ⟨a, b⟩ := List.mem_filter.mp h
  exact ⟨a, by simpa using b⟩

theorem mem_erase_of {m : ChildMap} {k : Bytes} {kc : Bytes × Id} (h : kc ∈ m) (hk : kc.1 ≠ k) : kc ∈ m.erase k := by
  unfold ChildMap.erase
  exact List.mem_filter.mpr ⟨h, by simpa using hk⟩

theorem keys_unique : ∀ (m : ChildMap), m.keys.Nodup → ∀ a b : Bytes × Id, a ∈ m → b ∈ m → a.1 = b.1 → a = b
  | [], _, a, _, ha, _, _ => by cases ha
  | p :: ps, hn, a, b, ha, hb, hab => by
    simp only [ChildMap.keys, List.map_cons, List.nodup_cons] at hn
    rcases List.mem_cons.mp ha with rfl | ha' <;> rcases List.mem_cons.mp hb with rfl | hb'
    · rfl
    · exact absurd (List.mem_map.mpr ⟨b, hb', hab.symm⟩) hn.1
    · exact absurd (List.mem_map.mpr ⟨a, ha', hab⟩) hn.1
    · exact keys_unique ps hn.2 a b ha' hb' hab

/-- `remove()` of a member of an object, after `mark()` and the cache reset -/
def detachObj (h : Heap) (n value : Id) (k : Bytes) : Heap :=
  (h.modify n (fun r => { r with children := r.children.map (·.erase k) })).modify value (fun r => { r with parent := none })

theorem struct_detachObj {h : Heap} (hs : Struct h) (n value : Nat) (hn : n < h.size) (hv : value < h.size)
    (hpar : (h.get value).parent = some n) (hobj : (h.get n).type ≠ .array) (k : Bytes) (hk : (h.get value).key = some k)
    (hd : (h.get n).dirty = true) : Struct (detachObj h n value k) := by
  have okn := hs n hn
  have okv := hs value hv
  have hvn : value ≠ n := by
    intro e; subst e
    obtain ⟨_, _, c, _⟩ := okv.par value hpar
    obtain ⟨kc, hkc, he⟩ := List.mem_map.mp c
    have := (okv.kids kc hkc).2.1
    exact this he
  -- the entry of `value` in n's map is (k, value)
  obtain ⟨_, _, hmem, _⟩ := okv.par n hpar
  obtain ⟨kc0, hkc0, he0⟩ := List.mem_map.mp hmem
  have hk0 : kc0.1 = k := by
    have := (okn.kids kc0 hkc0).2.2.2
    unfold PosOK at this
    rw [if_neg hobj, he0, hk] at this
    exact (Option.some.inj this).symm
  have huniq : ∀ kc ∈ h.childMap n, kc.1 = k → kc.2 = value := by
    intro kc hkc hkk
    have := keys_unique _ okn.nodup kc kc0 hkc hkc0 (by rw [hkk, hk0])
    rw [this]; exact he0
  have huniq2 : ∀ kc ∈ h.childMap n, kc.2 = value → kc.1 = k := by
    intro kc hkc hkv
    have := (okn.kids kc hkc).2.2.2
    unfold PosOK at this
    rw [if_neg hobj, hkv, hk] at this
    exact (Option.some.inj this).symm
  -- records after the two writes
  have hget : ∀ m : Nat, (detachObj h n value k).get m =
      if m = value then { h.get value with parent := none }
      else if m = n then { h.get n with children := (h.get n).children.map (·.erase k) } else h.get m := by
    intro m
    unfold detachObj
    by_cases hmv : m = value
    · subst hmv
      rw [get_modify]; simp only [size_modify, hv, and_self, if_true]
      rw [get_modify_other _ _ _ _ hvn]
    · rw [get_modify_other _ _ _ _ hmv]
      simp only [hmv, if_false]
      by_cases hmn : m = n
      · subst hmn; rw [get_modify]; simp [hn]
      · rw [get_modify_other _ _ _ _ hmn]; simp [hmn]
  have hsize : (detachObj h n value k).size = h.size := by simp [detachObj]
  have hcmn : (detachObj h n value k).childMap n = (h.childMap n).erase k := by
    unfold childMap
    rw [hget n]; simp only [Ne.symm hvn, if_false, if_true]
    cases (h.get n).children <;> simp [ChildMap.erase]
  have hcm : ∀ m : Nat, m ≠ n → (detachObj h n value k).childMap m = h.childMap m := by
    intro m hm
    unfold childMap
    rw [hget m]
    split
    · rename_i e; rw [e]
    · simp [hm]
  have hfld : ∀ m : Nat, ((detachObj h n value k).get m).type = (h.get m).type ∧ ((detachObj h n value k).get m).dirty = (h.get m).dirty ∧
      ((detachObj h n value k).get m).key = (h.get m).key ∧ ((detachObj h n value k).get m).index = (h.get m).index ∧
      ((detachObj h n value k).get m).data = (h.get m).data ∧ ((detachObj h n value k).get m).b1 = (h.get m).b1 ∧
      (m ≠ value → ((detachObj h n value k).get m).parent = (h.get m).parent) := by
    intro m
    rw [hget m]
    split
    · rename_i e; subst e; simp
    · split
      · rename_i e; subst e; simp
      · simp
  have hparv : ((detachObj h n value k).get value).parent = none := by rw [hget value]; simp
  intro p hp
  rw [hsize] at hp
  have ok := hs p hp
  obtain ⟨f1, f2, f3, f4, f5, f6, f7⟩ := hfld p
  by_cases hpn : p = n
  · subst hpn
    refine ⟨?_, ?_, ?_, ?_, ?_, ?_⟩
    · intro kc hkc
      rw [hcmn] at hkc
      obtain ⟨hin, hne⟩ := mem_erase hkc
      obtain ⟨a, b, c, e⟩ := ok.kids kc hin
      have hkv : (kc.2 : Nat) ≠ value := fun e' => hne (huniq2 kc hin e')
      obtain ⟨g1, _, g3, g4, _, _, g7⟩ := hfld kc.2
      refine ⟨by rw [hsize]; exact a, b, by rw [g7 hkv]; exact c, ?_⟩
      unfold PosOK at e ⊢; rw [f1, g3, g4]; exact e
    · rw [hcmn, keys_erase]; exact ok.nodup.sublist List.filter_sublist
    · intro hta; rw [f1] at hta; exact absurd hta hobj
    · rw [f1]
      have := ok.shape
      by_cases hc : (h.get p).type.isContainer = true
      · simp only [hc, if_true] at this ⊢
        rw [hget p]; simp only [Ne.symm hvn, if_false, if_true]
        cases hch : (h.get p).children with
        | none => rw [hch] at this; cases this
        | some m => rfl
      · simp only [hc, Bool.false_eq_true, if_false] at this ⊢
        rw [hcmn, this]; rfl
    · intro q hq
      rw [f7 (Ne.symm hvn)] at hq
      obtain ⟨a, b, c, e⟩ := ok.par q hq
      have hqp : q ≠ p := by
        intro e'; subst e'
        obtain ⟨kc, hkc, he⟩ := List.mem_map.mp c
        exact (ok.kids kc hkc).2.1 he
      obtain ⟨g1, g2, _⟩ := hfld q
      exact ⟨by rw [hsize]; exact a, by rw [g1]; exact b, by rw [hcm q hqp]; exact c, by rw [f2, g2]; exact e⟩
    · intro hcl; rw [f2, hd] at hcl; cases hcl
  · refine ⟨?_, by rw [hcm p hpn]; exact ok.nodup, by rw [hcm p hpn, f1]; exact ok.dense, ?_, ?_, ?_⟩
    · intro kc hkc
      rw [hcm p hpn] at hkc
      obtain ⟨a, b, c, e⟩ := ok.kids kc hkc
      have hkv : (kc.2 : Nat) ≠ value := by
        intro e'; rw [e'] at c; rw [hpar] at c; exact hpn (Option.some.inj c).symm
      obtain ⟨g1, _, g3, g4, _, _, g7⟩ := hfld kc.2
      refine ⟨by rw [hsize]; exact a, b, by rw [g7 hkv]; exact c, ?_⟩
      unfold PosOK at e ⊢; rw [f1, g3, g4]; exact e
    · rw [hcm p hpn, f1]
      have := ok.shape
      by_cases hc : (h.get p).type.isContainer = true
      · simp only [hc, if_true] at this ⊢
        rw [hget p]
        split
        · rename_i e; subst e; exact this
        · first | exact this | (simp only [hpn, if_false]; exact this) | (split <;> first | exact this | (rename_i e2; exact absurd e2 hpn))
      · simp only [hc, Bool.false_eq_true, if_false] at this ⊢; exact this
    · intro q hq
      by_cases hpv : p = value
      · subst hpv; rw [hparv] at hq; cases hq
      · rw [f7 hpv] at hq
        obtain ⟨a, b, c, e⟩ := ok.par q hq
        obtain ⟨g1, g2, _⟩ := hfld q
        refine ⟨by rw [hsize]; exact a, by rw [g1]; exact b, ?_, by rw [f2, g2]; exact e⟩
        by_cases hqn : q = n
        · subst hqn
          rw [hcmn]
          obtain ⟨kc, hkc, he⟩ := List.mem_map.mp c
          have hne : kc.1 ≠ k := fun e' => hpv ((huniq kc hkc e').symm ▸ he.symm ▸ rfl)
          exact List.mem_map.mpr ⟨kc, mem_erase_of hkc hne, he⟩
        · rw [hcm q hqn]; exact c
    · intro hcl
      rw [f2] at hcl
      obtain ⟨a, b, c⟩ := ok.clean hcl
      refine ⟨by rw [f5]; exact a, by rw [f6]; exact b, ?_⟩
      intro kc hkc
      rw [hcm p hpn] at hkc
      rw [(hfld kc.2).2.1]; exact c kc hkc

/-- **deleting a member of an object preserves the invariant** (`remove`, hence DeleteNode / DeleteKey / PopKey / Delete on
a member) -/
theorem struct_remove_object {h : Heap} (hs : Struct h) (n value : Nat) (hv : value < h.size)
    (hpar : (h.get value).parent = some n) (hobj : (h.get n).type = .object) :
    Struct (h.remove n value).1 ∧ (h.remove n value).2 = .ok () := by
  have okv := hs value hv
  obtain ⟨hn, hcont, hmem, _⟩ := okv.par n hpar
  obtain ⟨kc0, hkc0, he0⟩ := List.mem_map.mp hmem
  have hkey : (h.get value).key = some kc0.1 := by
    have := ((hs n hn).kids kc0 hkc0).2.2.2
    unfold PosOK at this
    rw [hobj, he0] at this
    simpa using this
  have hm := hs.mark n hn
  have hdn : ((h.mark n).get n).dirty = true := mark_self_dirty h n hn
  obtain ⟨m1, _, m3, m4, _⟩ := hm.2.fields value
  obtain ⟨_, _, n3, _⟩ := hm.2.fields n
  -- the heap after mark and the cache reset
  have hs2 : Struct ((h.mark n).modify n (fun r => { r with cache := none })) :=
    struct_modify_irrelevant hm.1 n _ (fun r => ⟨rfl, rfl, rfl, rfl, rfl, rfl, rfl, rfl⟩)
  have g : ∀ m : Nat, (((h.mark n).modify n (fun r => { r with cache := none })).get m).parent = ((h.mark n).get m).parent ∧
      (((h.mark n).modify n (fun r => { r with cache := none })).get m).type = ((h.mark n).get m).type ∧
      (((h.mark n).modify n (fun r => { r with cache := none })).get m).key = ((h.mark n).get m).key ∧
      (((h.mark n).modify n (fun r => { r with cache := none })).get m).dirty = ((h.mark n).get m).dirty ∧
      (((h.mark n).modify n (fun r => { r with cache := none })).get m).index = ((h.mark n).get m).index := by
    intro m; rw [get_modify]; split
    · rename_i hc; rw [hc.1]; exact ⟨rfl, rfl, rfl, rfl, rfl⟩
    · exact ⟨rfl, rfl, rfl, rfl, rfl⟩
  have hsz2 : ((h.mark n).modify n (fun r => { r with cache := none })).size = h.size := by simp [hm.2.1]
  have key := struct_detachObj hs2 n value (by rw [hsz2]; exact hn) (by rw [hsz2]; exact hv)
    (by rw [(g value).1, m1]; exact hpar) (by rw [(g n).2.1, n3, hobj]; decide) kc0.1 (by rw [(g value).2.2.1, m4]; exact hkey)
    (by rw [(g n).2.2.2.1]; exact hdn)
  have hic : h.isContainer n = true := by simpa [isContainer, typeOf] using hcont
  have hia : ((h.mark n).modify n (fun r => { r with cache := none })).isArray n = false := by
    simp [isArray, typeOf, (g n).2.1, n3, hobj]
  have hpe : ((h.get value).parent != some n) = false := by simp [hpar]
  have e : h.remove n value = (detachObj ((h.mark n).modify n (fun r => { r with cache := none })) n value kc0.1, .ok ()) := by
    unfold Heap.remove
    simp only [hic, Bool.not_true, Bool.false_eq_true, if_false, hpe, hia, (g value).2.2.1, m4, hkey]
    rfl
  rw [e]; exact ⟨key, rfl⟩
