import Ajson.Proofs.WFInv
namespace Ajson.Proofs
open Ajson Ajson.Heap

/-- the invariant with the two obligations relaxed that `mark(n)` is about to restore: a dirty child of `n` under a clean `n` -/
structure NodeOKBut (h : Heap) (n : Nat) (p : Nat) : Prop where
  kids : ∀ kc ∈ h.childMap p, (kc.2 : Nat) < h.size ∧ (kc.2 : Nat) ≠ p ∧ (h.get kc.2).parent = some p ∧ PosOK h p kc
  nodup : (h.childMap p).keys.Nodup
  dense : (h.get p).type = .array → ∀ i : Nat, i < (h.childMap p).length → ((h.childMap p).lookup (itoa i)).isSome = true
  shape : if (h.get p).type.isContainer = true then (h.get p).children.isSome = true else h.childMap p = []
  par : ∀ q : Nat, (h.get p).parent = some q → q < h.size ∧ (h.get q).type.isContainer = true ∧ (p : Id) ∈ (h.childMap q).vals ∧
    ((h.get p).dirty = true → (h.get q).dirty = true ∨ q = n)
  clean : p ≠ n → (h.get p).dirty = false → (h.get p).data.isSome = true ∧ (h.get p).b1 ≠ 0 ∧ ∀ kc ∈ h.childMap p, (h.get kc.2).dirty = false

def StructBut (h : Heap) (n : Nat) : Prop := ∀ p : Nat, p < h.size → NodeOKBut h n p

theorem Struct.toBut {h : Heap} (hs : Struct h) (n : Nat) : StructBut h n := fun p hp =>
  let ok := hs p hp
  ⟨ok.kids, ok.nodup, ok.dense, ok.shape, fun q hq => let r := ok.par q hq; ⟨r.1, r.2.1, r.2.2.1, fun hd => Or.inl (r.2.2.2 hd)⟩,
    fun _ => ok.clean⟩

theorem StructBut.toStruct {h : Heap} {n : Nat} (hs : StructBut h n) (hd : (h.get n).dirty = true) : Struct h := fun p hp =>
  let ok := hs p hp
  ⟨ok.kids, ok.nodup, ok.dense, ok.shape,
    fun q hq => let r := ok.par q hq; ⟨r.1, r.2.1, r.2.2.1, fun hdp => by rcases r.2.2.2 hdp with h1 | h1; exact h1; rw [h1]; exact hd⟩,
    fun hcl => by
      by_cases hpn : p = n
      · rw [hpn, hd] at hcl; cases hcl
      · exact ok.clean hpn hcl⟩

/-- **`mark(n)` restores the full invariant** from the relaxed one -/
theorem StructBut.mark {h : Heap} {n : Nat} (hs : StructBut h n) (hn : n < h.size) : Struct (h.mark n) := by
  have d : DirtyOnly h (h.mark n) := ⟨size_markAux _ _ _, fun m => mark_get h n m⟩
  have hdn : ((h.mark n).get n).dirty = true := mark_self_dirty h n hn
  have hu : UpClosed (h.mark n) := by
    unfold Heap.mark
    apply markAux_closed
    · intro m hm q hq hdm
      rcases ((hs m hm).par q hq).2.2.2 hdm with h1 | h1
      · left; exact h1
      · right; rw [h1]
    · exact cleanCount_le h
    · intro n' hn'; cases hn'; exact hn
    · intro m hm q hq; exact ((hs m hm).par q hq).1
  intro p hp
  rw [d.1] at hp
  have ok := hs p hp
  obtain ⟨f1, f2, f3, f4, f5, f6, f7, f8⟩ := d.fields p
  have hcm : (h.mark n).childMap p = h.childMap p := by unfold childMap; rw [f2]
  refine ⟨?_, by rw [hcm]; exact ok.nodup, by rw [hcm, f3]; exact ok.dense, by rw [hcm, f3, f2]; exact ok.shape, ?_, ?_⟩
  · intro kc hkc
    rw [hcm] at hkc
    obtain ⟨a, b, c, e⟩ := ok.kids kc hkc
    obtain ⟨g1, _, _, g4, g5, _, _, _⟩ := d.fields kc.2
    refine ⟨by rw [d.1]; exact a, b, by rw [g1]; exact c, ?_⟩
    unfold PosOK at e ⊢
    rw [f3, g4, g5]; exact e
  · intro q hq
    rw [f1] at hq
    obtain ⟨a, b, c, _⟩ := ok.par q hq
    obtain ⟨_, g2, g3, _⟩ := d.fields q
    refine ⟨by rw [d.1]; exact a, by rw [g3]; exact b, ?_, fun hd => hu p (by rw [d.1]; exact hp) q (by rw [f1]; exact hq) hd⟩
    have : (h.mark n).childMap q = h.childMap q := by unfold childMap; rw [g2]
    rw [this]; exact c
  · intro hcl
    have hpn : p ≠ n := by intro e; rw [e, hdn] at hcl; cases hcl
    have hcl0 : (h.get p).dirty = false := by
      cases hd : (h.get p).dirty with
      | false => rfl
      | true => rw [f8 hd] at hcl; cases hcl
    obtain ⟨a, b, c⟩ := ok.clean hpn hcl0
    refine ⟨by rw [f6]; exact a, by rw [f7]; exact b, ?_⟩
    intro kc hkc
    rw [hcm] at hkc
    obtain ⟨k1, _, k3, _⟩ := ok.kids kc hkc
    cases hd : ((h.mark n).get kc.2).dirty with
    | false => rfl
    | true =>
      have hpar : ((h.mark n).get kc.2).parent = some p := by rw [(d.fields kc.2).1]; exact k3
      have := hu kc.2 (by rw [d.1]; exact k1) p hpar hd
      rw [hcl] at this; cases this

theorem not_mem_keys_of_lookup_none (m : ChildMap) (k : Bytes) (h : m.lookup k = none) : k ∉ m.keys := by
  intro hk
  obtain ⟨p, hp, he⟩ := List.mem_map.mp hk
  unfold ChildMap.lookup at h
  rw [Option.map_eq_none_iff, List.find?_eq_none] at h
  exact h p hp (by simp [he])

/-- `appendNode(key, value)` on an object once `value` is detached and no other member has that name -/
def attachObj (h : Heap) (n value : Id) (k : Bytes) : Heap :=
  ((h.modify value (fun r => { r with parent := some n, key := some k })).modify n (fun r => { r with cache := none })).modify n
    (fun r => { r with children := some ((r.children.getD []).insert k value) })

theorem struct_attachObj {h : Heap} (hs : Struct h) (n value : Nat) (hn : n < h.size) (hv : value < h.size) (hvn : value ≠ n)
    (hroot : (h.get value).parent = none) (hobj : (h.get n).type = .object) (k : Bytes) (hfresh : (h.childMap n).lookup k = none) :
    StructBut (attachObj h n value k) n := by
  have okn := hs n hn
  have hget : ∀ m : Nat, (attachObj h n value k).get m =
      if m = n then { h.get n with cache := none, children := some ((h.childMap n).insert k value) }
      else if m = value then { h.get value with parent := some n, key := some k } else h.get m := by
    intro m
    unfold attachObj
    by_cases hmn : m = n
    · subst hmn
      rw [get_modify]; simp only [size_modify, hn, and_self, if_true]
      rw [get_modify]; simp only [size_modify, hn, and_self, if_true]
      rw [get_modify_other _ _ _ _ (Ne.symm hvn)]
      simp [childMap]
    · rw [get_modify_other _ _ _ _ hmn, get_modify_other _ _ _ _ hmn]
      simp only [hmn, if_false]
      by_cases hmv : m = value
      · subst hmv; rw [get_modify]; simp [hv]
      · rw [get_modify_other _ _ _ _ hmv]; simp [hmv]
  have hsize : (attachObj h n value k).size = h.size := by simp [attachObj]
  have hcmn : (attachObj h n value k).childMap n = h.childMap n ++ [(k, (value : Id))] := by
    unfold childMap; rw [hget n]; simp only [if_true, Option.getD_some]
    exact insert_fresh _ _ _ hfresh
  have hcm : ∀ m : Nat, m ≠ n → (attachObj h n value k).childMap m = h.childMap m := by
    intro m hm
    unfold childMap; rw [hget m]; simp only [hm, if_false]
    split
    · rename_i e; rw [e]
    · rfl
  have hfld : ∀ m : Nat, ((attachObj h n value k).get m).type = (h.get m).type ∧ ((attachObj h n value k).get m).dirty = (h.get m).dirty ∧
      ((attachObj h n value k).get m).index = (h.get m).index ∧ ((attachObj h n value k).get m).data = (h.get m).data ∧
      ((attachObj h n value k).get m).b1 = (h.get m).b1 ∧
      (m ≠ value → ((attachObj h n value k).get m).parent = (h.get m).parent ∧ ((attachObj h n value k).get m).key = (h.get m).key) := by
    intro m
    rw [hget m]
    split
    · rename_i e; subst e; simp
    · split
      · rename_i e; subst e; simp
      · simp
  have hvrec : ((attachObj h n value k).get value).parent = some n ∧ ((attachObj h n value k).get value).key = some k := by
    rw [hget value]; simp [hvn]
  -- `value` is not a child of anybody
  have hnokid : ∀ p : Nat, p < h.size → ∀ kc ∈ h.childMap p, (kc.2 : Nat) ≠ value := by
    intro p hp kc hkc e
    have := ((hs p hp).kids kc hkc).2.2.1
    rw [e, hroot] at this; cases this
  intro p hp
  rw [hsize] at hp
  have ok := hs p hp
  obtain ⟨f1, f2, f3, f4, f5, f6⟩ := hfld p
  by_cases hpn : p = n
  · subst hpn
    refine ⟨?_, ?_, ?_, ?_, ?_, fun hne => absurd rfl hne⟩
    · intro kc hkc
      rw [hcmn, List.mem_append] at hkc
      rcases hkc with hkc | hkc
      · obtain ⟨a, b, c, e⟩ := ok.kids kc hkc
        have hkv := hnokid p hp kc hkc
        obtain ⟨g1, _, g3, _, _, g6⟩ := hfld kc.2
        refine ⟨by rw [hsize]; exact a, b, by rw [(g6 hkv).1]; exact c, ?_⟩
        unfold PosOK at e ⊢; rw [f1, g3, (g6 hkv).2]; exact e
      · have : kc = (k, (value : Id)) := by simpa using hkc
        subst this
        refine ⟨by rw [hsize]; exact hv, hvn, hvrec.1, ?_⟩
        unfold PosOK; rw [f1, hobj]; simp [hvrec.2]
    · rw [hcmn]
      simp only [ChildMap.keys, List.map_append, List.map_cons, List.map_nil]
      rw [List.nodup_append]
      refine ⟨ok.nodup, by simp, ?_⟩
      intro a ha b hb
      have : b = k := by simpa using hb
      subst this
      intro e; subst e
      exact not_mem_keys_of_lookup_none _ _ hfresh ha
    · intro hta; rw [f1, hobj] at hta; cases hta
    · rw [f1, hobj]; simp only [NType.isContainer, if_true]
      rw [hget p]; simp
    · intro q hq
      rw [(f6 (Ne.symm hvn)).1] at hq
      obtain ⟨a, b, c, e⟩ := ok.par q hq
      have hqp : q ≠ p := by
        intro e'; subst e'
        obtain ⟨kc, hkc, he⟩ := List.mem_map.mp c
        exact (ok.kids kc hkc).2.1 he
      obtain ⟨g1, g2, _⟩ := hfld q
      exact ⟨by rw [hsize]; exact a, by rw [g1]; exact b, by rw [hcm q hqp]; exact c, fun hd => Or.inl (by rw [g2]; exact e (by rw [← f2]; exact hd))⟩
  · have hkids : ∀ kc ∈ h.childMap p, (kc.2 : Nat) < (attachObj h n value k).size ∧ (kc.2 : Nat) ≠ p ∧
        ((attachObj h n value k).get kc.2).parent = some p ∧ PosOK (attachObj h n value k) p kc := by
      intro kc hkc
      obtain ⟨a, b, c, e⟩ := ok.kids kc hkc
      have hkv := hnokid p hp kc hkc
      obtain ⟨g1, _, g3, _, _, g6⟩ := hfld kc.2
      refine ⟨by rw [hsize]; exact a, b, by rw [(g6 hkv).1]; exact c, ?_⟩
      unfold PosOK at e ⊢; rw [f1, g3, (g6 hkv).2]; exact e
    have hshape : if ((attachObj h n value k).get p).type.isContainer = true then ((attachObj h n value k).get p).children.isSome = true
        else (attachObj h n value k).childMap p = [] := by
      rw [hcm p hpn, f1]
      have := ok.shape
      by_cases hc : (h.get p).type.isContainer = true
      · simp only [hc, if_true] at this ⊢
        rw [hget p]; simp only [hpn, if_false]
        split
        · rename_i e; subst e; exact this
        · exact this
      · simp only [hc, Bool.false_eq_true, if_false] at this ⊢; exact this
    have hclean : p ≠ n → ((attachObj h n value k).get p).dirty = false → ((attachObj h n value k).get p).data.isSome = true ∧
        ((attachObj h n value k).get p).b1 ≠ 0 ∧ ∀ kc ∈ (attachObj h n value k).childMap p, ((attachObj h n value k).get kc.2).dirty = false := by
      intro _ hcl
      rw [f2] at hcl
      obtain ⟨a, b, c⟩ := ok.clean hcl
      refine ⟨by rw [f4]; exact a, by rw [f5]; exact b, ?_⟩
      intro kc hkc
      rw [hcm p hpn] at hkc
      rw [(hfld kc.2).2.1]; exact c kc hkc
    refine ⟨by rw [hcm p hpn]; exact hkids, by rw [hcm p hpn]; exact ok.nodup, by rw [hcm p hpn, f1]; exact ok.dense, hshape, ?_, hclean⟩
    intro q hq
    by_cases hpv : p = value
    · subst hpv
      rw [hvrec.1] at hq
      cases hq
      refine ⟨by rw [hsize]; exact hn, by rw [(hfld n).1, hobj]; rfl, ?_, fun _ => Or.inr rfl⟩
      rw [hcmn]; simp [ChildMap.vals]
    · rw [(f6 hpv).1] at hq
      obtain ⟨a, b, c, e⟩ := ok.par q hq
      obtain ⟨g1, g2, _⟩ := hfld q
      refine ⟨by rw [hsize]; exact a, by rw [g1]; exact b, ?_, fun hd => Or.inl (by rw [g2]; exact e (by rw [← f2]; exact hd))⟩
      by_cases hqn : q = n
      · subst hqn
        rw [hcmn]; simp only [ChildMap.vals, List.map_append, List.mem_append]
        left; exact c
      · rw [hcm q hqn]; exact c

theorem modify_congr (h : Heap) (n : Id) (f g : NodeRec → NodeRec) (hfg : f (h.get n) = g (h.get n)) : h.modify n f = h.modify n g := by
  rw [modify_eq, modify_eq, hfg]

/-- **AppendObject of a detached node under a new key preserves the invariant** -/
theorem struct_appendObject_fresh {h : Heap} (hs : Struct h) (n value : Nat) (hn : n < h.size) (hv : value < h.size)
    (hobj : (h.get n).type = .object) (hloop : h.isParentOrSelfNode n value = false) (hroot : (h.get value).parent = none)
    (k : Bytes) (hfresh : (h.childMap n).lookup k = none) :
    Struct (h.appendObject n k value).1 ∧ (h.appendObject n k value).2 = .ok () := by
  have hvn : value ≠ n := by
    intro e; subst e
    simp [isParentOrSelfNode] at hloop
  have hio : h.isObject n = true := by simp [isObject, typeOf, hobj]
  obtain ⟨m, hm⟩ := Option.isSome_iff_exists.mp (by have := (hs n hn).shape; rw [hobj] at this; simpa [NType.isContainer] using this)
  have e : h.appendNode n (some k) value = (attachObj h n value k, .ok ()) := by
    unfold Heap.appendNode
    simp only [hloop, Bool.false_eq_true, if_false, hroot]
    have hcm3 : ((h.modify value (fun r => { r with parent := some n, key := some k })).modify n (fun r => { r with cache := none })).childMap n
        = h.childMap n := by
      unfold childMap
      rw [get_modify]; simp only [size_modify, hn, and_self, if_true]
      rw [get_modify_other _ _ _ _ (Ne.symm hvn)]
    have hch3 : (((h.modify value (fun r => { r with parent := some n, key := some k })).modify n (fun r => { r with cache := none })).get n).children
        = some m := by
      rw [get_modify]; simp only [size_modify, hn, and_self, if_true]
      rw [get_modify_other _ _ _ _ (Ne.symm hvn)]; exact hm
    simp only [hcm3, hfresh, hch3]
    unfold attachObj
    congr 1
    apply modify_congr
    simp only [hch3, Option.getD_some]
  have hsb := struct_attachObj hs n value hn hv hvn hroot hobj k hfresh
  unfold Heap.appendObject
  simp only [hio, Bool.not_true, Bool.false_eq_true, if_false, e]
  exact ⟨hsb.mark (by simp [attachObj]; exact hn), trivial⟩
