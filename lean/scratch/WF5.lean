import Ajson.Proofs.WFInv
namespace Ajson.Proofs
open Ajson Ajson.Heap

theorem nodup_subset_length {α : Type} [DecidableEq α] : ∀ (l1 l2 : List α), l1.Nodup → (∀ x ∈ l1, x ∈ l2) → l1.length ≤ l2.length
  | [], _, _, _ => Nat.zero_le _
  | a :: t, l2, hn, hs => by
    have ha : a ∈ l2 := hs a (by simp)
    have hnt := (List.nodup_cons.mp hn)
    have hsub : ∀ x ∈ t, x ∈ l2.erase a := by
      intro x hx
      have hxa : x ≠ a := by intro e; subst e; exact hnt.1 hx
      exact (List.mem_erase_of_ne hxa).mpr (hs x (by simp [hx]))
    have := nodup_subset_length t (l2.erase a) hnt.2 hsub
    rw [List.length_erase_of_mem ha] at this
    have hpos : 0 < l2.length := List.length_pos_of_mem ha
    simp only [List.length_cons]; omega

theorem range_itoa_nodup (n : Nat) : ((List.range n).map itoa).Nodup := by
  induction n with
  | zero => simp
  | succ n ih =>
    rw [List.range_succ, List.map_append, List.nodup_append]
    refine ⟨ih, by simp, ?_⟩
    intro a ha b hb e
    obtain ⟨i, hi, he⟩ := List.mem_map.mp ha
    have hb' : b = itoa n := by simpa using hb
    subst he; subst hb'
    have := itoa_inj e
    simp at hi; omega

/-- in a map whose keys cover "0" … "len-1" the next index is a fresh key -/
theorem array_next_fresh (m : ChildMap) (hdense : ∀ i : Nat, i < m.length → (m.lookup (itoa i)).isSome = true) :
    m.lookup (itoa m.length) = none := by
  cases hl : m.lookup (itoa m.length) with
  | none => rfl
  | some c =>
    exfalso
    have hsub : ∀ x ∈ (List.range (m.length + 1)).map itoa, x ∈ m.keys := by
      intro x hx
      obtain ⟨i, hi, he⟩ := List.mem_map.mp hx
      have hi' : i < m.length + 1 := List.mem_range.mp hi
      subst he
      by_cases hlt : i < m.length
      · obtain ⟨c', hc'⟩ := Option.isSome_iff_exists.mp (hdense i hlt)
        exact mem_keys_of_lookup _ _ _ hc'
      · have : i = m.length := by omega
        rw [this]; exact mem_keys_of_lookup _ _ _ hl
    have := nodup_subset_length _ _ (range_itoa_nodup _) hsub
    simp [ChildMap.keys] at this
    omega

/-- `appendNode(nil, value)` on an array once `value` is detached -/
def attachArr (h : Heap) (n value : Id) : Heap :=
  (((h.modify value (fun r => { r with parent := some n, key := none })).modify n (fun r => { r with cache := none })).modify value
    (fun r => { r with index := some (h.childMap n).length })).modify n
    (fun r => { r with children := some ((r.children.getD []).insert (itoa (h.childMap n).length) value) })

theorem struct_attachArr {h : Heap} (n value : Nat) (hs : StructBut h n) (hn : n < h.size) (hv : value < h.size) (hvn : value ≠ n)
    (hroot : (h.get value).parent = none) (harr : (h.get n).type = .array) : StructBut (attachArr h n value) n := by
  have okn := hs n hn
  have hfresh := array_next_fresh (h.childMap n) (okn.dense harr)
  have hget : ∀ m : Nat, (attachArr h n value).get m =
      if m = n then { h.get n with cache := none, children := some ((h.childMap n).insert (itoa (h.childMap n).length) value) }
      else if m = value then { h.get value with parent := some n, key := none, index := some (h.childMap n).length } else h.get m := by
    intro m
    unfold attachArr
    by_cases hmn : m = n
    · subst hmn
      rw [get_modify]; simp only [size_modify, hn, and_self, if_true]
      rw [get_modify_other _ _ _ _ (Ne.symm hvn)]
      rw [get_modify]; simp only [size_modify, hn, and_self, if_true]
      rw [get_modify_other _ _ _ _ (Ne.symm hvn)]
      simp [childMap]
    · rw [get_modify_other _ _ _ _ hmn]
      simp only [hmn, if_false]
      by_cases hmv : m = value
      · subst hmv
        rw [get_modify]; simp only [size_modify, hv, and_self, if_true]
        rw [get_modify_other _ _ _ _ hmn]
        rw [get_modify]; simp [hv]
      · rw [get_modify_other _ _ _ _ hmv, get_modify_other _ _ _ _ hmn, get_modify_other _ _ _ _ hmv]; simp [hmv]
  have hsize : (attachArr h n value).size = h.size := by simp [attachArr]
  have hcmn : (attachArr h n value).childMap n = h.childMap n ++ [(itoa (h.childMap n).length, (value : Id))] := by
    unfold childMap; rw [hget n]; simp only [if_true, Option.getD_some]
    exact insert_fresh _ _ _ hfresh
  have hcm : ∀ m : Nat, m ≠ n → (attachArr h n value).childMap m = h.childMap m := by
    intro m hm
    unfold childMap; rw [hget m]; simp only [hm, if_false]
    split
    · rename_i e; rw [e]
    · rfl
  have hfld : ∀ m : Nat, ((attachArr h n value).get m).type = (h.get m).type ∧ ((attachArr h n value).get m).dirty = (h.get m).dirty ∧
      ((attachArr h n value).get m).data = (h.get m).data ∧ ((attachArr h n value).get m).b1 = (h.get m).b1 ∧
      (m ≠ value → ((attachArr h n value).get m).parent = (h.get m).parent ∧ ((attachArr h n value).get m).key = (h.get m).key ∧
        ((attachArr h n value).get m).index = (h.get m).index) := by
    intro m
    rw [hget m]
    split
    · rename_i e; subst e; simp
    · split
      · rename_i e; subst e; simp
      · simp
  have hvrec : ((attachArr h n value).get value).parent = some n ∧ ((attachArr h n value).get value).index = some (h.childMap n).length := by
    rw [hget value]; simp [hvn]
  have hnokid : ∀ p : Nat, p < h.size → ∀ kc ∈ h.childMap p, (kc.2 : Nat) ≠ value := by
    intro p hp kc hkc e
    have := ((hs p hp).kids kc hkc).2.2.1
    rw [e, hroot] at this; cases this
  intro p hp
  rw [hsize] at hp
  have ok := hs p hp
  obtain ⟨f1, f2, f4, f5, f6⟩ := hfld p
  have hkidsOld : ∀ kc ∈ h.childMap p, (kc.2 : Nat) < (attachArr h n value).size ∧ (kc.2 : Nat) ≠ p ∧
      ((attachArr h n value).get kc.2).parent = some p ∧ PosOK (attachArr h n value) p kc := by
    intro kc hkc
    obtain ⟨a, b, c, e⟩ := ok.kids kc hkc
    have hkv := hnokid p hp kc hkc
    obtain ⟨g1, _, _, _, g6⟩ := hfld kc.2
    refine ⟨by rw [hsize]; exact a, b, by rw [(g6 hkv).1]; exact c, ?_⟩
    unfold PosOK at e ⊢; rw [f1, (g6 hkv).2.1, (g6 hkv).2.2]; exact e
  by_cases hpn : p = n
  · subst hpn
    refine ⟨?_, ?_, ?_, ?_, ?_, fun hne => absurd rfl hne⟩
    · intro kc hkc
      rw [hcmn, List.mem_append] at hkc
      rcases hkc with hkc | hkc
      · exact hkidsOld kc hkc
      · have : kc = (itoa (h.childMap p).length, (value : Id)) := by simpa using hkc
        subst this
        refine ⟨by rw [hsize]; exact hv, hvn, hvrec.1, ?_⟩
        unfold PosOK; rw [f1, harr]; simp [hvrec.2]
    · rw [hcmn]
      simp only [ChildMap.keys, List.map_append, List.map_cons, List.map_nil]
      rw [List.nodup_append]
      refine ⟨ok.nodup, by simp, ?_⟩
      intro a ha b hb
      have : b = itoa (h.childMap p).length := by simpa using hb
      subst this
      intro e; subst e
      exact not_mem_keys_of_lookup_none _ _ hfresh ha
    · intro _ i hi
      rw [hcmn] at hi ⊢
      simp only [List.length_append, List.length_cons, List.length_nil] at hi
      rw [lookup_append_single]
      by_cases hlt : i < (h.childMap p).length
      · obtain ⟨c, hc⟩ := Option.isSome_iff_exists.mp (ok.dense harr i hlt)
        rw [hc]; rfl
      · have : i = (h.childMap p).length := by omega
        subst this
        rw [hfresh]; simp
    · rw [f1, harr]; simp only [NType.isContainer, if_true]
      rw [hget p]; simp
    · intro q hq
      rw [(f6 (Ne.symm hvn)).1] at hq
      obtain ⟨a, b, c, e⟩ := ok.par q hq
      have hqp : q ≠ p := by
        intro e'; subst e'
        obtain ⟨kc, hkc, he⟩ := List.mem_map.mp c
        exact (ok.kids kc hkc).2.1 he
      obtain ⟨g1, g2, _⟩ := hfld q
      exact ⟨by rw [hsize]; exact a, by rw [g1]; exact b, by rw [hcm q hqp]; exact c, fun hd => by rw [g2]; exact e (by rw [← f2]; exact hd)⟩
  · have hshape : if ((attachArr h n value).get p).type.isContainer = true then ((attachArr h n value).get p).children.isSome = true
        else (attachArr h n value).childMap p = [] := by
      rw [hcm p hpn, f1]
      have := ok.shape
      by_cases hc : (h.get p).type.isContainer = true
      · simp only [hc, if_true] at this ⊢
        rw [hget p]; simp only [hpn, if_false]
        split
        · rename_i e; subst e; exact this
        · exact this
      · simp only [hc, Bool.false_eq_true, if_false] at this ⊢; exact this
    have hclean : p ≠ n → ((attachArr h n value).get p).dirty = false → ((attachArr h n value).get p).data.isSome = true ∧
        ((attachArr h n value).get p).b1 ≠ 0 ∧ ∀ kc ∈ (attachArr h n value).childMap p, ((attachArr h n value).get kc.2).dirty = false := by
      intro _ hcl
      rw [f2] at hcl
      obtain ⟨a, b, c⟩ := ok.clean hpn hcl
      refine ⟨by rw [f4]; exact a, by rw [f5]; exact b, ?_⟩
      intro kc hkc
      rw [hcm p hpn] at hkc
      rw [(hfld kc.2).2.1]; exact c kc hkc
    refine ⟨by rw [hcm p hpn]; exact hkidsOld, by rw [hcm p hpn]; exact ok.nodup, by rw [hcm p hpn, f1]; exact ok.dense, hshape, ?_, hclean⟩
    intro q hq
    by_cases hpv : p = value
    · subst hpv
      rw [hvrec.1] at hq
      cases hq
      refine ⟨by rw [hsize]; exact hn, by rw [(hfld n).1, harr]; rfl, ?_, fun _ => Or.inr rfl⟩
      rw [hcmn]; simp [ChildMap.vals]
    · rw [(f6 hpv).1] at hq
      obtain ⟨a, b, c, e⟩ := ok.par q hq
      obtain ⟨g1, g2, _⟩ := hfld q
      refine ⟨by rw [hsize]; exact a, by rw [g1]; exact b, ?_, fun hd => by rw [g2]; exact e (by rw [← f2]; exact hd)⟩
      by_cases hqn : q = n
      · subst hqn
        rw [hcmn]; simp only [ChildMap.vals, List.map_append, List.mem_append]
        left; exact c
      · rw [hcm q hqn]; exact c

/-- **AppendArray of a detached node preserves the invariant** -/
theorem struct_appendArray_one {h : Heap} (hs : Struct h) (n value : Nat) (hn : n < h.size) (hv : value < h.size)
    (harr : (h.get n).type = .array) (hloop : h.isParentOrSelfNode n value = false) (hroot : (h.get value).parent = none) :
    Struct (h.appendArray n [value]).1 ∧ (h.appendArray n [value]).2 = .ok () := by
  have hvn : value ≠ n := by
    intro e; subst e
    simp [isParentOrSelfNode] at hloop
  have hia : h.isArray n = true := by simp [isArray, typeOf, harr]
  obtain ⟨m, hm⟩ := Option.isSome_iff_exists.mp (by have := (hs n hn).shape; rw [harr] at this; simpa [NType.isContainer] using this)
  have hlen : m.length = (h.childMap n).length := by unfold childMap; rw [hm]; rfl
  have e : h.appendNode n none value = (attachArr h n value, .ok ()) := by
    unfold Heap.appendNode
    simp only [hloop, Bool.false_eq_true, if_false, hroot]
    have hch3 : (((h.modify value (fun r => { r with parent := some n, key := none })).modify n (fun r => { r with cache := none })).get n).children
        = some m := by
      rw [get_modify]; simp only [size_modify, hn, and_self, if_true]
      rw [get_modify_other _ _ _ _ (Ne.symm hvn)]; exact hm
    simp only [hch3]
    unfold attachArr
    rw [hlen]
    congr 1
    apply modify_congr
    have : (((((h.modify value (fun r => { r with parent := some n, key := none })).modify n (fun r => { r with cache := none })).modify value
        (fun r => { r with index := some (h.childMap n).length })).get n).children) = some m := by
      rw [get_modify_other _ _ _ _ (Ne.symm hvn)]; exact hch3
    simp only [this, Option.getD_some]
  have hsb := struct_attachArr n value (hs.toBut n) hn hv hvn hroot harr
  have hany : ([value].any (fun c => h.isParentOrSelfNode n c)) = false := by simp [hloop]
  unfold Heap.appendArray
  simp only [hia, Bool.not_true, Bool.false_eq_true, if_false, hany, List.map_cons, List.map_nil, Heap.appendAll, e]
  exact ⟨hsb.mark (by simp [attachArr]; exact hn), trivial⟩
