package ajson

import (
	"sort"
	"testing"
)

// History: parse a document, fetch the element list of an array with the public accessor
// GetArray/MustArray, sort the list the caller received (a plain Go slice in the caller's hands),
// then evaluate a wildcard / descent path. The selectors must still designate the document's own
// elements in array order, and must agree with the index / slice / union selectors.
func TestSeedDemo(t *testing.T) {
	root := Must(Unmarshal([]byte(`{"a":[[3],[1],[2]]}`)))
	arr := root.MustKey("a")
	want := []*Node{arr.MustIndex(0), arr.MustIndex(1), arr.MustIndex(2)}

	list := arr.MustArray() // caller's copy of the element list
	sort.Slice(list, func(i, j int) bool {
		return list[i].MustIndex(0).MustNumeric() < list[j].MustIndex(0).MustNumeric()
	})

	for _, path := range []string{"$.a[0,1,2]", "$.a[0:]", "$.a[*]", "$.a.*", "$.a..", "$..[0]"} {
		got, err := root.JSONPath(path)
		if err != nil {
			t.Fatalf("%s: unexpected error: %v", path, err)
		}
		var expected []*Node
		switch path {
		case "$.a..":
			expected = append([]*Node{arr}, want...)
		case "$..[0]":
			// incoming: root, a, a[0], a[1], a[2] -> a[0], 3, 1, 2
			expected = []*Node{want[0], want[0].MustIndex(0), want[1].MustIndex(0), want[2].MustIndex(0)}
		default:
			expected = want
		}
		if len(got) != len(expected) {
			t.Fatalf("%s: expected %d nodes, got %d: %v", path, len(expected), len(got), Paths(got))
		}
		for i := range expected {
			if got[i] != expected[i] {
				t.Errorf("%s: result[%d]: expected node %s (%s), got %s (%s)",
					path, i, expected[i].Path(), expected[i], got[i].Path(), got[i])
			}
		}
	}
}
