package ajson

import "testing"

// C13: a JSONPath query must not change the document.
//
// History: parse a document, read the value of $.arr (an array of three objects), run the pure
// query `$.arr[0:1]..y` (slice of one array followed by a recursive descent), read the value again.
func TestSeedDemo(t *testing.T) {
	root := Must(Unmarshal([]byte(`{"arr":[{"x":{"y":1}},{"z":2},{"w":3}]}`)))
	arr := root.MustKey("arr")

	before := append([]*Node(nil), arr.MustArray()...) // a copy of the element list
	twin := arr.Clone()
	if ok, err := arr.Eq(twin); err != nil || !ok {
		t.Fatalf("before the query: arr.Eq(clone) = %v, %v", ok, err)
	}
	firstRead, err := root.JSONPath("$.arr[0:2]")
	if err != nil || len(firstRead) != 2 {
		t.Fatalf("$.arr[0:2]: %v, %v", firstRead, err)
	}
	firstRead = append([]*Node(nil), firstRead...)

	found, err := root.JSONPath("$.arr[0:1]..y")
	if err != nil {
		t.Fatalf("query failed: %s", err)
	}
	if len(found) != 1 || found[0].String() != "1" {
		t.Fatalf("query result: %v", found)
	}

	after := arr.MustArray()
	if len(after) != len(before) {
		t.Fatalf("len(Value) changed: %d -> %d", len(before), len(after))
	}
	for i := range before {
		if after[i] != before[i] {
			t.Errorf("value of $.arr changed by the query: element %d was %s (%s), now %s (%s)",
				i, before[i], before[i].Path(), after[i], after[i].Path())
		}
	}
	if ok, err := arr.Eq(twin); err != nil || !ok {
		t.Errorf("after the query: arr.Eq(clone made before the query) = %v, %v; expected true", ok, err)
	}
	secondRead, err := root.JSONPath("$.arr[0:2]")
	if err != nil || len(secondRead) != 2 {
		t.Fatalf("second $.arr[0:2]: %v, %v", secondRead, err)
	}
	for i := range firstRead {
		if firstRead[i] != secondRead[i] {
			t.Errorf("$.arr[0:2] element %d: first read %s, after the query %s", i, firstRead[i], secondRead[i])
		}
	}
}
