#!/bin/bash
# usage: tools/adopt_seed.sh <worktree> <id> <name> [check ids...]
# copies patch.diff + zz_seed_demo_test.go from a seeding worktree into /verif/seeded/<name> and tries it.
set -u
wt=$1; id=$2; name=$3; shift 3
d=/verif/seeded/$name
mkdir -p $d
(cd $wt && git diff -- . ':!zz_seed_demo_test.go' ':!patch.diff') > $d/patch.diff
cp $wt/zz_seed_demo_test.go $d/demo_test.go
[ -f $d/meta.json ] || echo "{\"property\": \"$id\", \"round\": 2}" > $d/meta.json
/verif/tools/try_seed.sh $d ${@:-$id}
