#!/bin/bash
# usage: [JOBS=n] tools/all_seeds.sh [pattern]   — tries every seeded change (or those matching pattern) against the check of its
# property and prints one line per seed: CAUGHT (a VIOLATION with a concrete replay), WEAK (VIOLATION … no-failing-input-found) or MISSED.
cd /verif
one() {
  d=$1; name=$(basename $d); prop=${name:0:3}
  out=$(tools/try_seed.sh /verif/$d $prop 2>&1)
  if echo "$out" | grep -q "no-failing-input-found"; then r=WEAK
  elif echo "$out" | grep -q "VIOLATION property=$prop"; then r=CAUGHT
  else r=MISSED; fi
  echo "$name $r"
}
export -f one
ls -d seeded/${1:-*} | xargs -P ${JOBS:-1} -I{} bash -c 'one {}'
