#!/bin/bash
# usage: tools/coverage.sh   — statement coverage of the library (package ajson and internal) under the quick streams of the harness.
# Writes nothing into /verif except a test file that is removed again; the profile goes to a temporary directory.
set -eu
export GOFLAGS=-mod=mod GOPROXY=off GOSUMDB=off GOTOOLCHAIN=local
out=$(mktemp -d)
trap 'rm -rf "$out" /verif/harness/zz_cov_test.go' EXIT
cat > /verif/harness/zz_cov_test.go <<'EOT'
package main

import (
	"os"
	"testing"
	"time"
)

func TestCov(t *testing.T) {
	dir, _ := os.MkdirTemp("", "cov")
	defer os.RemoveAll(dir)
	for _, name := range []string{"decode", "lex", "heap", "scan", "path", "userop"} {
		o := NewOut(dir, name, 1, "quick")
		streams[name](o, NewRng(1).Fork(hashName(name)), "quick")
		o.Close(dir, time.Now())
	}
}
EOT
cp /repo/go.sum /verif/harness/go.sum 2>/dev/null || true
cd /verif/harness
go test -tags verif -count=1 -run TestCov -coverpkg=github.com/spyzhov/ajson,github.com/spyzhov/ajson/internal -coverprofile="$out/c.out" . | tail -1
echo "least covered functions:"
go tool cover -func="$out/c.out" | awk '{print $NF, $1, $2}' | sort -n | head -25
