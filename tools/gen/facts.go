package main

// genFacts writes the syntactic effect facts (write sites, struct copies of atomic cells, byte-level
// writes) used by C12, C13 and C18. Implemented in facts_impl.go.
func genFacts(p *pkgInfo, out string) { genFactsImpl(p, out) }
