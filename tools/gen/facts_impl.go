package main

import (
	"fmt"
	"go/ast"
	"go/token"
	"go/types"
	"path/filepath"
	"sort"
	"strings"
)

// genFactsImpl extracts, for every function of package ajson (methods as Type.Name, function literals
// of the registry maps as functions[name] / operations[name]):
//   - writes to fields of Node values (assignments, map writes, delete, whole-struct stores) with the
//     syntactic origin of the written node,
//   - calls of atomic.Value methods (Load / Store) and plain copies of a value that contains an atomic.Value,
//   - byte-level writes (indexed store, copy, append) with the syntactic root of the destination,
//   - static call edges.
// These are facts about syntax; the Lean theorems over them are in Props/C12, C13, C18.
func genFactsImpl(p *pkgInfo, out string) {
	type write struct{ fn, field, origin string }
	type bwrite struct{ fn, kind, root string }
	type edge struct{ from, to string }
	var writes []write
	var bwrites []bwrite
	var edges []edge
	var atomics []write // fn, what ("Load","Store","copy"), detail
	var argFacts []write
	var gwrites []write // fn, kind (assign / index / delete / field / incdec), name of the package-level variable

	// the package-level variable an expression is rooted in ("" when it is not)
	var globalRoot func(e ast.Expr) string
	globalRoot = func(e ast.Expr) string {
		switch x := e.(type) {
		case *ast.Ident:
			if v, ok := p.info.Uses[x].(*types.Var); ok && v.Pkg() == p.pkg && v.Parent() == p.pkg.Scope() {
				return x.Name
			}
		case *ast.ParenExpr:
			return globalRoot(x.X)
		case *ast.StarExpr:
			return globalRoot(x.X)
		}
		return ""
	}

	nodeType := p.pkg.Scope().Lookup("Node").Type()
	isNode := func(t types.Type) bool {
		if t == nil {
			return false
		}
		if ptr, ok := t.(*types.Pointer); ok {
			t = ptr.Elem()
		}
		return types.Identical(t, nodeType)
	}
	isBytes := func(t types.Type) bool {
		if t == nil {
			return false
		}
		s, ok := t.Underlying().(*types.Slice)
		if !ok {
			return false
		}
		b, ok := s.Elem().Underlying().(*types.Basic)
		return ok && b.Kind() == types.Byte
	}
	containsAtomic := func(t types.Type) bool {
		if t == nil {
			return false
		}
		st, ok := t.Underlying().(*types.Struct)
		if !ok {
			return false
		}
		for i := 0; i < st.NumFields(); i++ {
			if strings.HasSuffix(st.Field(i).Type().String(), "sync/atomic.Value") {
				return true
			}
		}
		return false
	}

	// origin of an expression denoting a node or a byte slice inside function body fb
	var originOf func(e ast.Expr, fd ast.Node, params map[string]bool) string
	originOf = func(e ast.Expr, fd ast.Node, params map[string]bool) string {
		switch x := e.(type) {
		case *ast.ParenExpr:
			return originOf(x.X, fd, params)
		case *ast.StarExpr:
			return originOf(x.X, fd, params)
		case *ast.Ident:
			if params[x.Name] {
				return "param:" + x.Name
			}
			// find the defining statement in the function
			def := ""
			ast.Inspect(fd, func(n ast.Node) bool {
				switch s := n.(type) {
				case *ast.AssignStmt:
					for i, l := range s.Lhs {
						if id, ok := l.(*ast.Ident); ok && id.Name == x.Name && (s.Tok == token.DEFINE || def == "") {
							var r ast.Expr
							if len(s.Rhs) == len(s.Lhs) {
								r = s.Rhs[i]
							} else if len(s.Rhs) == 1 {
								r = s.Rhs[0]
							}
							if r != nil {
								d := classifyInit(p, r)
								if s.Tok == token.DEFINE || def == "" {
									if def == "" || s.Tok == token.DEFINE {
										def = d
									}
								}
							}
						}
					}
				case *ast.ValueSpec:
					for i, id := range s.Names {
						if id.Name == x.Name {
							if i < len(s.Values) {
								def = classifyInit(p, s.Values[i])
							} else {
								def = "zero"
							}
						}
					}
				case *ast.RangeStmt:
					for _, v := range []ast.Expr{s.Key, s.Value} {
						if id, ok := v.(*ast.Ident); ok && id.Name == x.Name {
							def = "range:" + strings.Join(strings.Fields(exprText(p, s.X)), "")
						}
					}
				}
				return true
			})
			if def == "" {
				if obj := p.info.Uses[x]; obj != nil && obj.Parent() == p.pkg.Scope() {
					return "global:" + x.Name
				}
				// named results and receivers
				return "result-or-receiver:" + x.Name
			}
			return def
		case *ast.SelectorExpr:
			return "field:" + strings.Join(strings.Fields(exprText(p, x)), "")
		case *ast.IndexExpr:
			return "elem:" + originOf(x.X, fd, params)
		case *ast.SliceExpr:
			return "slice-of:" + originOf(x.X, fd, params)
		case *ast.CallExpr:
			return classifyInit(p, x)
		}
		return "other"
	}

	visit := func(name string, body *ast.BlockStmt, ftype *ast.FuncType, recv *ast.FieldList) {
		if body == nil {
			return
		}
		params := map[string]bool{}
		for _, fl := range []*ast.FieldList{ftype.Params, recv} {
			if fl == nil {
				continue
			}
			for _, f := range fl.List {
				for _, n := range f.Names {
					params[n.Name] = true
				}
			}
		}
		recordAssign := func(lhs ast.Expr, rhs ast.Expr) {
			// writes to package-level state: the variable itself, an entry of a package-level map/slice, a field of a package-level struct
			switch l := lhs.(type) {
			case *ast.Ident:
				if g := globalRoot(l); g != "" {
					gwrites = append(gwrites, write{name, "assign", g})
				}
			case *ast.IndexExpr:
				if g := globalRoot(l.X); g != "" {
					gwrites = append(gwrites, write{name, "index", g})
				}
			case *ast.SelectorExpr:
				if g := globalRoot(l.X); g != "" {
					gwrites = append(gwrites, write{name, "field", g})
				}
			}
			switch l := lhs.(type) {
			case *ast.SelectorExpr:
				if isNode(p.info.TypeOf(l.X)) {
					writes = append(writes, write{name, l.Sel.Name, originOf(l.X, body, params)})
				}
			case *ast.IndexExpr:
				// node.children[k] = v   /  bytes[i] = c  /  node.borders[1] = x
				if sel, ok := l.X.(*ast.SelectorExpr); ok && isNode(p.info.TypeOf(sel.X)) {
					writes = append(writes, write{name, sel.Sel.Name + "[]", originOf(sel.X, body, params)})
				} else if isBytes(p.info.TypeOf(l.X)) {
					bwrites = append(bwrites, bwrite{name, "store", originOf(l.X, body, params)})
				}
			case *ast.StarExpr:
				if isNode(p.info.TypeOf(l.X)) {
					writes = append(writes, write{name, "*", originOf(l.X, body, params)})
					atomics = append(atomics, write{name, "copy", "*" + exprText(p, l.X) + " = " + strings.Join(strings.Fields(exprText(p, rhs)), "")})
				}
			}
		}
		ast.Inspect(body, func(n ast.Node) bool {
			switch s := n.(type) {
			case *ast.FuncLit:
				return true // closures belong to the enclosing function
			case *ast.AssignStmt:
				for i, l := range s.Lhs {
					var r ast.Expr
					if len(s.Rhs) == len(s.Lhs) {
						r = s.Rhs[i]
					} else if len(s.Rhs) > 0 {
						r = s.Rhs[0]
					}
					recordAssign(l, r)
					// plain copy of a struct holding an atomic.Value on the right-hand side
					if r != nil {
						if sel, ok := r.(*ast.SelectorExpr); ok && strings.HasSuffix(fmt.Sprint(p.info.TypeOf(sel)), "sync/atomic.Value") {
							atomics = append(atomics, write{name, "copy", strings.Join(strings.Fields(exprText(p, s)), "")})
						}
					}
				}
			case *ast.IncDecStmt:
				recordAssign(s.X, nil)
			case *ast.KeyValueExpr:
				// composite literal field `value: n.value`
				if id, ok := s.Key.(*ast.Ident); ok && id.Name == "value" {
					if strings.HasSuffix(fmt.Sprint(p.info.TypeOf(s.Value)), "sync/atomic.Value") {
						atomics = append(atomics, write{name, "copy", strings.Join(strings.Fields(exprText(p, s)), "")})
					}
				}
			case *ast.CallExpr:
				switch f := s.Fun.(type) {
				case *ast.Ident:
					switch f.Name {
					case "delete":
						if len(s.Args) == 2 {
							if g := globalRoot(s.Args[0]); g != "" {
								gwrites = append(gwrites, write{name, "delete", g})
							}
							if sel, ok := s.Args[0].(*ast.SelectorExpr); ok && isNode(p.info.TypeOf(sel.X)) {
								writes = append(writes, write{name, sel.Sel.Name + "[]", originOf(sel.X, body, params)})
							}
						}
					case "copy":
						if len(s.Args) == 2 && isBytes(p.info.TypeOf(s.Args[0])) {
							bwrites = append(bwrites, bwrite{name, "copy", originOf(s.Args[0], body, params)})
						}
					case "append":
						if len(s.Args) >= 1 && isBytes(p.info.TypeOf(s.Args[0])) {
							bwrites = append(bwrites, bwrite{name, "append", originOf(s.Args[0], body, params)})
						}
					default:
						if obj := p.info.Uses[f]; obj != nil {
							if _, ok := obj.(*types.Func); ok && obj.Pkg() == p.pkg {
								edges = append(edges, edge{name, f.Name})
								if f.Name == "ArrayNode" || f.Name == "ObjectNode" {
									argFacts = append(argFacts, write{name, f.Name, strings.Join(strings.Fields(exprText(p, s.Args[len(s.Args)-1])), "")})
								}
							} else if v, ok := obj.(*types.Var); ok && v.Pkg() == p.pkg {
								// calling a function-typed variable (fn, op, randFunc …)
								edges = append(edges, edge{name, "var:" + f.Name})
							}
						}
					}
				case *ast.SelectorExpr:
					// a method called on package-level state (a pool, a mutex-less cache, a shared buffer or encoder …)
					if g := globalRoot(f.X); g != "" {
						if _, isSel := p.info.Selections[f]; isSel {
							gwrites = append(gwrites, write{name, "method:" + f.Sel.Name, g})
						}
					}
					if selInfo, ok := p.info.Selections[f]; ok {
						if fn, ok := selInfo.Obj().(*types.Func); ok {
							if fn.Pkg() == p.pkg {
								recv := selInfo.Recv()
								if ptr, ok := recv.(*types.Pointer); ok {
									recv = ptr.Elem()
								}
								tn := recv.String()
								tn = tn[strings.LastIndex(tn, ".")+1:]
								edges = append(edges, edge{name, tn + "." + fn.Name()})
							} else if strings.HasSuffix(fmt.Sprint(selInfo.Recv()), "sync/atomic.Value") {
								base := ""
								if inner, ok := f.X.(*ast.SelectorExpr); ok {
									base = originOf(inner.X, body, params)
								}
								atomics = append(atomics, write{name, fn.Name(), base})
							}
						}
					} else if id, ok := f.X.(*ast.Ident); ok && id.Name == "atomic" && strings.HasPrefix(f.Sel.Name, "Store") {
						// atomic.StoreInt32((*int32)(&n._type), …)
						writes = append(writes, write{name, "atomic." + f.Sel.Name, "call:" + strings.Join(strings.Fields(exprText(p, s.Args[0])), "")})
					}
				case *ast.IndexExpr:
					// functions["length"](element)
					if id, ok := f.X.(*ast.Ident); ok && (id.Name == "functions" || id.Name == "operations") {
						key := strings.Trim(exprText(p, f.Index), "\"")
						edges = append(edges, edge{name, id.Name + "[" + key + "]"})
					}
				}
			}
			return true
		})
	}

	for i, f := range p.files {
		_ = p.names[i]
		for _, d := range f.Decls {
			switch fd := d.(type) {
			case *ast.FuncDecl:
				name := fd.Name.Name
				if fd.Recv != nil && len(fd.Recv.List) == 1 {
					t := fd.Recv.List[0].Type
					if st, ok := t.(*ast.StarExpr); ok {
						t = st.X
					}
					if id, ok := t.(*ast.Ident); ok {
						name = id.Name + "." + name
					}
				}
				visit(name, fd.Body, fd.Type, fd.Recv)
			case *ast.GenDecl:
				if fd.Tok != token.VAR {
					continue
				}
				for _, s := range fd.Specs {
					vs := s.(*ast.ValueSpec)
					for vi, id := range vs.Names {
						if vi >= len(vs.Values) || (id.Name != "functions" && id.Name != "operations") {
							continue
						}
						cl, ok := vs.Values[vi].(*ast.CompositeLit)
						if !ok {
							continue
						}
						for _, e := range cl.Elts {
							kv := e.(*ast.KeyValueExpr)
							key := p.constString(kv.Key)
							fname := id.Name + "[" + key + "]"
							// the evaluator calls every registry member through fn / op
							edges = append(edges, edge{"var:fn", fname}, edge{"var:op", fname})
							switch v := kv.Value.(type) {
							case *ast.FuncLit:
								visit(fname, v.Body, v.Type, nil)
							case *ast.CallExpr:
								if cid, ok := v.Fun.(*ast.Ident); ok {
									edges = append(edges, edge{fname, cid.Name})
								}
							}
						}
					}
				}
			}
		}
	}
	// function literals returned by numericFunction
	_ = containsAtomic

	uniq := func(xs []string) []string {
		sort.Strings(xs)
		var out []string
		for i, x := range xs {
			if i == 0 || x != xs[i-1] {
				out = append(out, x)
			}
		}
		return out
	}
	l := newLean("all non-test files of package ajson (syntactic effect facts)")
	var ws, bs, es, as, gs []string
	for _, w := range writes {
		ws = append(ws, fmt.Sprintf("(%s, %s, %s)", leanStr(w.fn), leanStr(w.field), leanStr(w.origin)))
	}
	for _, b := range bwrites {
		bs = append(bs, fmt.Sprintf("(%s, %s, %s)", leanStr(b.fn), leanStr(b.kind), leanStr(b.root)))
	}
	for _, e := range edges {
		es = append(es, fmt.Sprintf("(%s, %s)", leanStr(e.from), leanStr(e.to)))
	}
	for _, a := range atomics {
		as = append(as, fmt.Sprintf("(%s, %s, %s)", leanStr(a.fn), leanStr(a.field), leanStr(a.origin)))
	}
	for _, a := range argFacts {
		gs = append(gs, fmt.Sprintf("(%s, %s, %s)", leanStr(a.fn), leanStr(a.field), leanStr(a.origin)))
	}
	emit := func(name, typ, doc string, xs []string) {
		xs = uniq(xs)
		l.printf("/-- %s -/\ndef %s : List (%s) := [\n", doc, name, typ)
		for i, x := range xs {
			l.printf("  %s%s\n", x, comma(i, len(xs)))
		}
		l.printf("]\n\n")
	}
	// function names get numbers so that the kernel decides reachability on naturals, not on strings
	nameSet := map[string]bool{}
	for _, e := range edges {
		nameSet[e.from], nameSet[e.to] = true, true
	}
	for _, w := range writes {
		nameSet[w.fn] = true
	}
	for _, a := range atomics {
		nameSet[a.fn] = true
	}
	for _, b := range bwrites {
		nameSet[b.fn] = true
	}
	for _, g := range gwrites {
		nameSet[g.fn] = true
	}
	var names []string
	for n := range nameSet {
		names = append(names, n)
	}
	sort.Strings(names)
	id := map[string]int{}
	for i, n := range names {
		id[n] = i
	}
	l.printf("/-- every function that occurs in the facts below; position = number -/\ndef funcNames : List String := [\n")
	for i, n := range names {
		l.printf("  %s%s -- %d\n", leanStr(n), comma(i, len(names)), i)
	}
	l.printf("]\n\n")
	var esN, wsN, asN []string
	for _, e := range edges {
		esN = append(esN, fmt.Sprintf("(%d, %d)", id[e.from], id[e.to]))
	}
	for _, w := range writes {
		wsN = append(wsN, fmt.Sprintf("(%d, %s, %s)", id[w.fn], leanStr(w.field), leanStr(w.origin)))
	}
	for _, a := range atomics {
		asN = append(asN, fmt.Sprintf("(%d, %s, %s)", id[a.fn], leanStr(a.field), leanStr(a.origin)))
	}
	emit("nodeWrites", "String × String × String", "(function, field of Node written, syntactic origin of the written node)", ws)
	emit("nodeWritesN", "Nat × String × String", "nodeWrites with the function by number", wsN)
	emit("byteWrites", "String × String × String", "(function, kind of byte-level write, syntactic root of the destination slice)", bs)
	emit("atomicUses", "String × String × String", "(function, Load / Store / copy of an atomic.Value, detail)", as)
	emit("atomicUsesN", "Nat × String × String", "atomicUses with the function by number", asN)
	emit("callEdges", "String × String", "static call edges (methods as Type.Name; registry members as functions[name]; calls through function-typed variables as var:name)", es)
	emit("callEdgesN", "Nat × Nat", "callEdges by number", esN)
	var gws []string
	for _, g := range gwrites {
		gws = append(gws, fmt.Sprintf("(%d, %s, %s, %s)", id[g.fn], leanStr(g.fn), leanStr(g.field), leanStr(g.origin)))
	}
	emit("globalWrites", "Nat × String × String × String", "(function number, function, assign / index / field / delete, package-level variable written)", gws)
	emit("constructorArgs", "String × String × String", "(caller, ArrayNode/ObjectNode, text of the node-list argument)", gs)
	l.finish(filepath.Join(out, "Effects.lean"))
}

func classifyInit(p *pkgInfo, r ast.Expr) string {
	switch x := r.(type) {
	case *ast.UnaryExpr:
		if x.Op == token.AND {
			if _, ok := x.X.(*ast.CompositeLit); ok {
				return "fresh:literal"
			}
		}
	case *ast.CompositeLit:
		return "fresh:literal"
	case *ast.CallExpr:
		switch f := x.Fun.(type) {
		case *ast.Ident:
			switch f.Name {
			case "make":
				return "fresh:make"
			case "append":
				return "append-of:" + strings.Join(strings.Fields(exprText(p, x.Args[0])), "")
			}
			return "call:" + f.Name
		case *ast.ArrayType:
			// []byte(s) conversion
			return "fresh:conversion"
		case *ast.SelectorExpr:
			return "call:" + strings.Join(strings.Fields(exprText(p, f)), "")
		case *ast.ParenExpr:
			return "conversion"
		}
		return "call"
	case *ast.Ident:
		if x.Name == "nil" {
			return "zero"
		}
		return "alias:" + x.Name
	case *ast.SelectorExpr:
		return "field:" + strings.Join(strings.Fields(exprText(p, x)), "")
	case *ast.SliceExpr:
		return "slice-of:" + strings.Join(strings.Fields(exprText(p, x.X)), "")
	case *ast.IndexExpr:
		return "elem:" + strings.Join(strings.Fields(exprText(p, x.X)), "")
	}
	return "other"
}
