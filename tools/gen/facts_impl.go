package main

func genFactsImpl(p *pkgInfo, out string) {}
