module ajsonverif/gen

go 1.23
