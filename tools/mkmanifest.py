#!/usr/bin/env python3
"""Writes /verif/MANIFEST.json from the table below (kept in one place so that it stays valid)."""
import json, os, sys
ROOT = os.path.dirname(os.path.dirname(os.path.abspath(__file__)))
sys.path.insert(0, os.path.join(ROOT, "checklib"))
from props import PROPS
from manifest_text import TEXT, NOT_APPLICABLE

props = [json.loads(l)["id"] for l in open(os.path.join(ROOT, "properties.jsonl"))]
checks = []
for p in props:
    if p not in PROPS or p not in TEXT:
        continue
    t = TEXT[p]
    checks.append({
        "property_id": p,
        "quick_cmd": f"./check {p} --tier quick",
        "thorough_cmd": f"./check {p} --tier thorough",
        "evidence_file": f"/verif/evidence/{p}.json",
        "replay_cmd_template": "./check replay {path}",
        "engine": "lean4-model+correspondence",
        "level_claimed": {"category": t.get("category", "proof"), "text": t["text"], "design_ref": t.get("design_ref", "DESIGN.md §5 " + p)},
        "level_note": t["note"],
        "technique": t["technique"],
    })
na = [{"property_id": p, "reason": NOT_APPLICABLE.get(p, "check not built yet (work in progress; see DESIGN.md §9)")} for p in props if p not in [c["property_id"] for c in checks]]
m = {
    "version": 1,
    "setup_cmd": "./check setup",
    "hooks": {
        "guard": "verif",
        "enable": "go build -tags verif (harness/go.mod replaces github.com/spyzhov/ajson with /repo)",
        "baseline_off_cmd": "cd /repo && go test -mod=mod -vet=off -count=1 ./...",
        "source_commits": ["ca8fa53", "2f42d85"],
        "add_only": True,
    },
    "engines": [{
        "name": "lean4-model+correspondence", "path": "/verif/check",
        "serves_properties": [c["property_id"] for c in checks],
        "kind_free_text": "Lean 4 theorems about an executable model (lean/Ajson), tables and registries regenerated from the Go source by tools/gen on every run, hand-written algorithms tied by differential correspondence streams (harness/ vs compiled Lean driver), property probes with independent Go oracles",
    }],
    "checks": checks,
    "not_applicable": na,
    "notes": "See DESIGN.md. Every check regenerates lean/Ajson/Gen from /repo, rebuilds and audits the property's theorems, runs the correspondence streams and the property probes, and writes evidence/<id>.json.",
}
json.dump(m, open(os.path.join(ROOT, "MANIFEST.json"), "w"), indent=1)
print("MANIFEST.json:", len(checks), "checks,", len(na), "not_applicable")
