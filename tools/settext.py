#!/usr/bin/env python3
"""Rewrite checklib/manifest_text.py from a python module + JSON overrides (safe, repr-based)."""
import sys, json, importlib.util
src, over = sys.argv[1], sys.argv[2]
spec = importlib.util.spec_from_file_location("mt", src); mt = importlib.util.module_from_spec(spec); spec.loader.exec_module(mt)
T = mt.TEXT
for pid, fields in json.load(open(over)).items():
    T[pid].update(fields)
out = "NOT_APPLICABLE = " + repr(mt.NOT_APPLICABLE) + "\nTEXT = {\n"
for k, v in T.items():
    out += f" {k!r}: dict(\n"
    for f, val in v.items():
        out += f"  {f}={val!r},\n"
    out += " ),\n"
out += "}\n"
open('/verif/checklib/manifest_text.py', 'w').write(out)
