#!/bin/bash
# usage: tools/try_seed.sh <seed-dir> <property> [more properties...]
# Applies <seed-dir>/patch.diff to /repo, confirms that the repository still builds and passes its own suite and
# that the demonstration fails, runs the quick checks of the given properties, and ALWAYS restores /repo.
set -u
seed=$1; shift
export GOFLAGS=-mod=mod GOPROXY=off GOSUMDB=off GOTOOLCHAIN=local
cd /repo || exit 2
if [ -n "$(git status --porcelain)" ]; then echo "/repo is not clean"; exit 2; fi
restore() { cd /repo && git checkout -- . && rm -f /repo/zz_seed_demo_test.go; }
trap restore EXIT
git apply "$seed/patch.diff" || { echo "patch does not apply"; exit 2; }
echo "== build + suite with the change"
go build ./... && go test -vet=off -count=1 ./... 2>&1 | tail -3
echo "== demo with the change (expected: FAIL)"
cp "$seed/demo_test.go" /repo/zz_seed_demo_test.go
if grep -q "race" "$seed/meta.json" 2>/dev/null && [ "${1:-}" = "C12" ]; then RACE=-race; else RACE=; fi
timeout 300 go test $RACE -vet=off -count=1 -run TestSeedDemo . 2>&1 | tail -4
rm -f /repo/zz_seed_demo_test.go
for p in "$@"; do
  echo "== ./check $p"
  (cd /verif && timeout 1500 ./check $p 2>&1 | grep -E "VIOLATION|KNOWN-FINDING|held on everything|framework error|Traceback" | head -6)
done
restore
trap - EXIT
echo "== demo on the restored tree (expected: ok)"
cp "$seed/demo_test.go" /repo/zz_seed_demo_test.go
go test $RACE -vet=off -count=1 -run TestSeedDemo . 2>&1 | tail -2
rm -f /repo/zz_seed_demo_test.go
git -C /repo status --short | head -3
