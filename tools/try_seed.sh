#!/bin/bash
# usage: tools/try_seed.sh <seed-dir (absolute)> <property> [more properties...]
# Applies <seed-dir>/patch.diff to a SCRATCH COPY of /repo's HEAD (never to /repo itself), confirms that the copy still builds
# and passes the repository's own suite and that the demonstration fails there, runs the quick checks of the given properties
# against the copy (VERIF_REPO), and removes the copy.
set -u
seed=$1; shift
export GOFLAGS=-mod=mod GOPROXY=off GOSUMDB=off GOTOOLCHAIN=local
scratch=$(mktemp -d /tmp/seedtry-XXXXXX)
cleanup() { git -C /repo worktree remove --force "$scratch" 2>/dev/null; rm -rf "$scratch"; git -C /repo worktree prune; }
trap cleanup EXIT
rmdir "$scratch"
git -C /repo worktree add -q --detach "$scratch" HEAD || exit 2
cd "$scratch" || exit 2
git apply "$seed/patch.diff" || { echo "patch does not apply"; exit 2; }
echo "== build + suite with the change"
go build ./... && go test -vet=off -count=1 ./... 2>&1 | tail -3
echo "== demo with the change (expected: FAIL)"
cp "$seed/demo_test.go" "$scratch/zz_seed_demo_test.go"
if grep -q "race" "$seed/meta.json" 2>/dev/null && [ "${1:-}" = "C12" ]; then RACE=-race; else RACE=; fi
timeout 300 go test $RACE -vet=off -count=1 -run TestSeedDemo . 2>&1 | tail -4
rm -f "$scratch/zz_seed_demo_test.go"
for p in "$@"; do
  echo "== ./check $p (against the scratch copy)"
  (cd /verif && VERIF_REPO="$scratch" timeout 1500 ./check $p 2>&1 | grep --line-buffered -E "VIOLATION|KNOWN-FINDING|held on everything|framework error|Traceback" | head -6)
done
echo "== demo on the unchanged source (expected: ok)"
git -C "$scratch" checkout -q -- . 
cp "$seed/demo_test.go" "$scratch/zz_seed_demo_test.go"
go test $RACE -vet=off -count=1 -run TestSeedDemo . 2>&1 | tail -2
